//! Worker core: case loop, panic capture, watchdog, report.
use crate::rng::Rng;
use serde::{de::DeserializeOwned, Deserialize, Serialize};
use serde_json::{json, Value};
use std::{
    collections::{BTreeMap, HashSet},
    io::Write,
    panic::{catch_unwind, AssertUnwindSafe},
    sync::{
        atomic::{AtomicU64, Ordering},
        Mutex,
    },
    time::{Duration, Instant},
};

#[derive(Clone, Copy, PartialEq, Eq, Debug)]
pub enum Tier {
    Quick,
    Thorough,
}

impl Tier {
    pub fn quick(self) -> bool {
        self == Tier::Quick
    }
    /// pick by tier
    pub fn pick<T>(self, quick: T, thorough: T) -> T {
        match self {
            Tier::Quick => quick,
            Tier::Thorough => thorough,
        }
    }
}

/// What a monitor observed when it disagrees with the real code
#[derive(Clone, Debug, Serialize, Deserialize)]
pub struct Fail {
    /// canonical identity of the failure (clause + normalised site), used for dedupe and
    /// for matching against known_findings.json
    pub sig: String,
    /// human readable description with concrete values
    pub what: String,
}

impl Fail {
    pub fn new(sig: impl Into<String>, what: impl Into<String>) -> Self {
        Self {
            sig: sig.into(),
            what: what.into(),
        }
    }
}

#[macro_export]
macro_rules! fail {
    ($sig:expr, $($arg:tt)*) => {
        return Err($crate::core::Fail::new($sig, format!($($arg)*)))
    };
}

#[macro_export]
macro_rules! ensure {
    ($cond:expr, $sig:expr, $($arg:tt)*) => {
        if !($cond) {
            return Err($crate::core::Fail::new($sig, format!($($arg)*)));
        }
    };
}

pub struct Ctx {
    pub tier: Tier,
    pub flavour: String,
    pub seed: u64,
    pub shard: u64,
    pub feats: BTreeMap<String, u64>,
    /// free-form extra coverage values (merged by summing numbers / keeping first of others)
    pub extra: BTreeMap<String, Value>,
    /// set by a monitor when the case is outside the deciding domain (counted, never alarmed)
    pub nondeciding: bool,
}

impl Ctx {
    pub fn feat(&mut self, name: &str) {
        self.feat_n(name, 1);
    }
    pub fn feat_n(&mut self, name: &str, n: u64) {
        if n == 0 {
            return;
        }
        match self.feats.get_mut(name) {
            Some(v) => *v += n,
            None => {
                self.feats.insert(name.to_string(), n);
            }
        }
    }
    pub fn feat_if(&mut self, cond: bool, name: &str) {
        if cond {
            self.feat(name)
        }
    }
    pub fn miri(&self) -> bool {
        cfg!(miri)
    }
}

pub trait Prop {
    type Case: Serialize + DeserializeOwned + Clone;
    const ID: &'static str;

    /// how many cases a worker runs by default
    fn default_cases(tier: Tier, flavour: &str) -> u64;
    /// generate case number `index` (deterministic in rng+index)
    fn gen(rng: &mut Rng, tier: Tier, index: u64) -> Self::Case;
    /// run the real code on the case under the monitor
    fn check(case: &Self::Case, ctx: &mut Ctx) -> Result<(), Fail>;
    /// non-triviality rule (stated in `rule()`)
    fn nontrivial(_case: &Self::Case) -> bool {
        true
    }
    fn case_hash(case: &Self::Case) -> u64 {
        let text = serde_json::to_vec(case).unwrap_or_default();
        fnv(&text)
    }
    /// candidate smaller cases for greedy shrinking
    fn shrink(_case: &Self::Case) -> Vec<Self::Case> {
        Vec::new()
    }
    fn rule() -> &'static str;
    /// called once before the loop (warm-up of lazies, etc)
    fn setup(_ctx: &mut Ctx) {}
    /// called once after the loop, may add extra coverage or declare the run inconclusive
    fn finish(_ctx: &mut Ctx) -> Option<String> {
        None
    }
    /// compact rendering of a case for evidence samples
    fn sample(case: &Self::Case) -> Value {
        serde_json::to_value(case).unwrap_or(Value::Null)
    }
}

pub fn fnv(data: &[u8]) -> u64 {
    let mut h: u64 = 0xcbf2_9ce4_8422_2325;
    for b in data {
        h ^= *b as u64;
        h = h.wrapping_mul(0x1000_0000_01b3);
    }
    h
}

// ---------------------------------------------------------------------------
// panic capture

static PANIC_INFO: Mutex<Option<(String, String)>> = Mutex::new(None);

pub fn install_panic_hook() {
    std::panic::set_hook(Box::new(|info| {
        let loc = info
            .location()
            .map(|l| format!("{}:{}", l.file(), l.line()))
            .unwrap_or_else(|| "?".to_string());
        let msg = if let Some(s) = info.payload().downcast_ref::<&str>() {
            s.to_string()
        } else if let Some(s) = info.payload().downcast_ref::<String>() {
            s.clone()
        } else {
            "<non-string panic>".to_string()
        };
        if let Ok(mut guard) = PANIC_INFO.lock() {
            *guard = Some((loc, msg));
        }
    }));
}

fn take_panic() -> (String, String) {
    PANIC_INFO
        .lock()
        .ok()
        .and_then(|mut g| g.take())
        .unwrap_or_else(|| ("?".into(), "?".into()))
}

/// strip volatile parts (numbers, absolute paths) from a panic message
pub fn normalise(msg: &str) -> String {
    let mut out = String::new();
    let mut last_digit = false;
    for c in msg.chars().take(120) {
        if c.is_ascii_digit() {
            if !last_digit {
                out.push('#');
            }
            last_digit = true;
        } else {
            last_digit = false;
            out.push(c);
        }
    }
    out
}

fn panic_fail(loc: String, msg: String) -> Fail {
    // file without line number: lines move when unrelated code changes
    let file = loc.rsplit_once(':').map(|(f, _)| f).unwrap_or(&loc);
    let file = file
        .rsplit_once("/repo/")
        .map(|(_, f)| f.to_string())
        .unwrap_or_else(|| {
            // registry / std paths: keep the tail
            let parts: Vec<&str> = file.rsplit('/').take(3).collect();
            parts.into_iter().rev().collect::<Vec<_>>().join("/")
        });
    Fail::new(
        format!("panic@{}:{}", file, normalise(&msg)),
        format!("panic at {}: {}", loc, msg),
    )
}

/// Run monitor on a case, converting panics into failures
pub fn check_guarded<P: Prop>(case: &P::Case, ctx: &mut Ctx) -> Result<(), Fail> {
    ctx.nondeciding = false;
    match catch_unwind(AssertUnwindSafe(|| P::check(case, ctx))) {
        Ok(result) => result,
        Err(_) => {
            let (loc, msg) = take_panic();
            Err(panic_fail(loc, msg))
        }
    }
}

// ---------------------------------------------------------------------------
// report

#[derive(Serialize, Deserialize, Debug, Clone)]
pub struct ViolationRec {
    pub sig: String,
    pub what: String,
    pub count: u64,
    pub case: Value,
    pub index: u64,
}

#[derive(Serialize, Deserialize, Debug)]
pub struct Report {
    pub property: String,
    pub flavour: String,
    pub shard: u64,
    pub seed: u64,
    pub evaluations: u64,
    pub nondeciding: u64,
    pub distinct_nontrivial_local: u64,
    pub hash_file: Option<String>,
    pub features: BTreeMap<String, u64>,
    pub extra: BTreeMap<String, Value>,
    pub samples: Vec<Value>,
    pub violations: Vec<ViolationRec>,
    pub inconclusive: Option<String>,
    pub wall_s: f64,
    pub next_index: u64,
    pub rule: String,
}

pub struct RunArgs {
    pub tier: Tier,
    pub flavour: String,
    pub seed: u64,
    pub shard: u64,
    pub nshards: u64,
    pub cases: Option<u64>,
    pub start_index: u64,
    pub max_secs: f64,
    pub outdir: String,
    pub journal: Option<String>,
    pub case_timeout: f64,
}

static WATCH_INDEX: AtomicU64 = AtomicU64::new(u64::MAX);
static WATCH_EPOCH: AtomicU64 = AtomicU64::new(0);

fn spawn_watchdog(outdir: String, prop: String, flavour: String, shard: u64, timeout: f64) {
    std::thread::spawn(move || {
        let mut last = (u64::MAX, 0u64);
        let mut since = Instant::now();
        loop {
            std::thread::sleep(Duration::from_millis(250));
            let cur = (
                WATCH_INDEX.load(Ordering::Relaxed),
                WATCH_EPOCH.load(Ordering::Relaxed),
            );
            if cur != last {
                last = cur;
                since = Instant::now();
            } else if cur.0 != u64::MAX && since.elapsed().as_secs_f64() > timeout {
                let path = format!("{}/{}.{}.{}.hang", outdir, prop, flavour, shard);
                let _ = std::fs::write(&path, format!("{}", cur.0));
                eprintln!("[watchdog] case {} exceeded {}s", cur.0, timeout);
                std::process::exit(3);
            }
        }
    });
}

pub fn run<P: Prop>(args: &RunArgs) -> Report {
    let start = Instant::now();
    let mut ctx = Ctx {
        tier: args.tier,
        flavour: args.flavour.clone(),
        seed: args.seed,
        shard: args.shard,
        feats: BTreeMap::new(),
        extra: BTreeMap::new(),
        nondeciding: false,
    };
    install_panic_hook();
    if !cfg!(miri) {
        spawn_watchdog(
            args.outdir.clone(),
            P::ID.to_string(),
            args.flavour.clone(),
            args.shard,
            args.case_timeout,
        );
    }
    P::setup(&mut ctx);

    let total = args
        .cases
        .unwrap_or_else(|| P::default_cases(args.tier, &args.flavour));
    // each shard gets its share
    let per_shard = total.div_ceil(args.nshards.max(1));
    let mut journal = args
        .journal
        .as_ref()
        .map(|p| std::fs::File::create(p).expect("journal"));

    let mut hashes: HashSet<u64> = HashSet::new();
    const HASH_CAP: usize = 1_500_000;
    let mut samples: Vec<Value> = Vec::new();
    let mut violations: BTreeMap<String, ViolationRec> = BTreeMap::new();
    let mut evaluations = 0u64;
    let mut nondeciding = 0u64;
    let sample_every = (per_shard / 3).max(1);

    let mut index = args.start_index;
    while index < per_shard {
        if index % 64 == 0 && start.elapsed().as_secs_f64() > args.max_secs {
            ctx.extra.insert(
                "stopped_early_at_time_budget".into(),
                json!(format!("{} of {}", index, per_shard)),
            );
            break;
        }
        if let Some(j) = journal.as_mut() {
            use std::os::unix::fs::FileExt;
            let _ = j.write_at(format!("{:<20}", index).as_bytes(), 0);
        }
        WATCH_INDEX.store(index, Ordering::Relaxed);
        WATCH_EPOCH.fetch_add(1, Ordering::Relaxed);

        let mut rng = Rng::for_case(args.seed, P::ID, args.shard, index);
        let case = P::gen(&mut rng, args.tier, index * args.nshards + args.shard);
        let result = check_guarded::<P>(&case, &mut ctx);
        evaluations += 1;
        if ctx.nondeciding {
            nondeciding += 1;
        }
        if P::nontrivial(&case) && !ctx.nondeciding && hashes.len() < HASH_CAP {
            hashes.insert(P::case_hash(&case));
        }
        if samples.len() < 3 && (index % sample_every == 0) && P::nontrivial(&case) {
            samples.push(P::sample(&case));
        }
        if let Err(fail) = result {
            match violations.get_mut(&fail.sig) {
                Some(rec) => rec.count += 1,
                None => {
                    if violations.len() < 64 {
                        // shrink: greedy, re-running the same monitor
                        let (case, fail) = shrink::<P>(case, fail, &mut ctx);
                        violations.insert(
                            fail.sig.clone(),
                            ViolationRec {
                                sig: fail.sig,
                                what: fail.what,
                                count: 1,
                                case: serde_json::to_value(&case).unwrap_or(Value::Null),
                                index,
                            },
                        );
                    }
                }
            }
        }
        index += 1;
    }
    WATCH_INDEX.store(u64::MAX, Ordering::Relaxed);
    if samples.is_empty() {
        let mut rng = Rng::for_case(args.seed, P::ID, args.shard, 0);
        samples.push(P::sample(&P::gen(&mut rng, args.tier, args.shard)));
    }

    let inconclusive = P::finish(&mut ctx);

    // dump hashes for cross-shard distinct counting
    let hash_file = format!(
        "{}/{}.{}.{}.hashes",
        args.outdir,
        P::ID,
        args.flavour,
        args.shard
    );
    let mut bytes = Vec::with_capacity(hashes.len() * 8);
    for h in hashes.iter() {
        bytes.extend_from_slice(&h.to_le_bytes());
    }
    let hash_file = std::fs::File::create(&hash_file)
        .and_then(|mut f| f.write_all(&bytes))
        .ok()
        .map(|_| hash_file);

    Report {
        property: P::ID.to_string(),
        flavour: args.flavour.clone(),
        shard: args.shard,
        seed: args.seed,
        evaluations,
        nondeciding,
        distinct_nontrivial_local: hashes.len() as u64,
        hash_file,
        features: ctx.feats,
        extra: ctx.extra,
        samples,
        violations: violations.into_values().collect(),
        inconclusive,
        wall_s: start.elapsed().as_secs_f64(),
        next_index: index,
        rule: P::rule().to_string(),
    }
}

fn shrink<P: Prop>(mut case: P::Case, mut fail: Fail, ctx: &mut Ctx) -> (P::Case, Fail) {
    let mut scratch = Ctx {
        tier: ctx.tier,
        flavour: ctx.flavour.clone(),
        seed: ctx.seed,
        shard: ctx.shard,
        feats: BTreeMap::new(),
        extra: BTreeMap::new(),
        nondeciding: false,
    };
    let deadline = Instant::now() + Duration::from_secs(if cfg!(miri) { 0 } else { 2 });
    let mut progress = true;
    while progress && Instant::now() < deadline {
        progress = false;
        for cand in P::shrink(&case) {
            if Instant::now() >= deadline {
                break;
            }
            if let Err(f) = check_guarded::<P>(&cand, &mut scratch) {
                if f.sig == fail.sig {
                    case = cand;
                    fail = f;
                    progress = true;
                    break;
                }
            }
        }
    }
    (case, fail)
}

/// Replay a concrete case file: {"property":..., "case":...}
pub fn replay<P: Prop>(case: Value, tier: Tier, flavour: &str) -> Result<(), Fail> {
    install_panic_hook();
    let case: P::Case = serde_json::from_value(case)
        .map_err(|e| Fail::new("replay-parse", format!("cannot parse case: {e}")))?;
    let mut ctx = Ctx {
        tier,
        flavour: flavour.to_string(),
        seed: 0,
        shard: 0,
        feats: BTreeMap::new(),
        extra: BTreeMap::new(),
        nondeciding: false,
    };
    P::setup(&mut ctx);
    check_guarded::<P>(&case, &mut ctx)
}

/// Regenerate the concrete case at given coordinates
pub fn describe<P: Prop>(seed: u64, shard: u64, nshards: u64, index: u64, tier: Tier) -> Value {
    let mut rng = Rng::for_case(seed, P::ID, shard, index);
    let case = P::gen(&mut rng, tier, index * nshards + shard);
    serde_json::to_value(&case).unwrap_or(Value::Null)
}

// ---------------------------------------------------------------------------
// shrink helpers

/// Candidates for shrinking a vector: drop halves, drop single elements
pub fn shrink_vec<T: Clone>(v: &[T]) -> Vec<Vec<T>> {
    let mut out = Vec::new();
    let n = v.len();
    if n == 0 {
        return out;
    }
    if n > 1 {
        out.push(v[..n / 2].to_vec());
        out.push(v[n / 2..].to_vec());
    }
    let step = (n / 16).max(1);
    let mut i = 0;
    while i < n {
        let mut c = v[..i].to_vec();
        c.extend_from_slice(&v[(i + step).min(n)..]);
        out.push(c);
        i += step;
    }
    out
}
