//! Independent ECMA-48 / DEC / xterm control-sequence parser and SGR interpreter.
//!
//! Nothing here depends on `surf_n_term`: this is the reference "VT/xterm interpreter"
//! that the encoder-side properties (C05, C20, C06, C01, C16) read the library's output with.
//!
//! # Parser
//!
//! [`Parser`] is a byte-at-a-time state machine after ECMA-48 §5 and the DEC STD 070 /
//! vt100.net state diagram, in UTF-8 mode (bytes >= 0x80 are UTF-8, never 8-bit C1):
//!
//! * ground: printable UTF-8 -> [`Op::Print`], C0/DEL -> [`Op::C0`], decoded U+0080..U+009F ->
//!   [`Op::C1`] (reported, not acted upon), malformed UTF-8 -> [`Op::Unknown`]
//! * `ESC` + intermediates (0x20..=0x2F)* + final (0x30..=0x7E): `ESC 7` DECSC, `ESC 8` DECRC,
//!   `ESC c` RIS, `ESC D/E/M` IND/NEL/RI, `ESC [` CSI, `ESC ]` OSC, `ESC P` DCS, `ESC _` APC,
//!   `ESC ^` PM, `ESC X` SOS, everything else -> [`Op::Unknown`] with the raw bytes
//! * CSI: optional private markers `< = > ?` (only in first position), parameters of digits
//!   separated by `;` with `:` sub-parameters, intermediates, final 0x40..=0x7E. A parameter
//!   byte after an intermediate, or a private marker after the first position, makes the whole
//!   sequence malformed (-> `Unknown`, as xterm's CSI_IGNORE does). C0 controls inside a
//!   sequence are executed (reported as `C0`) without leaving it; `CAN`/`SUB` abort it; `ESC`
//!   aborts it and starts a new escape sequence (the aborted bytes are reported as `Unknown`).
//! * OSC/DCS/APC/PM/SOS strings: terminated by ST (`ESC \`); OSC also by `BEL`. `CAN`/`SUB`
//!   abort. `ESC` followed by anything but `\` aborts the string (reported `Unknown`) and
//!   starts a new escape sequence.
//!
//! Numeric parameters are `u32`, saturating. A missing parameter is `None` inside
//! [`Op::Sgr`]; for all other operations the documented default has already been substituted
//! (`CSI A` = `Cuu(1)`, `CSI H` = `Cup(1,1)`, `CSI K` = `El(0)`), while an explicit `0` is
//! kept as `0` (xterm treats a 0 count as 1 for motions/ECH/SU/SD: that is interpretation and
//! left to the user of the op list). Extra parameters of fixed-arity functions are ignored
//! like xterm does. `:` sub-parameters outside SGR make the sequence `Unknown`.
//!
//! [`Parser::in_ground`] tells whether the machine is in ground state with no partial UTF-8
//! sequence pending — "the bytes so far were complete, self-contained sequences".
//!
//! # SGR interpreter
//!
//! [`SgrState::apply`] folds the parameters of one [`Op::Sgr`] into a rendition state with the
//! xterm (= ECMA-48 + ITU T.416 + kitty underline extensions) meaning of every code; codes it
//! does not know, and malformed colour specifications, are returned so that callers can treat
//! "emitted something with no defined meaning" as an observation of its own.

/// SGR parameter list: one entry per `;`-separated parameter, each a list of `:`-separated
/// sub-parameters (`None` = empty). `CSI m` yields `vec![vec![None]]`.
pub type Params = Vec<Vec<Option<u32>>>;

/// Abstract terminal operation
#[derive(Clone, Debug, PartialEq, Eq)]
pub enum Op {
    /// printable character (anything decoded from UTF-8 that is not C0/DEL/C1)
    Print(char),
    /// C0 control or DEL executed (BEL, BS, HT, LF, CR, ...)
    C0(u8),
    /// C1 control decoded from UTF-8 (U+0080..U+009F), low byte
    C1(u8),
    /// CUP / HVP: `CSI row ; col H|f` (1-based)
    Cup(u32, u32),
    /// CUU `CSI n A`
    Cuu(u32),
    /// CUD `CSI n B`
    Cud(u32),
    /// CUF `CSI n C`
    Cuf(u32),
    /// CUB `CSI n D`
    Cub(u32),
    /// CNL `CSI n E`
    Cnl(u32),
    /// CPL `CSI n F`
    Cpl(u32),
    /// CHA `CSI n G`
    Cha(u32),
    /// VPA `CSI n d`
    Vpa(u32),
    /// ICH `CSI n @`
    Ich(u32),
    /// DCH `CSI n P`
    Dch(u32),
    /// IL `CSI n L`
    Il(u32),
    /// DL `CSI n M`
    Dl(u32),
    /// REP `CSI n b`
    Rep(u32),
    /// ECH `CSI n X`
    Ech(u32),
    /// EL `CSI k K` (0 right, 1 left, 2 whole line)
    El(u32),
    /// ED `CSI k J` (0 below, 1 above, 2 all, 3 scrollback)
    Ed(u32),
    /// SU `CSI n S`: scroll up
    Su(u32),
    /// SD `CSI n T`: scroll down
    Sd(u32),
    /// DECSTBM `CSI top ; bottom r`; `None` = default (first / last line), 0 is the default too
    Decstbm { top: Option<u32>, bottom: Option<u32> },
    /// DECSET `CSI ? m ; ... h`
    Decset(Vec<u32>),
    /// DECRST `CSI ? m ; ... l`
    Decrst(Vec<u32>),
    /// SM `CSI m ; ... h` (ANSI modes)
    Sm(Vec<u32>),
    /// RM `CSI m ; ... l`
    Rm(Vec<u32>),
    /// DECRQM `CSI ? m $ p`
    Decrqm(u32),
    /// DSR `CSI n n` (5 status, 6 cursor position)
    Dsr(u32),
    /// DA1 `CSI c` / `CSI 0 c`
    Da1,
    /// DA2 `CSI > c`
    Da2,
    /// DECSC `ESC 7`
    Decsc,
    /// DECRC `ESC 8`
    Decrc,
    /// RIS `ESC c`
    Ris,
    /// IND `ESC D`
    Ind,
    /// NEL `ESC E`
    Nel,
    /// RI `ESC M`
    Ri,
    /// SGR `CSI ... m`
    Sgr(Params),
    /// kitty keyboard protocol `CSI = flags ; mode u` (mode defaults to 1 = set all)
    KittyKbd { flags: u32, mode: u32 },
    /// kitty keyboard `CSI > flags u`
    KittyKbdPush(u32),
    /// kitty keyboard `CSI < n u`
    KittyKbdPop(u32),
    /// kitty keyboard `CSI ? u`
    KittyKbdQuery,
    /// OSC `ESC ] num ; text (ST|BEL)`; `text` is everything after the first `;`
    Osc(u32, String),
    /// DCS `ESC P text ST` (whole payload, including any parameters/intermediates/final)
    Dcs(String),
    /// APC `ESC _ text ST`
    Apc(String),
    /// PM `ESC ^ text ST`
    Pm(String),
    /// SOS `ESC X text ST`
    Sos(String),
    /// Anything without an assigned meaning here (raw bytes, including introducer)
    Unknown(Vec<u8>),
}

#[derive(Clone, Copy, Debug, PartialEq, Eq)]
enum StrKind {
    Osc,
    Dcs,
    Apc,
    Pm,
    Sos,
}

#[derive(Clone, Copy, Debug, PartialEq, Eq)]
enum State {
    Ground,
    /// after ESC, collecting intermediates
    Esc,
    /// after CSI, in the parameter section
    CsiParam,
    /// after CSI, in the intermediate section
    CsiInter,
    /// malformed CSI, skipping to the final byte
    CsiIgnore,
    /// inside a control string
    Str(StrKind),
    /// ESC seen inside a control string
    StrEsc(StrKind),
}

/// The control sequence state machine. Feed bytes in any chunking; ops come out in order.
#[derive(Clone, Debug)]
pub struct Parser {
    state: State,
    /// raw bytes of the sequence being collected (introducer included)
    raw: Vec<u8>,
    /// payload of the string being collected
    text: Vec<u8>,
    /// pending UTF-8 bytes in ground state
    utf8: Vec<u8>,
    utf8_need: usize,
}

impl Default for Parser {
    fn default() -> Self {
        Self::new()
    }
}

impl Parser {
    pub fn new() -> Self {
        Self {
            state: State::Ground,
            raw: Vec::new(),
            text: Vec::new(),
            utf8: Vec::new(),
            utf8_need: 0,
        }
    }

    /// Ground state and no partial UTF-8 character pending
    pub fn in_ground(&self) -> bool {
        self.state == State::Ground && self.utf8.is_empty()
    }

    /// Name of the current state (for diagnostics)
    pub fn state_name(&self) -> &'static str {
        match self.state {
            State::Ground if self.utf8.is_empty() => "ground",
            State::Ground => "ground+partial-utf8",
            State::Esc => "escape",
            State::CsiParam => "csi-param",
            State::CsiInter => "csi-intermediate",
            State::CsiIgnore => "csi-ignore",
            State::Str(StrKind::Osc) | State::StrEsc(StrKind::Osc) => "osc-string",
            State::Str(StrKind::Dcs) | State::StrEsc(StrKind::Dcs) => "dcs-string",
            State::Str(_) | State::StrEsc(_) => "apc/pm/sos-string",
        }
    }

    /// Forget everything (as a hard reset of the parser would)
    pub fn reset(&mut self) {
        *self = Self::new();
    }

    /// Consume bytes, appending the operations they complete to `out`
    pub fn feed(&mut self, bytes: &[u8], out: &mut Vec<Op>) {
        for b in bytes {
            self.step(*b, out);
        }
    }

    fn flush_utf8_invalid(&mut self, out: &mut Vec<Op>) {
        if !self.utf8.is_empty() {
            out.push(Op::Unknown(std::mem::take(&mut self.utf8)));
            self.utf8_need = 0;
        }
    }

    fn abort(&mut self, out: &mut Vec<Op>) {
        let mut raw = std::mem::take(&mut self.raw);
        raw.extend_from_slice(&self.text);
        self.text.clear();
        if !raw.is_empty() {
            out.push(Op::Unknown(raw));
        }
        self.state = State::Ground;
    }

    fn step(&mut self, b: u8, out: &mut Vec<Op>) {
        match self.state {
            State::Ground => self.ground(b, out),
            State::Esc => match b {
                0x1b => {
                    self.abort(out);
                    self.enter_esc();
                }
                0x18 | 0x1a => self.abort(out),
                0x00..=0x1f | 0x7f => out.push(Op::C0(b)),
                0x20..=0x2f => self.raw.push(b),
                0x30..=0x7e => {
                    self.raw.push(b);
                    self.esc_dispatch(b, out);
                }
                _ => {
                    // a non-ASCII byte cannot be part of an escape sequence
                    self.abort(out);
                    self.ground(b, out);
                }
            },
            State::CsiParam | State::CsiInter | State::CsiIgnore => match b {
                0x1b => {
                    self.abort(out);
                    self.enter_esc();
                }
                0x18 | 0x1a => self.abort(out),
                0x00..=0x1f | 0x7f => out.push(Op::C0(b)),
                0x30..=0x3f => {
                    self.raw.push(b);
                    if self.state == State::CsiInter {
                        self.state = State::CsiIgnore;
                    } else if self.state == State::CsiParam
                        && (0x3c..=0x3f).contains(&b)
                        && self.raw.len() != 3
                    {
                        // private marker not in first position
                        self.state = State::CsiIgnore;
                    }
                }
                0x20..=0x2f => {
                    self.raw.push(b);
                    if self.state == State::CsiParam {
                        self.state = State::CsiInter;
                    }
                }
                0x40..=0x7e => {
                    self.raw.push(b);
                    let raw = std::mem::take(&mut self.raw);
                    let ignore = self.state == State::CsiIgnore;
                    self.state = State::Ground;
                    if ignore {
                        out.push(Op::Unknown(raw));
                    } else {
                        out.push(csi_dispatch(raw));
                    }
                }
                _ => {
                    self.abort(out);
                    self.ground(b, out);
                }
            },
            State::Str(kind) => match b {
                0x1b => self.state = State::StrEsc(kind),
                0x07 if kind == StrKind::Osc => self.str_dispatch(kind, out),
                0x18 | 0x1a => self.abort(out),
                // other C0 controls are ignored inside OSC/APC/PM/SOS and passed through in DCS
                0x00..=0x1f if kind != StrKind::Dcs => {}
                _ => self.text.push(b),
            },
            State::StrEsc(kind) => match b {
                b'\\' => self.str_dispatch(kind, out),
                _ => {
                    // string aborted by a new escape sequence
                    self.abort(out);
                    self.enter_esc();
                    self.step(b, out);
                }
            },
        }
    }

    fn enter_esc(&mut self) {
        self.raw.clear();
        self.raw.push(0x1b);
        self.text.clear();
        self.state = State::Esc;
    }

    fn ground(&mut self, b: u8, out: &mut Vec<Op>) {
        if !self.utf8.is_empty() {
            if b & 0xc0 == 0x80 {
                self.utf8.push(b);
                if self.utf8.len() == self.utf8_need {
                    let bytes = std::mem::take(&mut self.utf8);
                    self.utf8_need = 0;
                    match std::str::from_utf8(&bytes).ok().and_then(|s| s.chars().next()) {
                        Some(c) if (0x80..=0x9f).contains(&(c as u32)) => {
                            out.push(Op::C1(c as u32 as u8))
                        }
                        Some(c) => out.push(Op::Print(c)),
                        // overlong, surrogate, > U+10FFFF
                        None => out.push(Op::Unknown(bytes)),
                    }
                }
                return;
            }
            self.flush_utf8_invalid(out);
        }
        match b {
            0x1b => self.enter_esc(),
            0x00..=0x1f | 0x7f => out.push(Op::C0(b)),
            0x20..=0x7e => out.push(Op::Print(b as char)),
            0xc2..=0xdf => {
                self.utf8.push(b);
                self.utf8_need = 2;
            }
            0xe0..=0xef => {
                self.utf8.push(b);
                self.utf8_need = 3;
            }
            0xf0..=0xf4 => {
                self.utf8.push(b);
                self.utf8_need = 4;
            }
            _ => out.push(Op::Unknown(vec![b])),
        }
    }

    fn esc_dispatch(&mut self, fin: u8, out: &mut Vec<Op>) {
        let has_inter = self.raw.len() > 2;
        self.state = State::Ground;
        if has_inter {
            out.push(Op::Unknown(std::mem::take(&mut self.raw)));
            return;
        }
        let op = match fin {
            b'[' => {
                self.state = State::CsiParam;
                return; // raw stays: ESC [
            }
            b']' => return self.enter_str(StrKind::Osc),
            b'P' => return self.enter_str(StrKind::Dcs),
            b'_' => return self.enter_str(StrKind::Apc),
            b'^' => return self.enter_str(StrKind::Pm),
            b'X' => return self.enter_str(StrKind::Sos),
            b'7' => Op::Decsc,
            b'8' => Op::Decrc,
            b'c' => Op::Ris,
            b'D' => Op::Ind,
            b'E' => Op::Nel,
            b'M' => Op::Ri,
            _ => Op::Unknown(self.raw.clone()),
        };
        self.raw.clear();
        out.push(op);
    }

    fn enter_str(&mut self, kind: StrKind) {
        self.text.clear();
        self.state = State::Str(kind);
    }

    fn str_dispatch(&mut self, kind: StrKind, out: &mut Vec<Op>) {
        let text = std::mem::take(&mut self.text);
        let raw = std::mem::take(&mut self.raw);
        self.state = State::Ground;
        let string = String::from_utf8_lossy(&text).into_owned();
        out.push(match kind {
            StrKind::Dcs => Op::Dcs(string),
            StrKind::Apc => Op::Apc(string),
            StrKind::Pm => Op::Pm(string),
            StrKind::Sos => Op::Sos(string),
            StrKind::Osc => {
                let (num, rest) = match string.find(';') {
                    Some(at) => (&string[..at], &string[at + 1..]),
                    None => (string.as_str(), ""),
                };
                if !num.is_empty() && num.bytes().all(|b| b.is_ascii_digit()) {
                    Op::Osc(parse_u32(num.as_bytes()), rest.to_string())
                } else {
                    let mut bytes = raw;
                    bytes.extend_from_slice(&text);
                    Op::Unknown(bytes)
                }
            }
        });
    }
}

fn parse_u32(digits: &[u8]) -> u32 {
    let mut v: u32 = 0;
    for d in digits {
        v = v.saturating_mul(10).saturating_add((d - b'0') as u32);
    }
    v
}

/// Split the parameter section of a CSI sequence
fn parse_params(section: &[u8]) -> Params {
    section
        .split(|b| *b == b';')
        .map(|param| {
            param
                .split(|b| *b == b':')
                .map(|sub| {
                    if sub.is_empty() {
                        None
                    } else {
                        Some(parse_u32(sub))
                    }
                })
                .collect()
        })
        .collect()
}

/// raw = ESC [ (private)? params inter* final, already validated by the state machine
fn csi_dispatch(raw: Vec<u8>) -> Op {
    let body = &raw[2..raw.len() - 1];
    let fin = raw[raw.len() - 1];
    let (private, body) = match body.first() {
        Some(p @ 0x3c..=0x3f) => (Some(*p), &body[1..]),
        _ => (None, body),
    };
    let params_end = body
        .iter()
        .position(|b| (0x20..=0x2f).contains(b))
        .unwrap_or(body.len());
    let (section, inter) = body.split_at(params_end);
    let params = parse_params(section);
    let has_sub = params.iter().any(|p| p.len() > 1);
    // n-th parameter: None when missing/empty
    let arg = |n: usize| params.get(n).and_then(|p| p[0]);
    let count = |n: usize| arg(n).unwrap_or(1);
    let list = || params.iter().map(|p| p[0].unwrap_or(0)).collect::<Vec<u32>>();

    if fin == b'm' && private.is_none() && inter.is_empty() {
        return Op::Sgr(params);
    }
    if has_sub {
        return Op::Unknown(raw);
    }
    match (private, inter, fin) {
        (None, b"", b'A') => Op::Cuu(count(0)),
        (None, b"", b'B') => Op::Cud(count(0)),
        (None, b"", b'C') => Op::Cuf(count(0)),
        (None, b"", b'D') => Op::Cub(count(0)),
        (None, b"", b'E') => Op::Cnl(count(0)),
        (None, b"", b'F') => Op::Cpl(count(0)),
        (None, b"", b'G') => Op::Cha(count(0)),
        (None, b"", b'd') => Op::Vpa(count(0)),
        (None, b"", b'H') | (None, b"", b'f') => Op::Cup(count(0), count(1)),
        (None, b"", b'@') => Op::Ich(count(0)),
        (None, b"", b'P') => Op::Dch(count(0)),
        (None, b"", b'L') => Op::Il(count(0)),
        (None, b"", b'M') => Op::Dl(count(0)),
        (None, b"", b'b') => Op::Rep(count(0)),
        (None, b"", b'X') => Op::Ech(count(0)),
        (None, b"", b'K') => Op::El(arg(0).unwrap_or(0)),
        (None, b"", b'J') => Op::Ed(arg(0).unwrap_or(0)),
        (None, b"", b'S') => Op::Su(count(0)),
        // more than one parameter: xterm's mouse highlight tracking, not SD
        (None, b"", b'T') if params.len() == 1 => Op::Sd(count(0)),
        (None, b"", b'r') => Op::Decstbm {
            top: arg(0).filter(|v| *v != 0),
            bottom: arg(1).filter(|v| *v != 0),
        },
        (Some(b'?'), b"", b'h') => Op::Decset(list()),
        (Some(b'?'), b"", b'l') => Op::Decrst(list()),
        (None, b"", b'h') => Op::Sm(list()),
        (None, b"", b'l') => Op::Rm(list()),
        (Some(b'?'), b"$", b'p') if params.len() == 1 => match arg(0) {
            Some(mode) => Op::Decrqm(mode),
            None => Op::Unknown(raw),
        },
        (None, b"", b'n') => match arg(0) {
            Some(what) => Op::Dsr(what),
            None => Op::Unknown(raw),
        },
        (None, b"", b'c') if arg(0).unwrap_or(0) == 0 => Op::Da1,
        (Some(b'>'), b"", b'c') if arg(0).unwrap_or(0) == 0 => Op::Da2,
        (Some(b'='), b"", b'u') => Op::KittyKbd {
            flags: arg(0).unwrap_or(0),
            mode: count(1),
        },
        (Some(b'>'), b"", b'u') => Op::KittyKbdPush(arg(0).unwrap_or(0)),
        (Some(b'<'), b"", b'u') => Op::KittyKbdPop(count(0)),
        (Some(b'?'), b"", b'u') if section.is_empty() => Op::KittyKbdQuery,
        _ => Op::Unknown(raw),
    }
}

/// Parse a complete byte string; returns the operations and whether the parser ended in
/// ground state
pub fn parse(bytes: &[u8]) -> (Vec<Op>, bool) {
    let mut parser = Parser::new();
    let mut out = Vec::new();
    parser.feed(bytes, &mut out);
    (out, parser.in_ground())
}

// ---------------------------------------------------------------------------
// SGR interpretation

/// Colour selected by SGR
#[derive(Clone, Copy, Debug, PartialEq, Eq, Default)]
pub enum ColorSpec {
    /// terminal default (SGR 39 / 49 / 59, or after 0)
    #[default]
    Default,
    /// direct colour (38/48/58 ; 2)
    Rgb(u8, u8, u8),
    /// palette entry: 30–37 -> 0–7, 90–97 -> 8–15, 38;5;n -> n
    Indexed(u8),
}

/// Underline style (SGR 4, 4:n, 21, 24)
#[derive(Clone, Copy, Debug, PartialEq, Eq, Default)]
pub enum Underline {
    #[default]
    None,
    Straight,
    Double,
    Curly,
    Dotted,
    Dashed,
}

/// Graphic rendition state of an xterm-like terminal
#[derive(Clone, Copy, Debug, PartialEq, Eq, Default)]
pub struct SgrState {
    pub fg: ColorSpec,
    pub bg: ColorSpec,
    pub underline_color: ColorSpec,
    pub bold: bool,
    pub faint: bool,
    pub italic: bool,
    pub blink: bool,
    pub reverse: bool,
    pub conceal: bool,
    pub strike: bool,
    pub overline: bool,
    pub underline: Underline,
}

/// Something in an SGR parameter list that has no defined meaning
#[derive(Clone, Debug, PartialEq, Eq)]
pub enum SgrIssue {
    /// code without an assigned meaning in this model
    UnknownCode(u32),
    /// 38/48/58 with a malformed or truncated colour specification
    BadColor(u32),
    /// a code that takes no sub-parameters was given some, or 4:n with n outside 0..=5
    BadSubParams(u32),
}

impl SgrState {
    /// State in which every field differs from the default (handy as an adversarial prior)
    pub fn all_set() -> Self {
        SgrState {
            fg: ColorSpec::Rgb(1, 2, 3),
            bg: ColorSpec::Indexed(5),
            underline_color: ColorSpec::Rgb(9, 8, 7),
            bold: true,
            faint: false,
            italic: true,
            blink: true,
            reverse: true,
            conceal: false,
            strike: true,
            overline: false,
            underline: Underline::Curly,
        }
    }

    /// Fold one SGR parameter list into the state (xterm meaning). Returns what could not be
    /// interpreted; the interpretable rest is applied regardless, as a terminal would.
    pub fn apply(&mut self, params: &Params) -> Vec<SgrIssue> {
        let mut issues = Vec::new();
        let mut i = 0;
        while i < params.len() {
            let param = &params[i];
            i += 1;
            let code = param.first().copied().flatten().unwrap_or(0);
            let subs = &param[1.min(param.len())..];
            match code {
                38 | 48 | 58 => {
                    let color = if subs.is_empty() {
                        // `;` form: 38;2;r;g;b or 38;5;n in the following parameters
                        let next = |k: usize| -> Option<u32> {
                            let p = params.get(i + k)?;
                            if p.len() != 1 {
                                return None;
                            }
                            Some(p[0].unwrap_or(0))
                        };
                        match next(0) {
                            Some(2) => match (next(1), next(2), next(3)) {
                                (Some(r), Some(g), Some(b)) => {
                                    i += 4;
                                    rgb(r, g, b)
                                }
                                _ => {
                                    i = params.len();
                                    None
                                }
                            },
                            Some(5) => match next(1) {
                                Some(n) => {
                                    i += 2;
                                    u8::try_from(n).ok().map(ColorSpec::Indexed)
                                }
                                None => {
                                    i = params.len();
                                    None
                                }
                            },
                            _ => {
                                i = params.len();
                                None
                            }
                        }
                    } else {
                        // `:` form: 38:2:r:g:b, 38:2:<colourspace>:r:g:b, 38:5:n
                        let v = |k: usize| subs.get(k).copied().flatten();
                        match (subs[0], subs.len()) {
                            (Some(2), 4) => match (v(1), v(2), v(3)) {
                                (Some(r), Some(g), Some(b)) => rgb(r, g, b),
                                _ => None,
                            },
                            // colourspace id (usually empty) is skipped, trailing tolerance
                            // parameters are ignored
                            (Some(2), 5..) => rgb(v(2).unwrap_or(0), v(3).unwrap_or(0), v(4).unwrap_or(0)),
                            (Some(5), 2) => v(1).and_then(|n| u8::try_from(n).ok()).map(ColorSpec::Indexed),
                            _ => None,
                        }
                    };
                    match color {
                        Some(color) => match code {
                            38 => self.fg = color,
                            48 => self.bg = color,
                            _ => self.underline_color = color,
                        },
                        None => issues.push(SgrIssue::BadColor(code)),
                    }
                    continue;
                }
                4 if !subs.is_empty() => {
                    let style = match (subs.len(), subs[0]) {
                        (1, Some(0)) => Some(Underline::None),
                        (1, Some(1)) => Some(Underline::Straight),
                        (1, Some(2)) => Some(Underline::Double),
                        (1, Some(3)) => Some(Underline::Curly),
                        (1, Some(4)) => Some(Underline::Dotted),
                        (1, Some(5)) => Some(Underline::Dashed),
                        _ => None,
                    };
                    match style {
                        Some(style) => self.underline = style,
                        None => issues.push(SgrIssue::BadSubParams(4)),
                    }
                    continue;
                }
                _ => {}
            }
            if !subs.is_empty() {
                issues.push(SgrIssue::BadSubParams(code));
                continue;
            }
            match code {
                0 => *self = SgrState::default(),
                1 => self.bold = true,
                2 => self.faint = true,
                3 => self.italic = true,
                4 => self.underline = Underline::Straight,
                5 | 6 => self.blink = true,
                7 => self.reverse = true,
                8 => self.conceal = true,
                9 => self.strike = true,
                21 => self.underline = Underline::Double,
                22 => {
                    self.bold = false;
                    self.faint = false;
                }
                23 => self.italic = false,
                24 => self.underline = Underline::None,
                25 => self.blink = false,
                27 => self.reverse = false,
                28 => self.conceal = false,
                29 => self.strike = false,
                30..=37 => self.fg = ColorSpec::Indexed((code - 30) as u8),
                39 => self.fg = ColorSpec::Default,
                40..=47 => self.bg = ColorSpec::Indexed((code - 40) as u8),
                49 => self.bg = ColorSpec::Default,
                53 => self.overline = true,
                55 => self.overline = false,
                59 => self.underline_color = ColorSpec::Default,
                90..=97 => self.fg = ColorSpec::Indexed((code - 90 + 8) as u8),
                100..=107 => self.bg = ColorSpec::Indexed((code - 100 + 8) as u8),
                other => issues.push(SgrIssue::UnknownCode(other)),
            }
        }
        issues
    }
}

fn rgb(r: u32, g: u32, b: u32) -> Option<ColorSpec> {
    Some(ColorSpec::Rgb(
        u8::try_from(r).ok()?,
        u8::try_from(g).ok()?,
        u8::try_from(b).ok()?,
    ))
}

/// Convenience: fold every `Sgr` op of a list into `state`; other ops are ignored
pub fn apply_sgr_ops(state: &mut SgrState, ops: &[Op]) -> Vec<SgrIssue> {
    let mut issues = Vec::new();
    for op in ops {
        if let Op::Sgr(params) = op {
            issues.extend(state.apply(params));
        }
    }
    issues
}

#[cfg(test)]
mod tests {
    use super::*;

    fn ops(bytes: &[u8]) -> Vec<Op> {
        let (ops, ground) = parse(bytes);
        assert!(ground, "not in ground after {:?}", bytes);
        ops
    }

    #[test]
    fn csi_basics() {
        assert_eq!(ops(b"\x1b[3;7H"), vec![Op::Cup(3, 7)]);
        assert_eq!(ops(b"\x1b[H"), vec![Op::Cup(1, 1)]);
        assert_eq!(ops(b"\x1b[;5H"), vec![Op::Cup(1, 5)]);
        assert_eq!(ops(b"\x1b[2A\x1b[B\x1b[10C\x1b[0D"), vec![Op::Cuu(2), Op::Cud(1), Op::Cuf(10), Op::Cub(0)]);
        assert_eq!(ops(b"\x1b[K\x1b[1K\x1b[2K\x1b[2J"), vec![Op::El(0), Op::El(1), Op::El(2), Op::Ed(2)]);
        assert_eq!(ops(b"\x1b[5X\x1b[3S\x1b[4T"), vec![Op::Ech(5), Op::Su(3), Op::Sd(4)]);
        assert_eq!(ops(b"\x1b[2;10r"), vec![Op::Decstbm { top: Some(2), bottom: Some(10) }]);
        assert_eq!(ops(b"\x1b[r"), vec![Op::Decstbm { top: None, bottom: None }]);
        assert_eq!(ops(b"\x1b[?1049h\x1b[?25;7l"), vec![Op::Decset(vec![1049]), Op::Decrst(vec![25, 7])]);
        assert_eq!(ops(b"\x1b[?2026$p\x1b[6n\x1b[c\x1b[0c"), vec![Op::Decrqm(2026), Op::Dsr(6), Op::Da1, Op::Da1]);
        assert_eq!(ops(b"\x1b[=5u\x1b[=1;2u"), vec![Op::KittyKbd { flags: 5, mode: 1 }, Op::KittyKbd { flags: 1, mode: 2 }]);
        assert_eq!(ops(b"\x1b7\x1b8\x1bc"), vec![Op::Decsc, Op::Decrc, Op::Ris]);
    }

    #[test]
    fn malformed_and_aborted() {
        // a minus sign is an intermediate byte: digits after it make the sequence malformed
        assert_eq!(ops(b"\x1b[-2147483648D"), vec![Op::Unknown(b"\x1b[-2147483648D".to_vec())]);
        assert_eq!(ops(b"\x1b[1?h"), vec![Op::Unknown(b"\x1b[1?h".to_vec())]);
        assert_eq!(ops(b"\x1b[12\x1b[3A"), vec![Op::Unknown(b"\x1b[12".to_vec()), Op::Cuu(3)]);
        assert_eq!(ops(b"\x1b[1\x182"), vec![Op::Unknown(b"\x1b[1".to_vec()), Op::Print('2')]);
        assert_eq!(ops(b"\x1b[1\n2A"), vec![Op::C0(b'\n'), Op::Cuu(12)]);
        assert_eq!(ops(b"\x1b[1:2A"), vec![Op::Unknown(b"\x1b[1:2A".to_vec())]);
        let (o, ground) = parse(b"\x1b[12");
        assert!(o.is_empty() && !ground);
        let (o, ground) = parse(b"\x1b]0;abc");
        assert!(o.is_empty() && !ground);
        let (o, ground) = parse(b"\xe2\x82");
        assert!(o.is_empty() && !ground);
        assert_eq!(ops(b"\x1b[99999999999A"), vec![Op::Cuu(u32::MAX)]);
    }

    #[test]
    fn strings_and_text() {
        assert_eq!(ops(b"\x1b]0;ti;tle\x1b\\"), vec![Op::Osc(0, "ti;tle".into())]);
        assert_eq!(ops(b"\x1b]4;1;#ff0000\x07"), vec![Op::Osc(4, "1;#ff0000".into())]);
        assert_eq!(ops(b"\x1b]11;?\x1b\\"), vec![Op::Osc(11, "?".into())]);
        assert_eq!(ops(b"\x1bP+q544e;436f\x1b\\"), vec![Op::Dcs("+q544e;436f".into())]);
        assert_eq!(ops(b"\x1bP$qm\x1b\\"), vec![Op::Dcs("$qm".into())]);
        assert_eq!(ops(b"\x1b_Ga=d\x1b\\x"), vec![Op::Apc("Ga=d".into()), Op::Print('x')]);
        assert_eq!(
            ops("a\u{20ac}\u{1f600}\r".as_bytes()),
            vec![Op::Print('a'), Op::Print('\u{20ac}'), Op::Print('\u{1f600}'), Op::C0(b'\r')]
        );
        assert_eq!(ops("\u{9b}".as_bytes()), vec![Op::C1(0x9b)]);
        assert_eq!(ops(b"\xffa"), vec![Op::Unknown(vec![0xff]), Op::Print('a')]);
        // string aborted by another escape sequence
        assert_eq!(ops(b"\x1b]0;ab\x1b[2J"), vec![Op::Unknown(b"\x1b]0;ab".to_vec()), Op::Ed(2)]);
        // chunking does not matter
        let bytes = "\x1b[38;2;1;2;3m\x1b]0;t\u{e9}\x1b\\\u{20ac}".as_bytes();
        let whole = ops(bytes);
        let mut p = Parser::new();
        let mut out = Vec::new();
        for b in bytes {
            p.feed(&[*b], &mut out);
        }
        assert!(p.in_ground());
        assert_eq!(out, whole);
    }

    fn sgr(state: SgrState, bytes: &[u8]) -> (SgrState, Vec<SgrIssue>) {
        let mut state = state;
        let issues = apply_sgr_ops(&mut state, &ops(bytes));
        (state, issues)
    }

    #[test]
    fn sgr_meaning() {
        let d = SgrState::default();
        let (s, i) = sgr(SgrState::all_set(), b"\x1b[m");
        assert_eq!((s, i.len()), (d, 0));
        let (s, i) = sgr(d, b"\x1b[1;3;4;5;7;9m");
        assert!(i.is_empty());
        assert!(s.bold && s.italic && s.blink && s.reverse && s.strike);
        assert_eq!(s.underline, Underline::Straight);
        let (s, _) = sgr(s, b"\x1b[22;23;24;25;27;29m");
        assert_eq!(s, d);
        // 21 is double underline, not bold off
        let (s, _) = sgr(SgrState { bold: true, ..d }, b"\x1b[21m");
        assert!(s.bold);
        assert_eq!(s.underline, Underline::Double);
        for (bytes, style) in [
            (&b"\x1b[4:0m"[..], Underline::None),
            (b"\x1b[4:1m", Underline::Straight),
            (b"\x1b[4:2m", Underline::Double),
            (b"\x1b[4:3m", Underline::Curly),
            (b"\x1b[4:4m", Underline::Dotted),
            (b"\x1b[4:5m", Underline::Dashed),
        ] {
            assert_eq!(sgr(SgrState::all_set(), bytes).0.underline, style);
        }
        let (s, i) = sgr(d, b"\x1b[38;2;10;20;30;48;5;200;58:2::1:2:3m");
        assert!(i.is_empty());
        assert_eq!(s.fg, ColorSpec::Rgb(10, 20, 30));
        assert_eq!(s.bg, ColorSpec::Indexed(200));
        assert_eq!(s.underline_color, ColorSpec::Rgb(1, 2, 3));
        let (s, i) = sgr(d, b"\x1b[38:2:4:5:6;48:5:7;1m");
        assert!(i.is_empty());
        assert_eq!((s.fg, s.bg, s.bold), (ColorSpec::Rgb(4, 5, 6), ColorSpec::Indexed(7), true));
        let (s, _) = sgr(d, b"\x1b[31;102;97;40m");
        assert_eq!((s.fg, s.bg), (ColorSpec::Indexed(15), ColorSpec::Indexed(0)));
        let (s, _) = sgr(s, b"\x1b[39;49;59m");
        assert_eq!(s, d);
        // truncated / out of range colours and unknown codes are reported
        assert_eq!(sgr(d, b"\x1b[38;2;1;2m").1, vec![SgrIssue::BadColor(38)]);
        assert_eq!(sgr(d, b"\x1b[48;2;256;0;0m").1, vec![SgrIssue::BadColor(48)]);
        assert_eq!(sgr(d, b"\x1b[77m").1, vec![SgrIssue::UnknownCode(77)]);
        assert_eq!(sgr(d, b"\x1b[1:2m").1, vec![SgrIssue::BadSubParams(1)]);
    }
}
