//! Reference models (independent of the code under test)
