//! Reference models (independent of the code under test)
pub mod palette;
pub mod re;
