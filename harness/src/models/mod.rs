//! Reference models (independent of the code under test)
pub mod palette;
pub mod re;
pub mod screen;
pub mod ctlseq;
pub mod regex;
pub mod kitty;
pub mod sixel;
