//! xterm 256-colour palette, typed out independently of the library
//! (0–15: the 16 "system" colours in their common 0/128/192/255 rendering,
//!  16–231: 6×6×6 cube with levels 0,95,135,175,215,255, 232–255: grey ramp 8+10k)

pub const SYSTEM: [[u8; 3]; 16] = [
    [0, 0, 0],
    [128, 0, 0],
    [0, 128, 0],
    [128, 128, 0],
    [0, 0, 128],
    [128, 0, 128],
    [0, 128, 128],
    [192, 192, 192],
    [128, 128, 128],
    [255, 0, 0],
    [0, 255, 0],
    [255, 255, 0],
    [0, 0, 255],
    [255, 0, 255],
    [0, 255, 255],
    [255, 255, 255],
];

pub const CUBE_LEVELS: [u8; 6] = [0, 95, 135, 175, 215, 255];

pub fn xterm256(index: usize) -> [u8; 3] {
    match index {
        0..=15 => SYSTEM[index],
        16..=231 => {
            let i = index - 16;
            [CUBE_LEVELS[i / 36], CUBE_LEVELS[(i / 6) % 6], CUBE_LEVELS[i % 6]]
        }
        _ => {
            let v = (8 + 10 * (index.min(255) - 232)) as u8;
            [v, v, v]
        }
    }
}
