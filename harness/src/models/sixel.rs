//! Independent sixel interpreter (DEC STD 070 / VT340 sixel graphics as implemented by
//! xterm, mlterm, foot …): `DCS P1;P2;P3 q` + raster attributes, colour introducers,
//! data characters, repeat introducers, graphics CR / NL, terminated by ST.
//! It paints into a growing grid that remembers for every pixel how often it was painted,
//! by which register and with which colour. It does not depend on the code under test.
use std::collections::{BTreeMap, BTreeSet};

#[derive(Debug, Clone)]
pub struct SixelErr {
    pub sig: &'static str,
    pub what: String,
}

fn serr<T>(sig: &'static str, what: String) -> Result<T, SixelErr> {
    Err(SixelErr { sig, what })
}

#[derive(Debug, Clone, Copy, Default, PartialEq, Eq)]
pub struct Pixel {
    /// number of times the pixel was painted
    pub count: u32,
    /// register of the last paint
    pub register: u32,
    /// colour (0..=100 per channel) of the last paint, None if the register was undefined
    pub color: Option<[u8; 3]>,
    /// painted at least twice with different colours/registers
    pub conflict: bool,
}

#[derive(Debug, Clone, Default)]
pub struct Picture {
    /// DCS parameters before `q`
    pub params: Vec<u32>,
    /// `"Pan;Pad;Ph;Pv`
    pub raster: Option<[u32; 4]>,
    /// registers defined in RGB space, 0..=100 per channel
    pub registers: BTreeMap<u32, [u8; 3]>,
    /// registers selected for painting at least one pixel
    pub used: BTreeSet<u32>,
    /// first register used for painting while it was undefined
    pub used_undefined: Option<u32>,
    /// a register was redefined after it had painted pixels
    pub redefined_after_use: bool,
    /// painting happened before any colour was selected
    pub painted_without_select: bool,
    /// rows[y][x]; rows have individual lengths (as far as something was painted)
    pub rows: Vec<Vec<Pixel>>,
    /// statistics
    pub repeats: u64,
    pub blank_repeats: u64,
    /// largest repeat count seen on a painting / on a blank data character
    pub max_repeat: usize,
    pub max_blank_repeat: usize,
    pub carriage_returns: u64,
    pub newlines: u64,
    pub data_chars: u64,
    pub double_paints: u64,
}

impl Picture {
    pub fn pixel(&self, x: usize, y: usize) -> Pixel {
        self.rows
            .get(y)
            .and_then(|row| row.get(x))
            .copied()
            .unwrap_or_default()
    }

    /// (width, height) of the bounding box of painted pixels
    pub fn painted_extent(&self) -> (usize, usize) {
        let mut w = 0;
        let mut h = 0;
        for (y, row) in self.rows.iter().enumerate() {
            if let Some(x) = row.iter().rposition(|p| p.count > 0) {
                w = w.max(x + 1);
                h = y + 1;
            }
        }
        (w, h)
    }

    fn paint(&mut self, x: usize, y: usize, register: u32, selected: bool) {
        if self.rows.len() <= y {
            self.rows.resize_with(y + 1, Vec::new);
        }
        let row = &mut self.rows[y];
        if row.len() <= x {
            row.resize(x + 1, Pixel::default());
        }
        let color = self.registers.get(&register).copied();
        if color.is_none() && self.used_undefined.is_none() {
            self.used_undefined = Some(register);
        }
        if !selected {
            self.painted_without_select = true;
        }
        self.used.insert(register);
        let px = &mut row[x];
        if px.count > 0 {
            self.double_paints += 1;
            if px.register != register || px.color != color {
                px.conflict = true;
            }
        }
        px.count += 1;
        px.register = register;
        px.color = color;
    }
}

const MAX_COORD: usize = 1 << 16;

fn number(bytes: &[u8], i: &mut usize) -> Option<u32> {
    let start = *i;
    let mut n: u64 = 0;
    while let Some(d) = bytes.get(*i).filter(|d| d.is_ascii_digit()) {
        n = (n * 10 + (*d - b'0') as u64).min(u32::MAX as u64);
        *i += 1;
    }
    (*i > start).then_some(n as u32)
}

/// Interpret a byte string that has to be exactly one sixel sequence
pub fn interpret(bytes: &[u8]) -> Result<Picture, SixelErr> {
    let mut pic = Picture::default();
    if bytes.len() < 2 || bytes[0] != 0x1b || bytes[1] != b'P' {
        return serr(
            "not-a-dcs",
            format!("output starts with {:?}", String::from_utf8_lossy(&bytes[..bytes.len().min(12)])),
        );
    }
    let mut i = 2;
    // parameters
    loop {
        match bytes.get(i) {
            Some(b'q') => {
                i += 1;
                break;
            }
            Some(b';') => {
                pic.params.push(0);
                i += 1;
            }
            Some(d) if d.is_ascii_digit() => {
                let n = number(bytes, &mut i).unwrap_or(0);
                pic.params.push(n);
                if bytes.get(i) == Some(&b';') {
                    i += 1;
                }
            }
            other => {
                return serr("dcs-header", format!("unexpected {other:?} in the DCS parameters at offset {i}"));
            }
        }
        if pic.params.len() > 3 {
            return serr("dcs-header", "more than three DCS parameters".into());
        }
    }

    let mut x = 0usize;
    let mut y = 0usize;
    let mut register = 0u32;
    let mut selected = false;
    let mut seen_data = false;
    let mut terminated = false;
    while i < bytes.len() {
        let b = bytes[i];
        match b {
            0x1b => {
                if bytes.get(i + 1) == Some(&b'\\') {
                    i += 2;
                    terminated = true;
                    break;
                }
                return serr("escape-inside", format!("ESC not followed by \\ at offset {i}"));
            }
            b'"' => {
                i += 1;
                if seen_data || pic.raster.is_some() {
                    return serr("raster-attributes-late", format!("raster attributes at offset {i} after data or repeated"));
                }
                let mut vals = [0u32; 4];
                for (k, slot) in vals.iter_mut().enumerate() {
                    match number(bytes, &mut i) {
                        Some(n) => *slot = n,
                        None => return serr("raster-attributes", format!("parameter {k} missing at offset {i}")),
                    }
                    if k < 3 {
                        if bytes.get(i) != Some(&b';') {
                            return serr("raster-attributes", format!("expected ; at offset {i}"));
                        }
                        i += 1;
                    }
                }
                pic.raster = Some(vals);
            }
            b'#' => {
                i += 1;
                let Some(n) = number(bytes, &mut i) else {
                    return serr("colour-introducer", format!("# without register number at offset {i}"));
                };
                if bytes.get(i) == Some(&b';') {
                    // definition: Pu;Px;Py;Pz
                    let mut vals = [0u32; 4];
                    for (k, slot) in vals.iter_mut().enumerate() {
                        if bytes.get(i) != Some(&b';') {
                            return serr("colour-definition", format!("expected ; before parameter {k} at offset {i}"));
                        }
                        i += 1;
                        match number(bytes, &mut i) {
                            Some(v) => *slot = v,
                            None => return serr("colour-definition", format!("parameter {k} missing at offset {i}")),
                        }
                    }
                    match vals[0] {
                        2 => {
                            if vals[1] > 100 || vals[2] > 100 || vals[3] > 100 {
                                return serr(
                                    "colour-definition-range",
                                    format!("#{n};2;{};{};{} exceeds 100", vals[1], vals[2], vals[3]),
                                );
                            }
                            if pic.used.contains(&n) {
                                pic.redefined_after_use = true;
                            }
                            pic.registers.insert(n, [vals[1] as u8, vals[2] as u8, vals[3] as u8]);
                        }
                        1 => return serr("colour-definition-hls", "HLS definitions are outside the reference interpreter".into()),
                        other => return serr("colour-definition", format!("colour space {other}")),
                    }
                }
                register = n;
                selected = true;
            }
            b'!' => {
                i += 1;
                let Some(n) = number(bytes, &mut i) else {
                    return serr("repeat", format!("! without count at offset {i}"));
                };
                let Some(ch) = bytes.get(i).copied().filter(|c| (b'?'..=b'~').contains(c)) else {
                    return serr("repeat", format!("! {n} not followed by a data character at offset {i}"));
                };
                i += 1;
                let n = n.max(1) as usize;
                if x + n > MAX_COORD {
                    return serr("runaway", format!("repeat moves to column {}", x + n));
                }
                pic.repeats += 1;
                seen_data = true;
                let bits = ch - b'?';
                if bits == 0 {
                    pic.blank_repeats += 1;
                    pic.max_blank_repeat = pic.max_blank_repeat.max(n);
                } else {
                    pic.max_repeat = pic.max_repeat.max(n);
                    for dx in 0..n {
                        for bit in 0..6 {
                            if bits & (1 << bit) != 0 {
                                pic.paint(x + dx, y + bit, register, selected);
                            }
                        }
                    }
                }
                x += n;
            }
            b'$' => {
                i += 1;
                x = 0;
                pic.carriage_returns += 1;
            }
            b'-' => {
                i += 1;
                x = 0;
                y += 6;
                pic.newlines += 1;
                if y > MAX_COORD {
                    return serr("runaway", format!("row {y}"));
                }
            }
            b'?'..=b'~' => {
                i += 1;
                seen_data = true;
                pic.data_chars += 1;
                let bits = b - b'?';
                if x + 1 > MAX_COORD {
                    return serr("runaway", format!("column {x}"));
                }
                for bit in 0..6 {
                    if bits & (1 << bit) != 0 {
                        pic.paint(x, y + bit, register, selected);
                    }
                }
                x += 1;
            }
            b'\r' | b'\n' => i += 1,
            other => {
                return serr("unexpected-byte", format!("byte {other:#04x} at offset {i} inside the sixel body"));
            }
        }
    }
    if !terminated {
        return serr("unterminated", "no ST at the end of the sixel sequence".into());
    }
    if i != bytes.len() {
        return serr(
            "trailing-bytes",
            format!(
                "{} bytes after the ST: {:?}",
                bytes.len() - i,
                String::from_utf8_lossy(&bytes[i..bytes.len().min(i + 16)])
            ),
        );
    }
    Ok(pic)
}
