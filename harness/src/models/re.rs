//! Tiny regular-expression model with Brzozowski derivatives (no automata), used as the
//! independent oracle for tokenisation (C03) — byte alphabet.
use serde::{Deserialize, Serialize};

#[derive(Clone, Debug, PartialEq, Eq, Hash, Serialize, Deserialize)]
pub enum Re {
    /// matches nothing
    Void,
    /// matches the empty string
    Eps,
    /// one byte out of the set
    Class(Vec<u8>),
    Seq(Vec<Re>),
    Alt(Vec<Re>),
    Opt(Box<Re>),
    Plus(Box<Re>),
    Star(Box<Re>),
}

impl Re {
    pub fn lit(bytes: &[u8]) -> Re {
        Re::Seq(bytes.iter().map(|b| Re::Class(vec![*b])).collect())
    }

    pub fn nullable(&self) -> bool {
        match self {
            Re::Void => false,
            Re::Eps => true,
            Re::Class(_) => false,
            Re::Seq(items) => items.iter().all(|r| r.nullable()),
            Re::Alt(items) => items.iter().any(|r| r.nullable()),
            Re::Opt(_) | Re::Star(_) => true,
            Re::Plus(r) => r.nullable(),
        }
    }

    /// empty language?
    pub fn is_void(&self) -> bool {
        match self {
            Re::Void => true,
            Re::Eps => false,
            Re::Class(set) => set.is_empty(),
            Re::Seq(items) => items.iter().any(|r| r.is_void()),
            Re::Alt(items) => items.iter().all(|r| r.is_void()),
            Re::Opt(_) | Re::Star(_) => false,
            Re::Plus(r) => r.is_void(),
        }
    }

    fn seq(mut items: Vec<Re>) -> Re {
        if items.iter().any(|r| matches!(r, Re::Void)) {
            return Re::Void;
        }
        items.retain(|r| !matches!(r, Re::Eps));
        match items.len() {
            0 => Re::Eps,
            1 => items.pop().unwrap(),
            _ => Re::Seq(items),
        }
    }

    fn alt(mut items: Vec<Re>) -> Re {
        items.retain(|r| !matches!(r, Re::Void));
        items.dedup();
        match items.len() {
            0 => Re::Void,
            1 => items.pop().unwrap(),
            _ => Re::Alt(items),
        }
    }

    pub fn deriv(&self, b: u8) -> Re {
        match self {
            Re::Void | Re::Eps => Re::Void,
            Re::Class(set) => {
                if set.contains(&b) {
                    Re::Eps
                } else {
                    Re::Void
                }
            }
            Re::Seq(items) => {
                // d(r1 r2 ..) = d(r1) r2.. | [nullable r1] d(r2 ..)
                let mut alts = Vec::new();
                for i in 0..items.len() {
                    let mut parts = vec![items[i].deriv(b)];
                    parts.extend_from_slice(&items[i + 1..]);
                    alts.push(Re::seq(parts));
                    if !items[i].nullable() {
                        break;
                    }
                }
                Re::alt(alts)
            }
            Re::Alt(items) => Re::alt(items.iter().map(|r| r.deriv(b)).collect()),
            Re::Opt(r) => r.deriv(b),
            Re::Star(r) => Re::seq(vec![r.deriv(b), Re::Star(r.clone())]),
            Re::Plus(r) => Re::seq(vec![r.deriv(b), Re::Star(r.clone())]),
        }
    }

    pub fn deriv_str(&self, s: &[u8]) -> Re {
        let mut cur = self.clone();
        for b in s {
            cur = cur.deriv(*b);
            if matches!(cur, Re::Void) {
                break;
            }
        }
        cur
    }

    pub fn matches(&self, s: &[u8]) -> bool {
        self.deriv_str(s).nullable()
    }

    /// bytes mentioned anywhere in the expression
    pub fn alphabet(&self, out: &mut Vec<u8>) {
        match self {
            Re::Class(set) => {
                for b in set {
                    if !out.contains(b) {
                        out.push(*b);
                    }
                }
            }
            Re::Seq(items) | Re::Alt(items) => items.iter().for_each(|r| r.alphabet(out)),
            Re::Opt(r) | Re::Plus(r) | Re::Star(r) => r.alphabet(out),
            _ => {}
        }
    }
}
