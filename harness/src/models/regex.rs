//! Regular expressions over bytes: AST, Brzozowski-derivative matcher, memoised
//! derivative walker and member-string sampler.
//!
//! Independent of `surf_n_term` (this is the oracle for C15 and the maximal-munch
//! reference of C03). No automaton is constructed from the expression: matching is done
//! by repeatedly taking the derivative of the expression with respect to the next byte
//! (Brzozowski 1964) and asking whether the residual expression accepts the empty string.
//!
//! Semantics
//!   Lit(bytes)   exactly that byte string (`Lit(vec![])` is the empty string)
//!   Class(set)   exactly one byte that is a member of `set` (`Class(vec![])` matches nothing)
//!   Seq(rs)      concatenation, `Seq(vec![])` is the empty string
//!   Alt(rs)      union, `Alt(vec![])` matches nothing
//!   Opt(r) r?    Plus(r) r+    Star(r) r*
//!   Empty        the empty string only
//!   Nothing      the empty language
use crate::rng::Rng;
use serde::{Deserialize, Serialize};
use std::collections::{BTreeSet, HashMap};

#[derive(Clone, Debug, PartialEq, Eq, PartialOrd, Ord, Hash, Serialize, Deserialize)]
pub enum Re {
    Lit(Vec<u8>),
    /// set of bytes
    Class(Vec<u8>),
    Seq(Vec<Re>),
    Alt(Vec<Re>),
    Opt(Box<Re>),
    Plus(Box<Re>),
    Star(Box<Re>),
    Empty,
    Nothing,
}

// ---------------------------------------------------------------------------
// constructors

impl Re {
    pub fn lit(bytes: impl AsRef<[u8]>) -> Re {
        Re::Lit(bytes.as_ref().to_vec())
    }

    /// class of all bytes satisfying the predicate
    pub fn class(pred: impl Fn(u8) -> bool) -> Re {
        Re::Class((0..=255u8).filter(|b| pred(*b)).collect())
    }

    pub fn bytes(set: impl AsRef<[u8]>) -> Re {
        let set: BTreeSet<u8> = set.as_ref().iter().copied().collect();
        Re::Class(set.into_iter().collect())
    }

    pub fn seq(parts: impl IntoIterator<Item = Re>) -> Re {
        Re::Seq(parts.into_iter().collect())
    }

    pub fn alt(parts: impl IntoIterator<Item = Re>) -> Re {
        Re::Alt(parts.into_iter().collect())
    }

    pub fn opt(self) -> Re {
        Re::Opt(Box::new(self))
    }

    pub fn plus(self) -> Re {
        Re::Plus(Box::new(self))
    }

    pub fn star(self) -> Re {
        Re::Star(Box::new(self))
    }

    /// number of AST nodes
    pub fn size(&self) -> usize {
        match self {
            Re::Seq(rs) | Re::Alt(rs) => 1 + rs.iter().map(Re::size).sum::<usize>(),
            Re::Opt(r) | Re::Plus(r) | Re::Star(r) => 1 + r.size(),
            _ => 1,
        }
    }

    pub fn depth(&self) -> usize {
        match self {
            Re::Seq(rs) | Re::Alt(rs) => 1 + rs.iter().map(Re::depth).max().unwrap_or(0),
            Re::Opt(r) | Re::Plus(r) | Re::Star(r) => 1 + r.depth(),
            _ => 1,
        }
    }

    /// every byte mentioned by a literal or a class, ascending
    pub fn alphabet(&self) -> Vec<u8> {
        fn walk(re: &Re, out: &mut BTreeSet<u8>) {
            match re {
                Re::Lit(bs) | Re::Class(bs) => out.extend(bs.iter().copied()),
                Re::Seq(rs) | Re::Alt(rs) => rs.iter().for_each(|r| walk(r, out)),
                Re::Opt(r) | Re::Plus(r) | Re::Star(r) => walk(r, out),
                Re::Empty | Re::Nothing => {}
            }
        }
        let mut out = BTreeSet::new();
        walk(self, &mut out);
        out.into_iter().collect()
    }

    /// compact printable form, for reports only
    pub fn show(&self) -> String {
        fn byte(b: u8, out: &mut String) {
            if b.is_ascii_alphanumeric() {
                out.push(b as char)
            } else {
                out.push_str(&format!("\\x{:02x}", b))
            }
        }
        fn walk(re: &Re, out: &mut String) {
            match re {
                Re::Lit(bs) => {
                    out.push('"');
                    bs.iter().for_each(|b| byte(*b, out));
                    out.push('"');
                }
                Re::Class(bs) => {
                    out.push('[');
                    if bs.len() > 24 {
                        out.push_str(&format!("{} bytes", bs.len()));
                    } else {
                        bs.iter().for_each(|b| byte(*b, out));
                    }
                    out.push(']');
                }
                Re::Seq(rs) => {
                    out.push('(');
                    for (i, r) in rs.iter().enumerate() {
                        if i > 0 {
                            out.push(' ');
                        }
                        walk(r, out);
                    }
                    out.push(')');
                }
                Re::Alt(rs) => {
                    out.push('(');
                    if rs.is_empty() {
                        out.push_str("|");
                    }
                    for (i, r) in rs.iter().enumerate() {
                        if i > 0 {
                            out.push('|');
                        }
                        walk(r, out);
                    }
                    out.push(')');
                }
                Re::Opt(r) => {
                    walk(r, out);
                    out.push('?');
                }
                Re::Plus(r) => {
                    walk(r, out);
                    out.push('+');
                }
                Re::Star(r) => {
                    walk(r, out);
                    out.push('*');
                }
                Re::Empty => out.push_str("<empty>"),
                Re::Nothing => out.push_str("<nothing>"),
            }
        }
        let mut out = String::new();
        walk(self, &mut out);
        out
    }
}

// ---------------------------------------------------------------------------
// derivatives

/// concatenation in normal form (flattened, no `Empty`, `Nothing` absorbs)
fn mk_seq(parts: impl IntoIterator<Item = Re>) -> Re {
    let mut out: Vec<Re> = Vec::new();
    for part in parts {
        match part {
            Re::Seq(inner) => {
                for r in inner {
                    // inner parts of a normal-form Seq are already normal
                    if r.is_void() {
                        return Re::Nothing;
                    }
                    out.push(r)
                }
            }
            Re::Empty => {}
            Re::Lit(ref bs) if bs.is_empty() => {}
            r if r.is_void() => return Re::Nothing,
            r => out.push(r),
        }
    }
    match out.len() {
        0 => Re::Empty,
        1 => out.pop().unwrap(),
        _ => Re::Seq(out),
    }
}

/// union in normal form (flattened, sorted, duplicate free, no void member)
fn mk_alt(parts: impl IntoIterator<Item = Re>) -> Re {
    let mut out: BTreeSet<Re> = BTreeSet::new();
    for part in parts {
        match part {
            Re::Alt(inner) => {
                for r in inner {
                    if !r.is_void() {
                        out.insert(r);
                    }
                }
            }
            r if r.is_void() => {}
            r => {
                out.insert(r);
            }
        }
    }
    match out.len() {
        0 => Re::Nothing,
        1 => out.into_iter().next().unwrap(),
        _ => Re::Alt(out.into_iter().collect()),
    }
}

impl Re {
    /// does the language contain the empty string
    pub fn nullable(&self) -> bool {
        match self {
            Re::Lit(bs) => bs.is_empty(),
            Re::Class(_) => false,
            Re::Seq(rs) => rs.iter().all(Re::nullable),
            Re::Alt(rs) => rs.iter().any(Re::nullable),
            Re::Opt(_) | Re::Star(_) | Re::Empty => true,
            Re::Plus(r) => r.nullable(),
            Re::Nothing => false,
        }
    }

    /// is the language empty (exact: decided structurally)
    pub fn is_void(&self) -> bool {
        match self {
            Re::Lit(_) | Re::Empty => false,
            Re::Class(bs) => bs.is_empty(),
            Re::Seq(rs) => rs.iter().any(Re::is_void),
            Re::Alt(rs) => rs.iter().all(Re::is_void),
            Re::Opt(_) | Re::Star(_) => false,
            Re::Plus(r) => r.is_void(),
            Re::Nothing => true,
        }
    }

    /// Brzozowski derivative: the expression matching `{ w | byte·w ∈ L(self) }`
    pub fn deriv(&self, byte: u8) -> Re {
        match self {
            Re::Lit(bs) => match bs.split_first() {
                Some((first, rest)) if *first == byte => {
                    if rest.is_empty() {
                        Re::Empty
                    } else {
                        Re::Lit(rest.to_vec())
                    }
                }
                _ => Re::Nothing,
            },
            Re::Class(bs) => {
                if bs.contains(&byte) {
                    Re::Empty
                } else {
                    Re::Nothing
                }
            }
            Re::Seq(rs) => {
                // d(r1 r2 … rn) = d(r1) r2 … rn  |  [r1 nullable] d(r2 … rn)
                let mut alts = Vec::new();
                for (index, r) in rs.iter().enumerate() {
                    let head = r.deriv(byte);
                    if !head.is_void() {
                        alts.push(mk_seq(
                            std::iter::once(head).chain(rs[index + 1..].iter().cloned()),
                        ));
                    }
                    if !r.nullable() {
                        break;
                    }
                }
                mk_alt(alts)
            }
            Re::Alt(rs) => mk_alt(rs.iter().map(|r| r.deriv(byte))),
            Re::Opt(r) => r.deriv(byte),
            Re::Plus(r) | Re::Star(r) => mk_seq([r.deriv(byte), Re::Star(r.clone())]),
            Re::Empty | Re::Nothing => Re::Nothing,
        }
    }

    /// does the expression match the whole input
    pub fn matches(&self, input: &[u8]) -> bool {
        let mut cur = self.clone();
        for byte in input {
            cur = cur.deriv(*byte);
            if cur.is_void() {
                return false;
            }
        }
        cur.nullable()
    }

    /// Second, deliberately naive matcher (set of reachable end positions), used to
    /// cross-check the derivative matcher itself.
    pub fn matches_naive(&self, input: &[u8]) -> bool {
        fn ends(re: &Re, input: &[u8], from: &BTreeSet<usize>) -> BTreeSet<usize> {
            match re {
                Re::Lit(bs) => from
                    .iter()
                    .filter(|p| input[**p..].starts_with(bs))
                    .map(|p| p + bs.len())
                    .collect(),
                Re::Class(bs) => from
                    .iter()
                    .filter(|p| **p < input.len() && bs.contains(&input[**p]))
                    .map(|p| p + 1)
                    .collect(),
                Re::Seq(rs) => {
                    let mut cur = from.clone();
                    for r in rs {
                        cur = ends(r, input, &cur);
                        if cur.is_empty() {
                            break;
                        }
                    }
                    cur
                }
                Re::Alt(rs) => {
                    let mut out = BTreeSet::new();
                    for r in rs {
                        out.extend(ends(r, input, from));
                    }
                    out
                }
                Re::Opt(r) => {
                    let mut out = ends(r, input, from);
                    out.extend(from.iter().copied());
                    out
                }
                Re::Plus(r) => {
                    // least fixed point of one-or-more applications
                    let mut out = ends(r, input, from);
                    loop {
                        let more = ends(r, input, &out);
                        let before = out.len();
                        out.extend(more);
                        if out.len() == before {
                            break;
                        }
                    }
                    out
                }
                Re::Star(r) => {
                    let mut out = from.clone();
                    loop {
                        let more = ends(r, input, &out);
                        let before = out.len();
                        out.extend(more);
                        if out.len() == before {
                            break;
                        }
                    }
                    out
                }
                Re::Empty => from.clone(),
                Re::Nothing => BTreeSet::new(),
            }
        }
        let from: BTreeSet<usize> = std::iter::once(0).collect();
        ends(self, input, &from).contains(&input.len())
    }

    /// Length of the longest prefix of `input` that the expression matches (maximal munch)
    pub fn longest_match(&self, input: &[u8]) -> Option<usize> {
        let mut cur = self.clone();
        let mut best = if cur.nullable() { Some(0) } else { None };
        for (index, byte) in input.iter().enumerate() {
            cur = cur.deriv(*byte);
            if cur.is_void() {
                break;
            }
            if cur.nullable() {
                best = Some(index + 1);
            }
        }
        best
    }

    /// A random member of the language, `None` iff the language is empty.
    /// `max_rep` bounds the number of iterations taken for `+` and `*`.
    pub fn sample(&self, rng: &mut Rng) -> Option<Vec<u8>> {
        self.sample_with(rng, 3)
    }

    pub fn sample_with(&self, rng: &mut Rng, max_rep: usize) -> Option<Vec<u8>> {
        if self.is_void() {
            return None;
        }
        let mut out = Vec::new();
        self.sample_into(rng, max_rep, &mut out);
        Some(out)
    }

    // precondition: !self.is_void()
    fn sample_into(&self, rng: &mut Rng, max_rep: usize, out: &mut Vec<u8>) {
        match self {
            Re::Lit(bs) => out.extend_from_slice(bs),
            Re::Class(bs) => {
                // bias to the borders of the set
                let index = match rng.below(8) {
                    0 => 0,
                    1 => bs.len() - 1,
                    _ => rng.below(bs.len()),
                };
                out.push(bs[index])
            }
            Re::Seq(rs) => rs.iter().for_each(|r| r.sample_into(rng, max_rep, out)),
            Re::Alt(rs) => {
                let live: Vec<&Re> = rs.iter().filter(|r| !r.is_void()).collect();
                live[rng.below(live.len())].sample_into(rng, max_rep, out)
            }
            Re::Opt(r) => {
                if !r.is_void() && rng.bool() {
                    r.sample_into(rng, max_rep, out)
                }
            }
            Re::Plus(r) => {
                for _ in 0..rng.range(1, max_rep.max(1)) {
                    r.sample_into(rng, max_rep, out)
                }
            }
            Re::Star(r) => {
                if !r.is_void() {
                    for _ in 0..rng.range(0, max_rep) {
                        r.sample_into(rng, max_rep, out)
                    }
                }
            }
            Re::Empty | Re::Nothing => {}
        }
    }
}

// ---------------------------------------------------------------------------
// memoised derivative walker

/// Identifier of a residual expression inside a [`Derivs`] walker
pub type ResidualId = u32;

const UNKNOWN: u32 = u32::MAX;

/// Memoises the residual expressions reached from one root expression, so that walking
/// many strings costs one table lookup per byte. Residuals are kept in the normal form
/// produced by `deriv` (associativity/commutativity/idempotence of `|`), which makes
/// their number finite.
pub struct Derivs {
    residuals: Vec<Re>,
    ids: HashMap<Re, ResidualId>,
    next: Vec<Box<[u32; 256]>>,
    nullable: Vec<bool>,
    void: Vec<bool>,
}

impl Derivs {
    pub fn new(root: &Re) -> Self {
        let mut this = Self {
            residuals: Vec::new(),
            ids: HashMap::new(),
            next: Vec::new(),
            nullable: Vec::new(),
            void: Vec::new(),
        };
        this.intern(root.clone());
        this
    }

    fn intern(&mut self, re: Re) -> ResidualId {
        if let Some(id) = self.ids.get(&re) {
            return *id;
        }
        let id = self.residuals.len() as ResidualId;
        self.nullable.push(re.nullable());
        self.void.push(re.is_void());
        self.next.push(Box::new([UNKNOWN; 256]));
        self.ids.insert(re.clone(), id);
        self.residuals.push(re);
        id
    }

    /// the root expression
    pub fn start(&self) -> ResidualId {
        0
    }

    /// residual after one more byte
    pub fn step(&mut self, from: ResidualId, byte: u8) -> ResidualId {
        let known = self.next[from as usize][byte as usize];
        if known != UNKNOWN {
            return known;
        }
        let re = self.residuals[from as usize].deriv(byte);
        let id = self.intern(re);
        self.next[from as usize][byte as usize] = id;
        id
    }

    /// the string consumed so far is a member
    pub fn nullable(&self, id: ResidualId) -> bool {
        self.nullable[id as usize]
    }

    /// no extension (including the empty one) of the string consumed so far is a member
    pub fn is_void(&self, id: ResidualId) -> bool {
        self.void[id as usize]
    }

    pub fn residual(&self, id: ResidualId) -> &Re {
        &self.residuals[id as usize]
    }

    /// number of distinct residuals seen so far
    pub fn len(&self) -> usize {
        self.residuals.len()
    }

    pub fn is_empty(&self) -> bool {
        self.residuals.is_empty()
    }

    pub fn walk(&mut self, input: &[u8]) -> ResidualId {
        let mut cur = self.start();
        for byte in input {
            cur = self.step(cur, *byte);
        }
        cur
    }

    pub fn matches(&mut self, input: &[u8]) -> bool {
        let id = self.walk(input);
        self.nullable(id)
    }
}
