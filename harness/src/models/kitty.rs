//! Independent kitty graphics protocol reader: APC splitter, control-data parser and a
//! terminal-side store (transmitted images + placements) with the protocol's semantics
//! for `a=t`, `a=T`, `a=p` and `a=d` (`d=i/I/a/A`).
//!
//! Written from the protocol description (https://sw.kovidgoyal.net/kitty/graphics-protocol/),
//! it does not depend on the code under test.
use std::collections::{BTreeMap, BTreeSet};

/// protocol violation found by the reader: (signature fragment, description)
#[derive(Debug, Clone)]
pub struct ProtoErr {
    pub sig: &'static str,
    pub what: String,
}

fn perr<T>(sig: &'static str, what: String) -> Result<T, ProtoErr> {
    Err(ProtoErr { sig, what })
}

#[derive(Debug, Clone, Copy, PartialEq, Eq)]
pub enum Val {
    Num(i64),
    Letter(u8),
}

/// One `ESC _ G <control> [; <payload>] ESC \` command
#[derive(Debug, Clone)]
pub struct Cmd {
    pub keys: Vec<(u8, Val)>,
    /// `None` when the command has no `;`
    pub payload: Option<Vec<u8>>,
}

impl Cmd {
    pub fn get(&self, key: u8) -> Option<Val> {
        self.keys.iter().find(|(k, _)| *k == key).map(|(_, v)| *v)
    }
    pub fn num(&self, key: u8) -> Option<i64> {
        match self.get(key) {
            Some(Val::Num(n)) => Some(n),
            _ => None,
        }
    }
    pub fn letter(&self, key: u8) -> Option<u8> {
        match self.get(key) {
            Some(Val::Letter(c)) => Some(c),
            _ => None,
        }
    }
    pub fn render(&self) -> String {
        let keys: Vec<String> = self
            .keys
            .iter()
            .map(|(k, v)| match v {
                Val::Num(n) => format!("{}={}", *k as char, n),
                Val::Letter(c) => format!("{}={}", *k as char, *c as char),
            })
            .collect();
        match &self.payload {
            None => keys.join(","),
            Some(p) => format!("{};<{} bytes>", keys.join(","), p.len()),
        }
    }
}

#[derive(Debug, Clone)]
pub enum Item {
    Graphics(Cmd),
    /// bytes outside of any graphics command
    Other(Vec<u8>),
}

/// keys whose value is a single letter
const LETTER_KEYS: &[u8] = b"atod";
/// keys with a (possibly negative) 32-bit signed value
const SIGNED_KEYS: &[u8] = b"zHV";
/// keys with an unsigned 32-bit value
const UNSIGNED_KEYS: &[u8] = b"fqsvSOimxywhXYcrCUPQpIN";

fn parse_control(text: &[u8]) -> Result<Vec<(u8, Val)>, ProtoErr> {
    let mut keys: Vec<(u8, Val)> = Vec::new();
    if text.is_empty() {
        return perr("control:empty", "graphics command without control data".into());
    }
    for pair in text.split(|b| *b == b',') {
        if pair.len() < 3 || pair[1] != b'=' {
            return perr(
                "control:not-key=value",
                format!("control item {:?}", String::from_utf8_lossy(pair)),
            );
        }
        let key = pair[0];
        let value = &pair[2..];
        if keys.iter().any(|(k, _)| *k == key) {
            return perr("control:duplicate-key", format!("key {:?} repeated", key as char));
        }
        let val = if LETTER_KEYS.contains(&key) {
            if value.len() != 1 || !value[0].is_ascii_alphabetic() {
                return perr(
                    "control:bad-letter-value",
                    format!("{}={:?}", key as char, String::from_utf8_lossy(value)),
                );
            }
            Val::Letter(value[0])
        } else if SIGNED_KEYS.contains(&key) || UNSIGNED_KEYS.contains(&key) {
            let signed = SIGNED_KEYS.contains(&key);
            let (neg, digits) = match value.first() {
                Some(b'-') if signed => (true, &value[1..]),
                _ => (false, value),
            };
            if digits.is_empty() || digits.len() > 10 || !digits.iter().all(|d| d.is_ascii_digit()) {
                return perr(
                    "control:bad-number",
                    format!("{}={:?}", key as char, String::from_utf8_lossy(value)),
                );
            }
            let mut n: i64 = 0;
            for d in digits {
                n = n * 10 + (*d - b'0') as i64;
            }
            let limit = if signed { i32::MAX as i64 } else { u32::MAX as i64 };
            if n > limit {
                return perr(
                    "control:number-exceeds-32-bits",
                    format!("{}={}", key as char, String::from_utf8_lossy(value)),
                );
            }
            Val::Num(if neg { -n } else { n })
        } else {
            return perr("control:unknown-key", format!("key {:?}", key as char));
        };
        keys.push((key, val));
    }
    Ok(keys)
}

/// Split an output stream into graphics commands and everything else
pub fn split(bytes: &[u8]) -> Result<Vec<Item>, ProtoErr> {
    let mut items = Vec::new();
    let mut other: Vec<u8> = Vec::new();
    let mut i = 0;
    while i < bytes.len() {
        if bytes[i] == 0x1b && bytes.get(i + 1) == Some(&b'_') {
            if bytes.get(i + 2) != Some(&b'G') {
                return perr("apc:not-graphics", format!("APC at offset {i} does not start with G"));
            }
            let body_start = i + 3;
            let mut j = body_start;
            loop {
                match bytes.get(j) {
                    None => {
                        return perr("apc:unterminated", format!("APC at offset {i} has no ST"));
                    }
                    Some(0x1b) => {
                        if bytes.get(j + 1) == Some(&b'\\') {
                            break;
                        }
                        return perr("apc:escape-inside", format!("ESC inside APC at offset {j}"));
                    }
                    Some(b) if *b < 0x20 || *b > 0x7e => {
                        return perr(
                            "apc:non-printable-inside",
                            format!("byte {b:#04x} inside APC at offset {j}"),
                        );
                    }
                    Some(_) => j += 1,
                }
            }
            let body = &bytes[body_start..j];
            let (control, payload) = match body.iter().position(|b| *b == b';') {
                Some(p) => (&body[..p], Some(body[p + 1..].to_vec())),
                None => (body, None),
            };
            let keys = parse_control(control)?;
            if !other.is_empty() {
                items.push(Item::Other(std::mem::take(&mut other)));
            }
            items.push(Item::Graphics(Cmd { keys, payload }));
            i = j + 2;
        } else {
            other.push(bytes[i]);
            i += 1;
        }
    }
    if !other.is_empty() {
        items.push(Item::Other(other));
    }
    Ok(items)
}

#[derive(Debug, Clone)]
pub struct StoredImage {
    pub width: u32,
    pub height: u32,
    /// RGBA, row-major
    pub data: Vec<u8>,
}

/// What a command did to the store
#[derive(Debug, Clone)]
pub enum Effect {
    /// a chunk was accumulated, the transmission is still open
    Chunk,
    Transmitted {
        id: u32,
        width: u32,
        height: u32,
        /// decoded pixel bytes (RGBA)
        data: Vec<u8>,
        /// sizes of the base64 chunks in order
        chunks: Vec<usize>,
        /// an image with this id existed: it was replaced and its placements dropped
        replaced: bool,
        quiet: u32,
    },
    Put {
        id: u32,
        placement: u32,
        /// a placement with this (id, placement) existed and was modified instead of created
        existed: bool,
        quiet: u32,
    },
    Deleted {
        id: Option<u32>,
        /// `None`/0: all placements of the image
        placement: Option<u32>,
        removed: Vec<(u32, u32)>,
        removed_anonymous: usize,
        freed_data: bool,
    },
}

struct Pending {
    action: u8,
    id: u32,
    placement: u32,
    width: u32,
    height: u32,
    format: u32,
    quiet: u32,
    text: Vec<u8>,
    chunks: Vec<usize>,
}

/// Terminal side of the protocol
#[derive(Default)]
pub struct Store {
    pub images: BTreeMap<u32, StoredImage>,
    /// identified placements (image id, placement id != 0)
    pub placements: BTreeSet<(u32, u32)>,
    /// number of anonymous placements (p = 0 / absent) per image
    pub anonymous: BTreeMap<u32, usize>,
    pending: Option<Pending>,
}

pub type Base64Decode = fn(&[u8]) -> Option<Vec<u8>>;

impl Store {
    pub fn new() -> Self {
        Self::default()
    }

    pub fn transmission_open(&self) -> bool {
        self.pending.is_some()
    }

    /// The sender went away in the middle of a chunked transmission: the terminal forgets the part
    /// it has received (nothing was stored yet).
    pub fn abort_transmission(&mut self) {
        self.pending = None;
    }

    /// all placements, anonymous ones reported once as (id, 0)
    pub fn placement_set(&self) -> BTreeSet<(u32, u32)> {
        let mut out = self.placements.clone();
        for (id, count) in self.anonymous.iter() {
            if *count > 0 {
                out.insert((*id, 0));
            }
        }
        out
    }

    /// The terminal reported an error for this image (e.g. ENOENT): it does not hold the image
    /// data any more, and with it all of its placements are gone.
    pub fn evict(&mut self, id: u32) {
        self.images.remove(&id);
        let _ = self.drop_placements(id);
    }

    fn drop_placements(&mut self, id: u32) -> (Vec<(u32, u32)>, usize) {
        let removed: Vec<(u32, u32)> = self
            .placements
            .iter()
            .filter(|(i, _)| *i == id)
            .copied()
            .collect();
        for key in removed.iter() {
            self.placements.remove(key);
        }
        let anon = self.anonymous.remove(&id).unwrap_or(0);
        (removed, anon)
    }

    fn put(&mut self, id: u32, placement: u32, quiet: u32) -> Result<Effect, ProtoErr> {
        if !self.images.contains_key(&id) {
            return perr(
                "put:untransmitted-image",
                format!("a=p names image id {id} which was never transmitted (terminal answers ENOENT)"),
            );
        }
        let existed = if placement == 0 {
            *self.anonymous.entry(id).or_insert(0) += 1;
            false
        } else {
            !self.placements.insert((id, placement))
        };
        Ok(Effect::Put {
            id,
            placement,
            existed,
            quiet,
        })
    }

    fn finish(&mut self, pending: Pending, decode: Base64Decode) -> Result<Vec<Effect>, ProtoErr> {
        let Some(raw) = decode(&pending.text) else {
            return perr(
                "transmit:invalid-base64",
                format!("payload of {} bytes is not RFC 4648 base64", pending.text.len()),
            );
        };
        let bpp = if pending.format == 24 { 3 } else { 4 };
        let want = pending.width as usize * pending.height as usize * bpp;
        if raw.len() != want {
            return perr(
                "transmit:data-size-mismatch",
                format!(
                    "decoded {} bytes but s={} v={} f={} needs {}",
                    raw.len(),
                    pending.width,
                    pending.height,
                    pending.format,
                    want
                ),
            );
        }
        let data: Vec<u8> = if bpp == 4 {
            raw
        } else {
            raw.chunks(3)
                .flat_map(|c| [c[0], c[1], c[2], 255])
                .collect()
        };
        let replaced = self.images.contains_key(&pending.id);
        if replaced {
            self.drop_placements(pending.id);
        }
        self.images.insert(
            pending.id,
            StoredImage {
                width: pending.width,
                height: pending.height,
                data: data.clone(),
            },
        );
        let mut effects = vec![Effect::Transmitted {
            id: pending.id,
            width: pending.width,
            height: pending.height,
            data,
            chunks: pending.chunks,
            replaced,
            quiet: pending.quiet,
        }];
        if pending.action == b'T' {
            effects.push(self.put(pending.id, pending.placement, pending.quiet)?);
        }
        Ok(effects)
    }

    /// Apply one command
    pub fn apply(&mut self, cmd: &Cmd, decode: Base64Decode) -> Result<Vec<Effect>, ProtoErr> {
        let more = match cmd.num(b'm') {
            None | Some(0) => false,
            Some(1) => true,
            Some(other) => return perr("control:bad-m", format!("m={other}")),
        };
        let quiet = match cmd.num(b'q') {
            None => 0,
            Some(q @ 0..=2) => q as u32,
            Some(other) => return perr("control:bad-q", format!("q={other}")),
        };
        // continuation of a chunked transmission
        if let Some(mut pending) = self.pending.take() {
            if let Some((key, _)) = cmd.keys.iter().find(|(k, _)| *k != b'm' && *k != b'q') {
                return perr(
                    "chunk:continuation-carries-other-keys",
                    format!(
                        "chunk after m=1 carries key {:?} ({})",
                        *key as char,
                        cmd.render()
                    ),
                );
            }
            let Some(payload) = cmd.payload.as_ref() else {
                return perr("chunk:continuation-without-payload", cmd.render());
            };
            pending.chunks.push(payload.len());
            pending.text.extend_from_slice(payload);
            if more {
                if payload.len() % 4 != 0 {
                    return perr(
                        "chunk:not-multiple-of-4",
                        format!("non-final chunk of {} bytes", payload.len()),
                    );
                }
                self.pending = Some(pending);
                return Ok(vec![Effect::Chunk]);
            }
            return self.finish(pending, decode);
        }

        let action = cmd.letter(b'a').unwrap_or(b't');
        match action {
            b't' | b'T' => {
                if let Some(t) = cmd.letter(b't') {
                    if t != b'd' {
                        return perr(
                            "transmit:medium-not-direct",
                            format!("t={} is outside the reference reader", t as char),
                        );
                    }
                }
                if let Some(o) = cmd.letter(b'o') {
                    return perr(
                        "transmit:compressed",
                        format!("o={} is outside the reference reader", o as char),
                    );
                }
                let format = cmd.num(b'f').unwrap_or(32) as u32;
                if format != 32 && format != 24 {
                    return perr("transmit:format", format!("f={format} is not raw RGB(A)"));
                }
                let id = cmd.num(b'i').unwrap_or(0) as u32;
                if id == 0 {
                    return perr(
                        "transmit:no-image-id",
                        "a=t without a non-zero i cannot be referred to later".into(),
                    );
                }
                let width = cmd.num(b's').unwrap_or(0) as u32;
                let height = cmd.num(b'v').unwrap_or(0) as u32;
                if width == 0 || height == 0 {
                    return perr(
                        "transmit:zero-size",
                        format!("s={width} v={height} (terminal answers EINVAL)"),
                    );
                }
                let Some(payload) = cmd.payload.as_ref() else {
                    return perr("transmit:no-payload", cmd.render());
                };
                let placement = cmd.num(b'p').unwrap_or(0) as u32;
                let pending = Pending {
                    action,
                    id,
                    placement,
                    width,
                    height,
                    format,
                    quiet,
                    text: payload.clone(),
                    chunks: vec![payload.len()],
                };
                if more {
                    if payload.len() % 4 != 0 {
                        return perr(
                            "chunk:not-multiple-of-4",
                            format!("non-final chunk of {} bytes", payload.len()),
                        );
                    }
                    self.pending = Some(pending);
                    Ok(vec![Effect::Chunk])
                } else {
                    self.finish(pending, decode)
                }
            }
            b'p' => {
                if more {
                    return perr("put:chunked", cmd.render());
                }
                if cmd.payload.as_ref().is_some_and(|p| !p.is_empty()) {
                    return perr("put:with-payload", cmd.render());
                }
                let id = cmd.num(b'i').unwrap_or(0) as u32;
                if id == 0 {
                    return perr("put:no-image-id", cmd.render());
                }
                let placement = cmd.num(b'p').unwrap_or(0) as u32;
                Ok(vec![self.put(id, placement, quiet)?])
            }
            b'd' => {
                if more {
                    return perr("delete:chunked", cmd.render());
                }
                if cmd.payload.as_ref().is_some_and(|p| !p.is_empty()) {
                    return perr("delete:with-payload", cmd.render());
                }
                let what = cmd.letter(b'd').unwrap_or(b'a');
                match what {
                    b'a' | b'A' => {
                        let removed: Vec<(u32, u32)> = self.placements.iter().copied().collect();
                        let removed_anonymous = self.anonymous.values().sum();
                        self.placements.clear();
                        self.anonymous.clear();
                        if what == b'A' {
                            self.images.clear();
                        }
                        Ok(vec![Effect::Deleted {
                            id: None,
                            placement: None,
                            removed,
                            removed_anonymous,
                            freed_data: what == b'A',
                        }])
                    }
                    b'i' | b'I' => {
                        let id = cmd.num(b'i').unwrap_or(0) as u32;
                        if id == 0 {
                            return perr("delete:no-image-id", cmd.render());
                        }
                        let placement = cmd.num(b'p').map(|p| p as u32);
                        let (removed, removed_anonymous) = match placement {
                            // protocol: without p (or p=0) every placement of the image goes
                            None | Some(0) => self.drop_placements(id),
                            Some(p) => {
                                if self.placements.remove(&(id, p)) {
                                    (vec![(id, p)], 0)
                                } else {
                                    (Vec::new(), 0)
                                }
                            }
                        };
                        let mut freed_data = false;
                        if what == b'I'
                            && !self.placements.iter().any(|(i, _)| *i == id)
                            && self.anonymous.get(&id).copied().unwrap_or(0) == 0
                        {
                            freed_data = self.images.remove(&id).is_some();
                        }
                        Ok(vec![Effect::Deleted {
                            id: Some(id),
                            placement,
                            removed,
                            removed_anonymous,
                            freed_data,
                        }])
                    }
                    other => perr(
                        "delete:unsupported-target",
                        format!("d={} is outside the reference reader", other as char),
                    ),
                }
            }
            other => perr(
                "control:unsupported-action",
                format!("a={} is outside the reference reader", other as char),
            ),
        }
    }
}
