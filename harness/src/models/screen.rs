//! Reference VT screen: grid of cells + cursor + current SGR face + two image layers
//! (kitty-style placements and sixel-style per-cell pixel stamps). Independent of the library.
use std::collections::BTreeSet;

#[derive(Clone, Copy, Debug, Default, PartialEq, Eq, Hash)]
pub struct MFace {
    pub fg: Option<[u8; 4]>,
    pub bg: Option<[u8; 4]>,
    /// 0 none, 1.. underline styles
    pub underline: u8,
    pub bold: bool,
    pub italic: bool,
    pub blink: bool,
    pub reverse: bool,
    pub strike: bool,
}

impl MFace {
    pub fn has_attrs(&self) -> bool {
        self.underline != 0 || self.bold || self.italic || self.blink || self.reverse || self.strike
    }
}

#[derive(Clone, Copy, Debug, PartialEq, Eq, Hash)]
pub enum Wide {
    No,
    Head,
    Tail,
}

#[derive(Clone, Copy, Debug, PartialEq, Eq, Hash)]
pub struct MCell {
    pub ch: char,
    pub face: MFace,
    pub wide: Wide,
}

impl MCell {
    pub fn blank() -> Self {
        MCell { ch: ' ', face: MFace::default(), wide: Wide::No }
    }

    /// What of this cell a person can see: for a blank only the background and the attributes
    /// that show on a blank (underline, strike, reverse; the foreground only with one of those)
    pub fn visible(&self) -> (char, Wide, MFace) {
        if self.ch == ' ' && self.wide == Wide::No {
            let shows = self.face.underline != 0 || self.face.strike || self.face.reverse;
            (
                ' ',
                Wide::No,
                MFace {
                    fg: if shows { self.face.fg } else { None },
                    bg: self.face.bg,
                    underline: self.face.underline,
                    bold: false,
                    italic: false,
                    blink: false,
                    reverse: self.face.reverse,
                    strike: self.face.strike,
                },
            )
        } else {
            (self.ch, self.wide, self.face)
        }
    }
}

pub type ImgId = u32;

#[derive(Clone, Debug)]
pub struct Screen {
    pub h: usize,
    pub w: usize,
    pub cells: Vec<MCell>,
    pub row: usize,
    pub col: usize,
    pub face: MFace,
    /// kitty semantics: (image, row, col) placements; text does not remove them
    pub placements: BTreeSet<(ImgId, usize, usize)>,
    /// sixel semantics: which image pixel block covers a cell; any text write clears it
    pub stamps: Vec<Option<(ImgId, u16, u16)>>,
    /// protocol problems observed while executing commands (e.g. printing beyond the right edge)
    pub problems: Vec<String>,
}

impl Screen {
    pub fn new(h: usize, w: usize) -> Self {
        Screen {
            h,
            w,
            cells: vec![MCell::blank(); h * w],
            row: 0,
            col: 0,
            face: MFace::default(),
            placements: BTreeSet::new(),
            stamps: vec![None; h * w],
            problems: Vec::new(),
        }
    }

    pub fn at(&self, r: usize, c: usize) -> &MCell {
        &self.cells[r * self.w + c]
    }

    fn at_mut(&mut self, r: usize, c: usize) -> &mut MCell {
        &mut self.cells[r * self.w + c]
    }

    pub fn cursor_to(&mut self, r: usize, c: usize) {
        // CUP clamps to the screen
        self.row = r.min(self.h.saturating_sub(1));
        self.col = c.min(self.w.saturating_sub(1));
    }

    pub fn set_face(&mut self, face: MFace) {
        self.face = face;
    }

    /// Overwriting one half of a wide character blanks the other half; the orphaned cell keeps
    /// its own attributes (xterm / kitty / VTE behaviour)
    fn split_wide(&mut self, r: usize, c: usize) {
        match self.at(r, c).wide {
            Wide::Head => {
                if c + 1 < self.w && self.at(r, c + 1).wide == Wide::Tail {
                    let t = self.at_mut(r, c + 1);
                    t.ch = ' ';
                    t.wide = Wide::No;
                }
            }
            Wide::Tail => {
                if c > 0 && self.at(r, c - 1).wide == Wide::Head {
                    let t = self.at_mut(r, c - 1);
                    t.ch = ' ';
                    t.wide = Wide::No;
                }
            }
            Wide::No => {}
        }
    }

    pub fn put_char(&mut self, ch: char, width: usize) {
        if self.h == 0 || self.w == 0 {
            return;
        }
        if width == 0 {
            self.problems.push(format!("zero-width char U+{:X} printed", ch as u32));
            return;
        }
        if self.col + width > self.w {
            self.problems.push(format!(
                "char {:?} (width {width}) printed at column {} of {} (would wrap or be clipped)",
                ch, self.col, self.w
            ));
            // model pending-wrap: do nothing further
            return;
        }
        let (r, c) = (self.row, self.col);
        for i in 0..width {
            self.split_wide(r, c + i);
            self.stamps[r * self.w + c + i] = None;
        }
        let face = self.face;
        if width == 1 {
            *self.at_mut(r, c) = MCell { ch, face, wide: Wide::No };
        } else {
            *self.at_mut(r, c) = MCell { ch, face, wide: Wide::Head };
            *self.at_mut(r, c + 1) = MCell { ch: ' ', face, wide: Wide::Tail };
        }
        self.col += width; // may equal w: pending wrap, a following print is reported
    }

    /// ECH: blank n cells from the cursor with the current background only (BCE), cursor unmoved
    pub fn erase_chars(&mut self, n: usize) {
        if self.h == 0 || self.w == 0 {
            return;
        }
        if self.col >= self.w {
            self.problems.push("erase with cursor in pending-wrap column".to_string());
            return;
        }
        let n = n.max(1);
        let (r, c) = (self.row, self.col);
        let end = (c + n).min(self.w);
        let face = MFace { bg: self.face.bg, ..MFace::default() };
        for i in c..end {
            self.split_wide(r, i);
            self.stamps[r * self.w + i] = None;
            *self.at_mut(r, i) = MCell { ch: ' ', face, wide: Wide::No };
        }
    }

    pub fn image(&mut self, id: ImgId, r: usize, c: usize, rows: usize, cols: usize) {
        self.placements.insert((id, r, c));
        for dr in 0..rows {
            for dc in 0..cols {
                let (rr, cc) = (r + dr, c + dc);
                if rr < self.h && cc < self.w {
                    self.stamps[rr * self.w + cc] = Some((id, dr as u16, dc as u16));
                }
            }
        }
    }

    pub fn image_erase(&mut self, id: ImgId, pos: Option<(usize, usize)>) {
        match pos {
            Some((r, c)) => {
                self.placements.remove(&(id, r, c));
            }
            None => self.placements.retain(|p| p.0 != id),
        }
    }
}
