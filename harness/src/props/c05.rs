//! C05 — encoded commands mean exactly what was commanded to a VT/xterm interpreter
//!
//! Every `TerminalCommand` the encoder handles is encoded with the real `TTYEncoder`; the bytes
//! are read by the independent control-sequence parser in `models::ctlseq` and compared with
//! the operation list written down here from the command's documentation. Face commands are
//! compared by *meaning*: the emitted SGR parameters are folded by the reference SGR
//! interpreter into several prior rendition states and the resulting state must be exactly the
//! requested one. Commands are encoded separately (fresh encoder) and as one back-to-back
//! stream (one encoder, one buffer): the stream must parse into the concatenation of the
//! separately observed lists, and the parser must be in ground state after every command.
use crate::core::{shrink_vec, Ctx, Fail, Prop, Tier};
use crate::models::ctlseq::{self, ColorSpec, Op, SgrState, Underline};
use crate::rng::Rng;
use crate::{ensure, fail};
use serde::{Deserialize, Serialize};
use surf_n_term::{
    encoder::{ColorDepth, Encoder, TTYEncoder},
    DecMode, Face, FaceAttrs, FaceModify, Image, Position, Size, SurfaceOwned, TerminalCaps,
    TerminalColor, TerminalCommand, UnderlineStyle, RGBA,
};

pub struct C05;

type Rgb = [u8; 3];

/// Serialisable mirror of `TerminalCommand` (colours are opaque: alpha 255)
#[derive(Clone, Debug, PartialEq, Serialize, Deserialize)]
pub enum Cmd {
    Char(char),
    /// flags: bit0 bold, bit1 italic, bit2 blink, bit3 reverse, bit4 strike; ul: 0 none,
    /// 1 straight, 2 double, 3 curly, 4 dotted, 5 dashed
    Face { fg: Option<Rgb>, bg: Option<Rgb>, flags: u8, ul: u8 },
    FaceModify {
        reset: bool,
        fg: Option<Rgb>,
        bg: Option<Rgb>,
        underline: Option<u8>,
        underline_color: Option<Rgb>,
        bold: Option<bool>,
        italic: Option<bool>,
        blink: Option<bool>,
        strike: Option<bool>,
    },
    FaceGet,
    /// mode: index into `DEC_MODES`
    DecModeSet { enable: bool, mode: u8 },
    DecModeGet(u8),
    CursorGet,
    CursorTo { row: usize, col: usize },
    CursorMove { row: i32, col: i32 },
    CursorSave,
    CursorRestore,
    EraseLineLeft,
    EraseLineRight,
    EraseLine,
    EraseScreen,
    EraseChars(usize),
    Scroll(i32),
    ScrollRegion { start: usize, end: usize },
    Reset,
    Image,
    ImageErase { with_pos: bool },
    Termcap(Vec<String>),
    /// name: -1 foreground, -2 background, n >= 0 palette entry n
    Color { name: i32, color: Option<Rgb> },
    Title(String),
    DeviceAttrs,
    KeyboardLevel(usize),
    Raw(Vec<u8>),
}

#[derive(Clone, Debug, Serialize, Deserialize)]
pub struct Case {
    /// 0 true colour, 1 eight bit, 2 gray
    pub depth: u8,
    pub kitty: bool,
    pub glyphs: bool,
    pub cmds: Vec<Cmd>,
}

/// DEC private mode numbers as documented (xterm ctlseqs / the synchronized-output and
/// bracketed-paste specifications), typed independently of the crate
const DEC_MODES: [(DecMode, u32); 9] = [
    (DecMode::VisibleCursor, 25),
    (DecMode::AutoWrap, 7),
    (DecMode::SixelScrolling, 80),
    (DecMode::MouseReport, 1000),
    (DecMode::MouseMotions, 1003),
    (DecMode::MouseSGR, 1006),
    (DecMode::AltScreen, 1049),
    (DecMode::SynchronizedOutput, 2026),
    (DecMode::BracketedPaste, 2004),
];
const ALT_SCREEN: u32 = 1049;
/// kitty keyboard flags the library documents for its alternative screen (`KEYBOARD_LEVEL`):
/// disambiguate (1) + report alternate keys (4)
const KITTY_ALT_LEVEL: u32 = 0b0101;

const NKINDS: u64 = 27;

fn kind(cmd: &Cmd) -> &'static str {
    match cmd {
        Cmd::Char(_) => "Char",
        Cmd::Face { .. } => "Face",
        Cmd::FaceModify { .. } => "FaceModify",
        Cmd::FaceGet => "FaceGet",
        Cmd::DecModeSet { .. } => "DecModeSet",
        Cmd::DecModeGet(_) => "DecModeGet",
        Cmd::CursorGet => "CursorGet",
        Cmd::CursorTo { .. } => "CursorTo",
        Cmd::CursorMove { .. } => "CursorMove",
        Cmd::CursorSave => "CursorSave",
        Cmd::CursorRestore => "CursorRestore",
        Cmd::EraseLineLeft => "EraseLineLeft",
        Cmd::EraseLineRight => "EraseLineRight",
        Cmd::EraseLine => "EraseLine",
        Cmd::EraseScreen => "EraseScreen",
        Cmd::EraseChars(_) => "EraseChars",
        Cmd::Scroll(_) => "Scroll",
        Cmd::ScrollRegion { .. } => "ScrollRegion",
        Cmd::Reset => "Reset",
        Cmd::Image => "Image",
        Cmd::ImageErase { .. } => "ImageErase",
        Cmd::Termcap(_) => "Termcap",
        Cmd::Color { .. } => "Color",
        Cmd::Title(_) => "Title",
        Cmd::DeviceAttrs => "DeviceAttrs",
        Cmd::KeyboardLevel(_) => "KeyboardLevel",
        Cmd::Raw(_) => "Raw",
    }
}

thread_local! {
    /// true while a true-colour case is checked: colours then carry arbitrary alpha values
    /// (true colour transmits the three channels as they are; the reduced depths are C20's subject
    /// and are exercised with opaque colours only)
    static TRANSLUCENT: std::cell::Cell<bool> = const { std::cell::Cell::new(false) };
}

fn rgba(c: Rgb) -> RGBA {
    if TRANSLUCENT.with(|t| t.get()) {
        let [r, g, b] = c;
        let alpha = [255u8, 255, 0, 1, 128, 254][(r as usize + 3 * g as usize + 7 * b as usize) % 6];
        return RGBA::new(r, g, b, alpha);
    }
    rgba_opaque(c)
}

fn rgba_opaque(c: Rgb) -> RGBA {
    RGBA::new(c[0], c[1], c[2], 255)
}

fn ul_style(ul: u8) -> UnderlineStyle {
    match ul {
        1 => UnderlineStyle::Straight,
        2 => UnderlineStyle::Double,
        3 => UnderlineStyle::Curly,
        4 => UnderlineStyle::Dotted,
        5 => UnderlineStyle::Dashed,
        _ => UnderlineStyle::None,
    }
}

fn ul_model(ul: u8) -> Underline {
    match ul {
        1 => Underline::Straight,
        2 => Underline::Double,
        3 => Underline::Curly,
        4 => Underline::Dotted,
        5 => Underline::Dashed,
        _ => Underline::None,
    }
}

fn attrs_of(flags: u8, ul: u8) -> FaceAttrs {
    let mut attrs = FaceAttrs::EMPTY;
    for (bit, flag) in [
        (1u8, FaceAttrs::BOLD),
        (2, FaceAttrs::ITALIC),
        (4, FaceAttrs::BLINK),
        (8, FaceAttrs::REVERSE),
        (16, FaceAttrs::STRIKE),
    ] {
        if flags & bit != 0 {
            attrs = attrs | flag;
        }
    }
    match ul {
        1 => attrs | FaceAttrs::UNDERLINE,
        2 => attrs | FaceAttrs::UNDERLINE_DOUBLE,
        3 => attrs | FaceAttrs::UNDERLINE_CURLY,
        4 => attrs | FaceAttrs::UNDERLINE_DOTTED,
        5 => attrs | FaceAttrs::UNDERLINE_DASHED,
        _ => attrs,
    }
}

fn caps_of(case: &Case) -> TerminalCaps {
    TerminalCaps {
        depth: match case.depth {
            0 => ColorDepth::TrueColor,
            1 => ColorDepth::EightBit,
            _ => ColorDepth::Gray,
        },
        glyphs: case.glyphs,
        kitty_keyboard: case.kitty,
    }
}

fn to_command(cmd: &Cmd) -> TerminalCommand {
    let dec = |m: u8| DEC_MODES[m as usize % DEC_MODES.len()].0;
    let image = || Image::new(SurfaceOwned::<RGBA>::new(Size::new(1, 2)));
    match cmd {
        Cmd::Char(c) => TerminalCommand::Char(*c),
        Cmd::Face { fg, bg, flags, ul } => {
            TerminalCommand::Face(Face::new(fg.map(rgba), bg.map(rgba), attrs_of(*flags, *ul)))
        }
        Cmd::FaceModify {
            reset,
            fg,
            bg,
            underline,
            underline_color,
            bold,
            italic,
            blink,
            strike,
        } => TerminalCommand::FaceModify(FaceModify {
            reset: *reset,
            fg: fg.map(rgba),
            bg: bg.map(rgba),
            underline: underline.map(ul_style),
            underline_color: underline_color.map(rgba),
            bold: *bold,
            italic: *italic,
            blink: *blink,
            strike: *strike,
        }),
        Cmd::FaceGet => TerminalCommand::FaceGet,
        // the three modes with a constructor of their own are built through it
        Cmd::DecModeSet { enable, mode } => match dec(*mode) {
            DecMode::AltScreen => TerminalCommand::altscreen_set(*enable),
            DecMode::VisibleCursor => TerminalCommand::visible_cursor_set(*enable),
            DecMode::AutoWrap => TerminalCommand::auto_wrap_set(*enable),
            mode => TerminalCommand::DecModeSet { enable: *enable, mode },
        },
        Cmd::DecModeGet(mode) => TerminalCommand::DecModeGet(dec(*mode)),
        Cmd::CursorGet => TerminalCommand::CursorGet,
        Cmd::CursorTo { row, col } => TerminalCommand::CursorTo(Position::new(*row, *col)),
        Cmd::CursorMove { row, col } => TerminalCommand::CursorMove { row: *row, col: *col },
        Cmd::CursorSave => TerminalCommand::CursorSave,
        Cmd::CursorRestore => TerminalCommand::CursorRestore,
        Cmd::EraseLineLeft => TerminalCommand::EraseLineLeft,
        Cmd::EraseLineRight => TerminalCommand::EraseLineRight,
        Cmd::EraseLine => TerminalCommand::EraseLine,
        Cmd::EraseScreen => TerminalCommand::EraseScreen,
        Cmd::EraseChars(n) => TerminalCommand::EraseChars(*n),
        Cmd::Scroll(n) => TerminalCommand::Scroll(*n),
        Cmd::ScrollRegion { start, end } => TerminalCommand::ScrollRegion {
            start: *start,
            end: *end,
        },
        Cmd::Reset => TerminalCommand::Reset,
        Cmd::Image => TerminalCommand::Image(image(), Position::new(3, 4)),
        Cmd::ImageErase { with_pos } => {
            TerminalCommand::ImageErase(image(), with_pos.then_some(Position::new(1, 2)))
        }
        Cmd::Termcap(names) => TerminalCommand::Termcap(names.clone()),
        Cmd::Color { name, color } => TerminalCommand::Color {
            name: match *name {
                -1 => TerminalColor::Foreground,
                n if n < 0 => TerminalColor::Background,
                n => TerminalColor::Palette(n as usize),
            },
            color: color.map(rgba_opaque),
        },
        Cmd::Title(title) => TerminalCommand::Title(title.clone()),
        Cmd::DeviceAttrs => TerminalCommand::DeviceAttrs,
        Cmd::KeyboardLevel(level) => TerminalCommand::KeyboardLevel(*level),
        Cmd::Raw(bytes) => TerminalCommand::Raw(bytes.clone()),
    }
}

/// Is the command inside the property's stated domain
fn in_domain(cmd: &Cmd) -> bool {
    const MAX: usize = 1 << 20;
    match cmd {
        Cmd::Char(c) => !c.is_control(),
        Cmd::Face { flags, ul, .. } => *flags < 32 && *ul < 6,
        Cmd::FaceModify { underline, .. } => underline.is_none_or(|u| u < 6),
        Cmd::DecModeSet { mode, .. } | Cmd::DecModeGet(mode) => (*mode as usize) < DEC_MODES.len(),
        Cmd::CursorTo { row, col } => *row <= MAX && *col <= MAX,
        Cmd::EraseChars(n) => *n <= MAX,
        Cmd::ScrollRegion { start, end } => *start <= MAX && *end <= MAX,
        Cmd::Termcap(names) => names
            .iter()
            .all(|n| (1..=8).contains(&n.len()) && n.bytes().all(|b| b.is_ascii_alphanumeric())),
        Cmd::Color { name, .. } => (-2..=255).contains(name),
        Cmd::Title(title) => !title.chars().any(|c| c.is_control()),
        Cmd::KeyboardLevel(level) => *level < 32,
        // raw bytes are the caller's responsibility; only complete sequences keep a stream
        // parseable, so anything else is outside the domain
        Cmd::Raw(bytes) => ctlseq::parse(bytes).1,
        _ => true,
    }
}

/// rendition states the SGR output is interpreted from (all expressible by the library: no
/// faint / conceal / overline, which `22`/`28`/`55` would touch)
fn priors() -> [SgrState; 3] {
    [
        SgrState::default(),
        SgrState::all_set(),
        SgrState {
            fg: ColorSpec::Indexed(3),
            bg: ColorSpec::Rgb(200, 100, 50),
            underline_color: ColorSpec::Default,
            bold: true,
            italic: false,
            blink: false,
            reverse: false,
            strike: true,
            underline: Underline::Straight,
            ..SgrState::default()
        },
    ]
}

/// expected value of a colour field
#[derive(Clone, Copy, Debug)]
enum WantColor {
    Exactly(ColorSpec),
    /// one palette entry (reduced colour depth)
    SomeIndexed,
    /// gray depth, underline colour: the tree emits nothing, a palette entry would be fine too
    IndexedOr(ColorSpec),
}

impl WantColor {
    fn set(color: Rgb, depth: u8) -> Self {
        if depth == 0 {
            WantColor::Exactly(ColorSpec::Rgb(color[0], color[1], color[2]))
        } else {
            WantColor::SomeIndexed
        }
    }
    fn holds(self, got: ColorSpec) -> bool {
        match self {
            WantColor::Exactly(c) => got == c,
            WantColor::SomeIndexed => matches!(got, ColorSpec::Indexed(_)),
            WantColor::IndexedOr(c) => got == c || matches!(got, ColorSpec::Indexed(_)),
        }
    }
}

struct WantState {
    fg: WantColor,
    bg: WantColor,
    underline_color: WantColor,
    /// every remaining field, exactly (colour fields of this one are not looked at)
    rest: SgrState,
}

fn state_mismatch(got: &SgrState, want: &WantState) -> Option<&'static str> {
    let w = &want.rest;
    let checks = [
        (want.fg.holds(got.fg), "fg"),
        (want.bg.holds(got.bg), "bg"),
        (want.underline_color.holds(got.underline_color), "underline-color"),
        (got.bold == w.bold, "bold"),
        (got.faint == w.faint, "faint"),
        (got.italic == w.italic, "italic"),
        (got.blink == w.blink, "blink"),
        (got.reverse == w.reverse, "reverse"),
        (got.conceal == w.conceal, "conceal"),
        (got.strike == w.strike, "strike"),
        (got.overline == w.overline, "overline"),
        (got.underline == w.underline, "underline"),
    ];
    checks.iter().find(|(ok, _)| !ok).map(|(_, name)| *name)
}

fn hex_lower(name: &str) -> String {
    const DIGITS: &[u8; 16] = b"0123456789abcdef";
    let mut out = String::new();
    for b in name.bytes() {
        out.push(DIGITS[(b >> 4) as usize] as char);
        out.push(DIGITS[(b & 15) as usize] as char);
    }
    out
}

/// X11 colour specification (what xterm's OSC 4/10/11 hands to XParseColor) -> 8 bit channels,
/// for the forms that denote exactly a 24 bit colour
fn parse_xcolor(spec: &str) -> Option<Rgb> {
    let hex = |s: &str| -> Option<u32> {
        if s.is_empty() || !s.bytes().all(|b| b.is_ascii_hexdigit()) {
            return None;
        }
        u32::from_str_radix(s, 16).ok()
    };
    if let Some(digits) = spec.strip_prefix('#') {
        if digits.len() != 6 || !digits.is_ascii() {
            return None;
        }
        return Some([
            hex(&digits[0..2])? as u8,
            hex(&digits[2..4])? as u8,
            hex(&digits[4..6])? as u8,
        ]);
    }
    if let Some(rest) = spec.strip_prefix("rgb:") {
        let parts: Vec<&str> = rest.split('/').collect();
        if parts.len() != 3 {
            return None;
        }
        let mut out = [0u8; 3];
        for (slot, part) in out.iter_mut().zip(parts) {
            let v = hex(part)?;
            *slot = match part.len() {
                2 => v as u8,
                4 if v == (v >> 8) * 257 => (v >> 8) as u8,
                _ => return None,
            };
        }
        return Some(out);
    }
    None
}

fn describe(bytes: &[u8]) -> String {
    let mut out = String::new();
    for b in bytes.iter().take(96) {
        match b {
            0x1b => out.push_str("\\e"),
            0x20..=0x7e => out.push(*b as char),
            _ => out.push_str(&format!("\\x{:02x}", b)),
        }
    }
    if bytes.len() > 96 {
        out.push_str("...");
    }
    out
}

/// Compare the operations observed for one command with what the command denotes
fn check_meaning(cmd: &Cmd, case: &Case, bytes: &[u8], ops: &[Op], ctx: &mut Ctx) -> Result<(), Fail> {
    let k = kind(cmd);
    let exact = |want: Vec<Op>, suffix: &str| -> Result<(), Fail> {
        ensure!(
            ops == want.as_slice(),
            format!("{k}:ops{suffix}"),
            "{:?} under depth={} kitty={} emitted {:?} = {:?}, the command denotes {:?}",
            cmd,
            case.depth,
            case.kitty,
            describe(bytes),
            ops,
            want
        );
        Ok(())
    };
    match cmd {
        Cmd::Char(c) => exact(vec![Op::Print(*c)], ""),
        Cmd::FaceGet => exact(vec![Op::Dcs("$qm".into())], ""),
        Cmd::DecModeSet { enable, mode } => {
            let number = DEC_MODES[*mode as usize].1;
            let mut want = Vec::new();
            let bracket = case.kitty && number == ALT_SCREEN;
            if bracket && !enable {
                want.push(Op::KittyKbd { flags: 0, mode: 1 });
            }
            want.push(if *enable {
                Op::Decset(vec![number])
            } else {
                Op::Decrst(vec![number])
            });
            if bracket && *enable {
                want.push(Op::KittyKbd {
                    flags: KITTY_ALT_LEVEL,
                    mode: 1,
                });
            }
            ctx.feat_if(bracket, "kitty.altscreen-bracket");
            exact(want, "")
        }
        Cmd::DecModeGet(mode) => exact(vec![Op::Decrqm(DEC_MODES[*mode as usize].1)], ""),
        Cmd::CursorGet => exact(vec![Op::Dsr(6)], ""),
        Cmd::CursorTo { row, col } => exact(vec![Op::Cup(*row as u32 + 1, *col as u32 + 1)], ""),
        Cmd::CursorMove { row, col } => {
            let extreme = *row == i32::MIN || *col == i32::MIN;
            ctx.feat_if(extreme, "move.i32-min");
            let horizontal = match *col {
                0 => None,
                c if c > 0 => Some(Op::Cuf(c.unsigned_abs())),
                c => Some(Op::Cub(c.unsigned_abs())),
            };
            let vertical = match *row {
                0 => None,
                r if r > 0 => Some(Op::Cud(r.unsigned_abs())),
                r => Some(Op::Cuu(r.unsigned_abs())),
            };
            // horizontal and vertical motions commute: either order means the same
            let a: Vec<Op> = horizontal.iter().chain(vertical.iter()).cloned().collect();
            let b: Vec<Op> = vertical.iter().chain(horizontal.iter()).cloned().collect();
            if ops == b.as_slice() {
                return Ok(());
            }
            exact(a, if extreme { ":i32-min" } else { "" })
        }
        Cmd::CursorSave => exact(vec![Op::Decsc], ""),
        Cmd::CursorRestore => exact(vec![Op::Decrc], ""),
        Cmd::EraseLineRight => exact(vec![Op::El(0)], ""),
        Cmd::EraseLineLeft => exact(vec![Op::El(1)], ""),
        Cmd::EraseLine => exact(vec![Op::El(2)], ""),
        Cmd::EraseScreen => exact(vec![Op::Ed(2)], ""),
        Cmd::EraseChars(0) => {
            // "erase 0 characters" has no counterpart in ECH (0 means 1): not looked at
            ctx.feat("erasechars.zero-unchecked");
            Ok(())
        }
        Cmd::EraseChars(n) => exact(vec![Op::Ech(*n as u32)], ""),
        Cmd::Scroll(n) => {
            let extreme = *n == i32::MIN;
            ctx.feat_if(extreme, "scroll.i32-min");
            let want = match *n {
                0 => vec![],
                n if n > 0 => vec![Op::Su(n.unsigned_abs())],
                n => vec![Op::Sd(n.unsigned_abs())],
            };
            exact(want, if extreme { ":i32-min" } else { "" })
        }
        Cmd::ScrollRegion { start, end } => {
            let want = if end > start {
                Op::Decstbm {
                    top: Some(*start as u32 + 1),
                    bottom: Some(*end as u32 + 1),
                }
            } else {
                Op::Decstbm {
                    top: None,
                    bottom: None,
                }
            };
            exact(vec![want], "")
        }
        Cmd::Reset => exact(vec![Op::Ris], ""),
        Cmd::Image | Cmd::ImageErase { .. } => exact(vec![], ""),
        Cmd::Termcap(names) => {
            let want = format!(
                "+q{}",
                names.iter().map(|n| hex_lower(n)).collect::<Vec<_>>().join(";")
            );
            match ops {
                [Op::Dcs(text)] if text.to_ascii_lowercase() == want => Ok(()),
                _ => fail!(
                    "Termcap:ops",
                    "Termcap({:?}) emitted {:?} = {:?}, XTGETTCAP is DCS {:?} ST with two hex digits per byte",
                    names,
                    describe(bytes),
                    ops,
                    want
                ),
            }
        }
        Cmd::Color { name, color } => {
            let (num, prefix) = match *name {
                -1 => (10, String::new()),
                -2 => (11, String::new()),
                n => (4, format!("{n};")),
            };
            let ok = match ops {
                [Op::Osc(n, text)] if *n == num => match text.strip_prefix(prefix.as_str()) {
                    Some(spec) => match color {
                        None => spec == "?",
                        Some(c) => parse_xcolor(spec) == Some(*c),
                    },
                    None => false,
                },
                _ => false,
            };
            ensure!(
                ok,
                "Color:ops",
                "{:?} emitted {:?} = {:?}, expected OSC {} ; {}<{}>",
                cmd,
                describe(bytes),
                ops,
                num,
                prefix,
                match color {
                    None => "?".to_string(),
                    Some(c) => format!("colour spec of #{:02x}{:02x}{:02x}", c[0], c[1], c[2]),
                }
            );
            Ok(())
        }
        Cmd::Title(title) => exact(vec![Op::Osc(0, title.clone())], ""),
        Cmd::DeviceAttrs => exact(vec![Op::Da1], ""),
        Cmd::KeyboardLevel(level) => {
            let want = if case.kitty {
                vec![Op::KittyKbd {
                    flags: *level as u32,
                    mode: 1,
                }]
            } else {
                vec![]
            };
            exact(want, "")
        }
        Cmd::Raw(raw) => {
            ensure!(
                bytes == raw.as_slice(),
                "Raw:bytes",
                "Raw({:?}) emitted {:?}",
                describe(raw),
                describe(bytes)
            );
            Ok(())
        }
        Cmd::Face { fg, bg, flags, ul } => {
            ensure!(
                !ops.is_empty() && ops.iter().all(|op| matches!(op, Op::Sgr(_))),
                "Face:ops",
                "{:?} emitted {:?} = {:?}: expected SGR only",
                cmd,
                describe(bytes),
                ops
            );
            let color = |c: &Option<Rgb>| match c {
                Some(c) => WantColor::set(*c, case.depth),
                None => WantColor::Exactly(ColorSpec::Default),
            };
            let want = WantState {
                fg: color(fg),
                bg: color(bg),
                underline_color: WantColor::Exactly(ColorSpec::Default),
                rest: SgrState {
                    bold: flags & 1 != 0,
                    italic: flags & 2 != 0,
                    blink: flags & 4 != 0,
                    reverse: flags & 8 != 0,
                    strike: flags & 16 != 0,
                    underline: ul_model(*ul),
                    ..SgrState::default()
                },
            };
            for prior in priors() {
                let mut got = prior;
                let issues = ctlseq::apply_sgr_ops(&mut got, ops);
                ensure!(
                    issues.is_empty(),
                    "Face:sgr-undefined",
                    "{:?} emitted {:?} containing SGR parameters without defined meaning: {:?}",
                    cmd,
                    describe(bytes),
                    issues
                );
                if let Some(field) = state_mismatch(&got, &want) {
                    fail!(
                        format!("Face:state:{field}"),
                        "{:?} under depth={} emitted {:?}; interpreted from {:?} it yields {:?}: field `{}` is not the requested one",
                        cmd,
                        case.depth,
                        describe(bytes),
                        prior,
                        got,
                        field
                    );
                }
            }
            ctx.feat_if(*ul != 0 && *flags != 0, "face.underline+flags");
            ctx.feat_if(*flags & 8 != 0, "face.reverse");
            Ok(())
        }
        Cmd::FaceModify {
            reset,
            fg,
            bg,
            underline,
            underline_color,
            bold,
            italic,
            blink,
            strike,
        } => {
            ensure!(
                ops.iter().all(|op| matches!(op, Op::Sgr(_))),
                "FaceModify:ops",
                "{:?} emitted {:?} = {:?}: expected SGR only",
                cmd,
                describe(bytes),
                ops
            );
            let empty = !reset
                && fg.is_none()
                && bg.is_none()
                && underline.is_none()
                && underline_color.is_none()
                && bold.is_none()
                && italic.is_none()
                && blink.is_none()
                && strike.is_none();
            if empty {
                ctx.feat("facemodify.empty");
                // `CSI m` would be a reset: the empty record must emit nothing
                ensure!(
                    ops.is_empty(),
                    "FaceModify:empty-not-silent",
                    "the empty FaceModify emitted {:?}",
                    describe(bytes)
                );
                return Ok(());
            }
            for prior in priors() {
                let base = if *reset { SgrState::default() } else { prior };
                let color = |c: &Option<Rgb>, keep: ColorSpec| match c {
                    Some(c) => WantColor::set(*c, case.depth),
                    None => WantColor::Exactly(keep),
                };
                let want = WantState {
                    fg: color(fg, base.fg),
                    bg: color(bg, base.bg),
                    underline_color: match underline_color {
                        Some(_) if case.depth == 2 => WantColor::IndexedOr(base.underline_color),
                        other => color(other, base.underline_color),
                    },
                    rest: SgrState {
                        bold: bold.unwrap_or(base.bold),
                        italic: italic.unwrap_or(base.italic),
                        blink: blink.unwrap_or(base.blink),
                        strike: strike.unwrap_or(base.strike),
                        underline: underline.map(ul_model).unwrap_or(base.underline),
                        ..base
                    },
                };
                let mut got = prior;
                let issues = ctlseq::apply_sgr_ops(&mut got, ops);
                ensure!(
                    issues.is_empty(),
                    "FaceModify:sgr-undefined",
                    "{:?} emitted {:?} containing SGR parameters without defined meaning: {:?}",
                    cmd,
                    describe(bytes),
                    issues
                );
                if let Some(field) = state_mismatch(&got, &want) {
                    // `bold: Some(false)` going wrong shows as a bold or an underline difference
                    let class = match field {
                        "bold" | "underline" if *bold == Some(false) => "bold-off",
                        other => other,
                    };
                    fail!(
                        format!("FaceModify:state:{class}"),
                        "{:?} under depth={} emitted {:?}; interpreted from {:?} it yields {:?}: field `{}` differs from what the record names",
                        cmd,
                        case.depth,
                        describe(bytes),
                        prior,
                        got,
                        field
                    );
                }
            }
            ctx.feat_if(*bold == Some(false), "facemodify.bold-off");
            ctx.feat_if(underline_color.is_some(), "facemodify.underline-color");
            ctx.feat_if(*reset, "facemodify.reset");
            Ok(())
        }
    }
}

fn encode(encoder: &mut TTYEncoder, out: &mut Vec<u8>, cmd: &Cmd) -> Result<(), Fail> {
    encoder.encode(out, to_command(cmd)).map_err(|e| {
        Fail::new(
            format!("{}:encode-error", kind(cmd)),
            format!("encoding {:?} into a Vec failed: {e}", cmd),
        )
    })
}

/// a writer that takes nothing
struct Refuse;

impl std::io::Write for Refuse {
    fn write(&mut self, buf: &[u8]) -> std::io::Result<usize> {
        if buf.is_empty() {
            Ok(0)
        } else {
            Err(std::io::ErrorKind::WouldBlock.into())
        }
    }
    fn flush(&mut self) -> std::io::Result<()> {
        Ok(())
    }
}

// ---------------------------------------------------------------------------
// generators

fn gen_count(rng: &mut Rng) -> usize {
    match rng.below(8) {
        0 => *rng.pick(&[0usize, 1, 2, 9, 10, 99, 100, 65534, 65535, 65536, (1 << 20) - 1, 1 << 20]),
        1 | 2 => rng.range(0, 300),
        3 => rng.range(0, 70_000),
        _ => rng.range(0, 1 << 20),
    }
}

fn gen_signed(rng: &mut Rng) -> i32 {
    match rng.below(8) {
        0 => *rng.pick(&[0i32, 1, -1, i32::MIN, i32::MAX, i32::MIN + 1, i32::MAX - 1, 2, -2]),
        1 | 2 | 3 => rng.range_i64(-300, 300) as i32,
        4 => rng.range_i64(-70_000, 70_000) as i32,
        _ => rng.next_u32() as i32,
    }
}

fn gen_rgb(rng: &mut Rng) -> Rgb {
    match rng.below(6) {
        0 => *rng.pick(&[[0, 0, 0], [255, 255, 255], [255, 0, 0], [0, 255, 0], [0, 0, 255], [128, 128, 128], [1, 2, 3]]),
        1 => {
            let v = rng.next_u8();
            [v, v, v]
        }
        _ => [rng.next_u8(), rng.next_u8(), rng.next_u8()],
    }
}

fn gen_opt_rgb(rng: &mut Rng) -> Option<Rgb> {
    rng.chance(2, 3).then(|| gen_rgb(rng))
}

fn gen_char(rng: &mut Rng) -> char {
    loop {
        let c = match rng.below(8) {
            0 | 1 => rng.range(0x20, 0x7e) as u32,
            2 => rng.range(0xa0, 0x24f) as u32,
            3 => rng.range(0x4e00, 0x9fff) as u32,
            4 => rng.range(0x1f300, 0x1f6ff) as u32,
            5 => *rng.pick(&[0x300u32, 0x200d, 0xfe0f, 0xfffd, 0xffff, 0x10000, 0x10ffff, 0xa0, 0x7ff, 0x800, 0xd7ff, 0xe000]),
            _ => rng.range(0x20, 0x10ffff) as u32,
        };
        if let Some(c) = char::from_u32(c) {
            if !c.is_control() {
                return c;
            }
        }
    }
}

fn gen_opt_bool(rng: &mut Rng) -> Option<bool> {
    match rng.below(3) {
        0 => None,
        1 => Some(true),
        _ => Some(false),
    }
}

fn gen_cmd(rng: &mut Rng, which: u64, variant: u64) -> Cmd {
    match which % NKINDS {
        0 => Cmd::Char(gen_char(rng)),
        1 => Cmd::Face {
            fg: gen_opt_rgb(rng),
            bg: gen_opt_rgb(rng),
            flags: (variant % 32) as u8,
            ul: (variant / 32 % 6) as u8,
        },
        2 => {
            // the whole record: each field independently absent/present; a sparse record half
            // of the time so that single-field encodings are seen in isolation
            let sparse = rng.bool();
            let keep = |rng: &mut Rng| !sparse || rng.chance(1, 4);
            let reset = keep(rng) && rng.bool();
            let fg = if keep(rng) { gen_opt_rgb(rng) } else { None };
            let bg = if keep(rng) { gen_opt_rgb(rng) } else { None };
            let underline = if keep(rng) && rng.chance(2, 3) {
                Some((variant % 6) as u8)
            } else {
                None
            };
            let underline_color = if keep(rng) { gen_opt_rgb(rng) } else { None };
            let bold = if keep(rng) { gen_opt_bool(rng) } else { None };
            let italic = if keep(rng) { gen_opt_bool(rng) } else { None };
            let blink = if keep(rng) { gen_opt_bool(rng) } else { None };
            let strike = if keep(rng) { gen_opt_bool(rng) } else { None };
            Cmd::FaceModify {
                reset,
                fg,
                bg,
                underline,
                underline_color,
                bold,
                italic,
                blink,
                strike,
            }
        }
        3 => Cmd::FaceGet,
        4 => Cmd::DecModeSet {
            enable: variant / 9 % 2 == 0,
            mode: (variant % 9) as u8,
        },
        5 => Cmd::DecModeGet((variant % 9) as u8),
        6 => Cmd::CursorGet,
        7 => Cmd::CursorTo {
            row: gen_count(rng),
            col: gen_count(rng),
        },
        8 => Cmd::CursorMove {
            row: gen_signed(rng),
            col: gen_signed(rng),
        },
        9 => Cmd::CursorSave,
        10 => Cmd::CursorRestore,
        11 => Cmd::EraseLineLeft,
        12 => Cmd::EraseLineRight,
        13 => Cmd::EraseLine,
        14 => Cmd::EraseScreen,
        15 => Cmd::EraseChars(gen_count(rng)),
        16 => Cmd::Scroll(gen_signed(rng)),
        17 => {
            let start = gen_count(rng);
            let end = match rng.below(4) {
                0 => start,
                1 => start + 1,
                _ => gen_count(rng),
            };
            Cmd::ScrollRegion {
                start,
                end: end.min(1 << 20),
            }
        }
        18 => Cmd::Reset,
        19 => Cmd::Image,
        20 => Cmd::ImageErase {
            with_pos: variant % 2 == 0,
        },
        21 => {
            const ALNUM: &[u8] = b"ABCDEFGHIJKLMNOPQRSTUVWXYZabcdefghijklmnopqrstuvwxyz0123456789";
            let count = if rng.chance(1, 12) { 0 } else { rng.range(1, 4) };
            Cmd::Termcap(
                (0..count)
                    .map(|_| {
                        (0..rng.range(1, 8))
                            .map(|_| *rng.pick(ALNUM) as char)
                            .collect()
                    })
                    .collect(),
            )
        }
        22 => Cmd::Color {
            name: match rng.below(4) {
                0 => -1,
                1 => -2,
                _ => (variant % 256) as i32,
            },
            color: gen_opt_rgb(rng),
        },
        23 => {
            let len = rng.range(0, 20);
            Cmd::Title(
                (0..len)
                    .map(|_| if rng.chance(1, 6) { ';' } else { gen_char(rng) })
                    .collect(),
            )
        }
        24 => Cmd::DeviceAttrs,
        25 => Cmd::KeyboardLevel((variant % 32) as usize),
        _ => Cmd::Raw(
            rng.pick(&[
                &b""[..],
                b"plain text",
                b"\r\n",
                b"\x1b[5n",
                b"\x1b]52;c;?\x07",
                b"\x1b[?1;2c",
                "\u{20ac}".as_bytes(),
            ])
            .to_vec(),
        ),
    }
}

impl Prop for C05 {
    type Case = Case;
    const ID: &'static str = "C05";

    fn default_cases(tier: Tier, _flavour: &str) -> u64 {
        // a case is a stream of 1..=12 commands (6.5 on average)
        tier.pick(240_000, 4_000_000)
    }

    fn gen(rng: &mut Rng, _tier: Tier, index: u64) -> Case {
        // capability configurations and command kinds are visited round-robin, the face
        // attribute sets / DEC modes / palette indices / keyboard levels by a running counter
        let depth = (index % 3) as u8;
        let kitty = index / 3 % 2 == 1;
        let first_kind = index / 6 % NKINDS;
        let variant = index / (6 * NKINDS);
        let len = match rng.below(4) {
            0 => 1,
            _ => rng.range(1, 12),
        };
        let mut cmds = vec![gen_cmd(rng, first_kind, variant)];
        while cmds.len() < len {
            let which = rng.below_u64(NKINDS);
            let variant = rng.below_u64(1 << 20);
            cmds.push(gen_cmd(rng, which, variant));
        }
        Case {
            depth,
            kitty,
            glyphs: rng.bool(),
            cmds,
        }
    }

    fn check(case: &Case, ctx: &mut Ctx) -> Result<(), Fail> {
        if case.depth > 2 || !case.cmds.iter().all(in_domain) {
            ctx.nondeciding = true;
            return Ok(());
        }
        let caps = caps_of(case);
        TRANSLUCENT.with(|t| t.set(case.depth == 0));

        // 1. every command on its own, fresh encoder: meaning + ground state
        let mut separate: Vec<Vec<Op>> = Vec::with_capacity(case.cmds.len());
        for cmd in case.cmds.iter() {
            let mut encoder = TTYEncoder::new(caps.clone());
            let mut bytes = Vec::new();
            encode(&mut encoder, &mut bytes, cmd)?;
            let (ops, ground) = ctlseq::parse(&bytes);
            ensure!(
                ground,
                format!("{}:not-ground", kind(cmd)),
                "{:?} emitted {:?}, which leaves a control-sequence parser inside a sequence",
                cmd,
                describe(&bytes)
            );
            check_meaning(cmd, case, &bytes, &ops, ctx)?;
            ctx.feat(&format!("cmd.{}", kind(cmd)));
            separate.push(ops);
        }
        ctx.feat(&format!(
            "caps.{}.kitty={}",
            ["truecolor", "eightbit", "gray"][case.depth as usize],
            case.kitty
        ));

        // 1b. the mouse-reporting constructor: whatever was enabled, disabling leaves none of the
        //     three modes set (and enabling selects SGR coordinates plus one tracking mode)
        {
            let (m1, m2) = (case.cmds.len() % 2 == 0, case.depth % 2 == 0);
            let mut encoder = TTYEncoder::new(caps.clone());
            let mut bytes = Vec::new();
            let mut set: std::collections::BTreeSet<u32> = Default::default();
            for (enable, motion) in [(true, m1), (false, m2)] {
                bytes.clear();
                for cmd in TerminalCommand::mouse_events_set(enable, motion) {
                    encoder
                        .encode(&mut bytes, cmd)
                        .map_err(|e| Fail::new("mouse_events_set:encode-error", format!("{e}")))?;
                }
                let (ops, ground) = ctlseq::parse(&bytes);
                ensure!(ground, "mouse_events_set:not-ground", "mouse_events_set({enable}, {motion}) emitted {:?}", describe(&bytes));
                for op in ops {
                    match op {
                        Op::Decset(modes) => set.extend(modes),
                        Op::Decrst(modes) => {
                            for m in modes {
                                set.remove(&m);
                            }
                        }
                        other => fail!(
                            "mouse_events_set:ops",
                            "mouse_events_set({enable}, {motion}) emitted {other:?} ({:?})",
                            describe(&bytes)
                        ),
                    }
                }
                if enable {
                    let tracking = if motion { 1003 } else { 1000 };
                    ensure!(
                        set.contains(&1006) && set.contains(&tracking),
                        "mouse_events_set:ops",
                        "after mouse_events_set(true, {motion}) the modes set are {set:?}"
                    );
                }
            }
            ensure!(
                set.is_empty(),
                "mouse_events_set:ops",
                "after mouse_events_set(true, {m1}) and mouse_events_set(false, {m2}) the modes {set:?} are still set"
            );
            ctx.feat("helper.mouse_events_set");
        }

        // 2. the same commands back-to-back through one encoder into one buffer
        let mut encoder = TTYEncoder::new(caps);
        let mut stream = Vec::new();
        let mut ends = Vec::with_capacity(case.cmds.len());
        for (k, cmd) in case.cmds.iter().enumerate() {
            // Now and then the output refuses a command (EAGAIN on a congested tty): nothing of it
            // reaches the terminal, and what is encoded next must not carry anything of it along.
            if (k + case.cmds.len() + case.depth as usize) % 3 == 0 {
                let refused = &case.cmds[(k * 7 + 3) % case.cmds.len()];
                let result = encoder.encode(&mut Refuse, to_command(refused));
                ctx.feat_if(result.is_err(), "stream.command-refused-by-writer");
            }
            encode(&mut encoder, &mut stream, cmd)?;
            ends.push(stream.len());
        }
        let mut parser = ctlseq::Parser::new();
        let mut start = 0;
        for ((cmd, end), want) in case.cmds.iter().zip(ends).zip(separate.iter()) {
            let mut ops = Vec::new();
            parser.feed(&stream[start..end], &mut ops);
            ensure!(
                parser.in_ground(),
                format!("stream:{}:not-ground", kind(cmd)),
                "in a stream, {:?} emitted {:?} and left the parser in state {}",
                cmd,
                describe(&stream[start..end]),
                parser.state_name()
            );
            ensure!(
                &ops == want,
                format!("stream:{}:differs-from-standalone", kind(cmd)),
                "{:?} at stream offset {} emitted {:?} = {:?}, on its own it meant {:?}",
                cmd,
                start,
                describe(&stream[start..end]),
                ops,
                want
            );
            start = end;
        }
        // and parsed in one go
        let (whole, ground) = ctlseq::parse(&stream);
        let concat: Vec<Op> = separate.into_iter().flatten().collect();
        ensure!(
            ground && whole == concat,
            "stream:concat",
            "stream of {} commands parsed into {} operations, the separate encodings into {}",
            case.cmds.len(),
            whole.len(),
            concat.len()
        );
        ctx.feat_if(case.cmds.len() > 1, "stream.multi");
        ctx.feat_n("commands", case.cmds.len() as u64);
        Ok(())
    }

    fn nontrivial(case: &Case) -> bool {
        !case.cmds.is_empty()
    }

    fn shrink(case: &Case) -> Vec<Case> {
        let mut out: Vec<Case> = shrink_vec(&case.cmds)
            .into_iter()
            .filter(|cmds| !cmds.is_empty())
            .map(|cmds| Case {
                cmds,
                ..case.clone()
            })
            .collect();
        if case.cmds.len() == 1 {
            // simplify the parameters of the one remaining command
            let simpler: Vec<Cmd> = match &case.cmds[0] {
                Cmd::CursorMove { row, col } => vec![
                    Cmd::CursorMove { row: 0, col: *col },
                    Cmd::CursorMove { row: *row, col: 0 },
                ],
                Cmd::Face { fg, bg, flags, ul } => vec![
                    Cmd::Face { fg: None, bg: *bg, flags: *flags, ul: *ul },
                    Cmd::Face { fg: *fg, bg: None, flags: *flags, ul: *ul },
                    Cmd::Face { fg: *fg, bg: *bg, flags: 0, ul: *ul },
                    Cmd::Face { fg: *fg, bg: *bg, flags: *flags, ul: 0 },
                ],
                Cmd::FaceModify {
                    reset,
                    fg,
                    bg,
                    underline,
                    underline_color,
                    bold,
                    italic,
                    blink,
                    strike,
                } => {
                    let this = |reset: bool, fg, bg, underline, underline_color, bold, italic, blink, strike| Cmd::FaceModify {
                        reset,
                        fg,
                        bg,
                        underline,
                        underline_color,
                        bold,
                        italic,
                        blink,
                        strike,
                    };
                    vec![
                        this(false, *fg, *bg, *underline, *underline_color, *bold, *italic, *blink, *strike),
                        this(*reset, None, *bg, *underline, *underline_color, *bold, *italic, *blink, *strike),
                        this(*reset, *fg, None, *underline, *underline_color, *bold, *italic, *blink, *strike),
                        this(*reset, *fg, *bg, None, *underline_color, *bold, *italic, *blink, *strike),
                        this(*reset, *fg, *bg, *underline, None, *bold, *italic, *blink, *strike),
                        this(*reset, *fg, *bg, *underline, *underline_color, None, *italic, *blink, *strike),
                        this(*reset, *fg, *bg, *underline, *underline_color, *bold, None, *blink, *strike),
                        this(*reset, *fg, *bg, *underline, *underline_color, *bold, *italic, None, *strike),
                        this(*reset, *fg, *bg, *underline, *underline_color, *bold, *italic, *blink, None),
                    ]
                }
                _ => vec![],
            };
            for cmd in simpler {
                if cmd != case.cmds[0] {
                    out.push(Case {
                        cmds: vec![cmd],
                        ..case.clone()
                    });
                }
            }
        }
        out
    }

    fn rule() -> &'static str {
        "case = (colour depth, kitty_keyboard, glyphs, stream of 1..=12 commands with concrete parameters); depth x kitty and the kind of the first command are visited round-robin, face attribute sets (32 x 6), DEC modes, palette indices and keyboard levels by a running counter; non-trivial = non-empty stream; distinct = hash of the whole case"
    }

    fn sample(case: &Case) -> serde_json::Value {
        serde_json::json!({
            "depth": case.depth,
            "kitty": case.kitty,
            "cmds": case.cmds.iter().take(4).map(|c| format!("{:?}", c)).collect::<Vec<_>>(),
            "len": case.cmds.len(),
        })
    }
}
