//! C17 — wake-ups and signals are never lost and the tty is restored on every exit path
//!
//! History checker over one totally ordered event log (wake call/return per id, poll
//! call/return/result), input-order checker, and exit-path enumeration on a pseudo-terminal.
use super::pty::{find, Drain, Peer, Pty};
use crate::core::{Ctx, Fail, Prop, Tier};
use crate::rng::Rng;
use crate::{ensure, fail};
use serde::{Deserialize, Serialize};
use std::{
    io::Write,
    sync::{
        atomic::{AtomicBool, AtomicU8, AtomicUsize, Ordering},
        Arc, Mutex,
    },
    time::Duration,
};
use surf_n_term::{
    unix_verif::{self, YieldPoint},
    DecMode, Error, Key, KeyName, SystemTerminal, Terminal, TerminalAction, TerminalCommand, TerminalEvent,
    TerminalWaker,
};

pub struct C17;

#[derive(Clone, Debug, PartialEq, Eq, Hash, Serialize, Deserialize)]
pub enum ExitMode {
    Drop,
    RunHandlerError,
    RunRenderHandlerError,
    HangUp,
    Signal(i32),
    /// the application panics while it owns the terminal (stack unwinding drops it)
    Panic,
    /// ... inside the handler of `run` / `run_render`
    PanicInRun,
    PanicInRunRender,
}

#[derive(Clone, Debug, PartialEq, Eq, Hash, Serialize, Deserialize)]
pub enum XOp {
    Write(usize),
    Flush,
    Poll(u64),
    MouseOn,
    HideCursor,
    AltScreen,
    Key(u8),
    Wake,
}

#[derive(Clone, Debug, Hash, Serialize, Deserialize)]
pub enum Case {
    /// concurrent wakers against a poller; `inject` = per-yield-point probability (percent) that the
    /// hook itself issues a wake at that point; `pending_kb` of output queued first
    Wake {
        wakers: Vec<(usize, u64)>,
        timeouts: Vec<u64>,
        inject: u8,
        delay_us: u64,
        pending_kb: usize,
        seed: u64,
    },
    /// input bytes, window-size signals and wakes while output is pending
    Input {
        keys: Vec<u8>,
        batch: usize,
        pending_kb: usize,
        winch: usize,
        slow: bool,
        seed: u64,
        /// small flushed frames queued before every batch of keys (keeps the tty writable *and*
        /// readable round after round), polled with zero timeouts on a peer that reads at full speed
        #[serde(default)]
        small_frames: usize,
        /// `Terminal::position()` is called this many times while typed keys are still unread;
        /// up to three more keys arrive right behind the terminal's reply, in the same write
        #[serde(default)]
        positions: u8,
    },
    /// reports, keys and mouse sequences (printed by the C04 protocol printer) typed into the pty in
    /// batches of arbitrary size while output is pending: the events must come out as printed
    Events { items: Vec<super::c04::Item>, batches: Vec<usize>, pending_kb: usize, slow: bool, seed: u64 },
    /// a thread issues this many wakes while nobody polls: every call returns (requests coalesce,
    /// they do not queue up behind a full socket), and the next poll reports a wake
    WakeFlood { wakes: usize, seed: u64 },
    /// the terminal emulator stops reading while a lot of output is queued: polls still return in
    /// bounded time and a wake is still delivered; `via_fd` builds the terminal with
    /// `SystemTerminal::new_from_fd` from an ordinary (blocking) descriptor instead of `open`
    Stall { via_fd: bool, kb: usize, seed: u64 },
    /// termination signal must surface as Error::Quit
    Quit {
        signal: i32,
        pending_kb: usize,
        /// a second termination signal is raised after the first one was reported, right before drop
        #[serde(default)]
        again: bool,
        seed: u64,
        /// the signal arrives while `open` is still probing the terminal (n-th select round of it)
        #[serde(default)]
        during_open: u8,
    },
    /// every prefix of the script, ended in the given way
    Exit { script: Vec<XOp>, mode: ExitMode, odd_termios: u64, seed: u64 },
}

// ---------------------------------------------------------------------------
// history

#[derive(Clone, Debug, PartialEq)]
enum Rec {
    WakeCall(usize, u8),
    WakeRet(usize),
    PollCall(usize, Option<u64>),
    /// what the poll returned: "wake", "none", "key", "resize", "other", "err"
    PollRet(usize, &'static str),
}

#[derive(Clone)]
struct History(Arc<Mutex<Vec<Rec>>>);

impl History {
    fn new() -> Self {
        History(Arc::new(Mutex::new(Vec::new())))
    }
    fn push(&self, rec: Rec) {
        self.0.lock().unwrap().push(rec);
    }
    fn take(&self) -> Vec<Rec> {
        std::mem::take(&mut *self.0.lock().unwrap())
    }
}

static WINDOW: AtomicU8 = AtomicU8::new(0);
const WINDOW_NAMES: [&str; 5] = ["outside-poll-syscalls", "before-select", "after-select", "before-waker-read", "before-tty-read"];

fn window_of(p: YieldPoint) -> u8 {
    match p {
        YieldPoint::BeforeSelect => 1,
        YieldPoint::AfterSelect => 2,
        YieldPoint::BeforeWakerRead => 3,
        YieldPoint::BeforeTtyRead => 4,
    }
}

struct YieldGuard;
impl Drop for YieldGuard {
    fn drop(&mut self) {
        unix_verif::set_yield(None);
        WINDOW.store(0, Ordering::SeqCst);
    }
}

fn do_wake(history: &History, ids: &AtomicUsize, waker: &TerminalWaker) -> bool {
    let id = ids.fetch_add(1, Ordering::SeqCst);
    history.push(Rec::WakeCall(id, WINDOW.load(Ordering::SeqCst)));
    let ok = waker.wake().is_ok();
    history.push(Rec::WakeRet(id));
    ok
}

fn classify(r: &Result<Option<TerminalEvent>, Error>) -> &'static str {
    match r {
        Ok(None) => "none",
        Ok(Some(TerminalEvent::Wake)) => "wake",
        Ok(Some(TerminalEvent::Key(_))) => "key",
        Ok(Some(TerminalEvent::Resize(_))) => "resize",
        Ok(Some(_)) => "other",
        Err(Error::Quit) => "quit",
        Err(_) => "err",
    }
}

/// Every completed wake must be covered: with P the first poll that started after the wake
/// returned and E the first poll at or after P that returned "none", some poll Q with
/// Q.return after the wake's call and Q.call not after E.call returned Wake.
fn check_wakes(hist: &[Rec], ctx: &mut Ctx) -> Result<(), Fail> {
    // index polls
    struct Poll {
        call: usize,
        ret: usize,
        result: &'static str,
    }
    let mut polls: Vec<Poll> = Vec::new();
    let mut open: std::collections::HashMap<usize, usize> = Default::default();
    for (t, rec) in hist.iter().enumerate() {
        match rec {
            Rec::PollCall(i, _) => {
                open.insert(*i, polls.len());
                polls.push(Poll { call: t, ret: usize::MAX, result: "open" });
            }
            Rec::PollRet(i, r) => {
                if let Some(p) = open.get(i) {
                    polls[*p].ret = t;
                    polls[*p].result = r;
                }
            }
            _ => {}
        }
    }
    let mut wakes_called = 0usize;
    let mut wake_events = 0usize;
    for (t, rec) in hist.iter().enumerate() {
        match rec {
            Rec::WakeCall(..) => wakes_called += 1,
            Rec::PollRet(_, "wake") => {
                wake_events += 1;
                ensure!(
                    wake_events <= wakes_called,
                    "wake:spurious",
                    "poll returned Wake #{wake_events} at history step {t} but only {wakes_called} wake calls had been issued"
                );
            }
            _ => {}
        }
    }
    ctx.feat_n("wake.calls", wakes_called as u64);
    ctx.feat_n("wake.events", wake_events as u64);
    ctx.feat_n("wake.coalesced", wakes_called.saturating_sub(wake_events) as u64);
    for (t, rec) in hist.iter().enumerate() {
        let Rec::WakeCall(id, window) = rec else { continue };
        let Some(ret) = hist.iter().position(|r| *r == Rec::WakeRet(*id)) else { continue };
        ctx.feat(&format!("wake.window.{}", WINDOW_NAMES[*window as usize]));
        // P: first poll called after the wake returned
        let Some(p) = polls.iter().position(|p| p.call > ret) else {
            ctx.feat("wake.after-last-poll(not judged)");
            continue;
        };
        // E: first poll at or after P that returned none (end of the drain)
        let e = polls[p..].iter().position(|q| q.result == "none").map(|k| p + k);
        let Some(e) = e else {
            ctx.feat("wake.no-complete-drain-after(not judged)");
            continue;
        };
        let covered = polls[..=e].iter().any(|q| q.result == "wake" && q.ret > t);
        if !covered {
            let in_flight = polls.iter().any(|q| q.call < t && q.ret > t);
            fail!(
                "wake:lost",
                "wake #{id} (called at history step {t}, returned at {ret}, window {}) was followed by polls up to a complete drain (poll returning None at step {}) and none of them returned Wake; a poll was in flight at the call: {in_flight}",
                WINDOW_NAMES[*window as usize],
                polls[e].ret
            );
        }
    }
    Ok(())
}

// ---------------------------------------------------------------------------
// session helpers

/// NOTE: field order is drop order: the terminal first (its closing handshake needs the peer),
/// then the peer thread (it uses the master descriptor), then the descriptors
struct Session {
    term: Option<SystemTerminal>,
    peer: Peer,
    pty: Pty,
}

fn open_session(drain: Drain, seed: u64, odd_termios: Option<u64>) -> Result<(Session, Option<super::pty::TermiosSnapshot>), Fail> {
    std::env::set_var("TERM", "xterm-256color");
    let pty = Pty::open(24, 80, 24 * 16, 80 * 8).map_err(|e| Fail::new("rig:openpt", format!("{e}")))?;
    if let Some(v) = odd_termios {
        pty.set_odd_termios(v);
    }
    let before = pty.termios();
    let peer = Peer::start(pty.master, drain, seed);
    let _ = unix_verif::take_log();
    let term = SystemTerminal::open(&pty.slave_path).map_err(|e| Fail::new("rig:open", format!("open failed: {e:?}")))?;
    Ok((Session { pty, peer, term: Some(term) }, before))
}

fn filler(n: usize) -> Vec<u8> {
    (0..n).map(|i| b'a' + (i % 23) as u8).collect()
}

fn poll_rec(term: &mut SystemTerminal, history: &History, idx: &mut usize, timeout: Option<u64>) -> Result<Option<TerminalEvent>, Error> {
    let i = *idx;
    *idx += 1;
    history.push(Rec::PollCall(i, timeout));
    let r = term.poll(timeout.map(Duration::from_millis));
    history.push(Rec::PollRet(i, classify(&r)));
    r
}

fn check_wake_case(
    wakers: &[(usize, u64)],
    timeouts: &[u64],
    inject: u8,
    delay_us: u64,
    pending_kb: usize,
    seed: u64,
    ctx: &mut Ctx,
) -> Result<(), Fail> {
    let drain = if pending_kb > 0 { Drain::Slow { max_read: 2048, pause_us: 150 } } else { Drain::Fast };
    let (mut session, _) = open_session(drain, seed, None)?;
    let mut term = session.term.take().unwrap();
    let history = History::new();
    let ids = Arc::new(AtomicUsize::new(0));
    let waker = term.waker();

    // hook: widen the windows between the system calls of poll and let wakes land exactly there
    let _guard = YieldGuard;
    {
        let history = history.clone();
        let ids = ids.clone();
        let waker = waker.clone();
        let rng = Mutex::new(Rng::new(seed ^ 0x77));
        unix_verif::set_yield(Some(Arc::new(move |point| {
            WINDOW.store(window_of(point), Ordering::SeqCst);
            let (do_inject, pause) = {
                let mut rng = rng.lock().unwrap();
                (rng.below(100) < inject as usize, if delay_us > 0 { rng.below_u64(delay_us + 1) } else { 0 })
            };
            if do_inject {
                do_wake(&history, &ids, &waker);
            }
            if pause > 0 {
                std::thread::sleep(Duration::from_micros(pause));
            }
            WINDOW.store(0, Ordering::SeqCst);
        })));
    }

    if pending_kb > 0 {
        term.write_all(&filler(pending_kb * 1024)).map_err(|e| Fail::new("term:write-error", format!("{e}")))?;
        ctx.feat("wake.with-output-pending");
    }

    let done = Arc::new(AtomicBool::new(false));
    let running = Arc::new(AtomicUsize::new(wakers.len()));
    let mut handles = Vec::new();
    // in half of the sessions somebody is typing as well, so that wakes share the event
    // queue with key events and the tty-read window exists
    let typing = seed & 1 == 1;
    let typist = if typing {
        let master = session.pty.master;
        let done = done.clone();
        ctx.feat("wake.with-typing");
        Some(std::thread::spawn(move || {
            let mut n = 0u64;
            while !done.load(Ordering::SeqCst) && n < 20_000 {
                let b = [b'a' + (n % 26) as u8];
                unsafe {
                    libc::write(master, b.as_ptr() as *const _, 1);
                }
                n += 1;
                std::thread::sleep(Duration::from_micros(150));
            }
        }))
    } else {
        None
    };
    for (k, (count, gap_us)) in wakers.iter().enumerate() {
        let (history, ids, waker, running) = (history.clone(), ids.clone(), waker.clone(), running.clone());
        let (count, gap_us) = (*count, *gap_us);
        let mut rng = Rng::new(seed ^ (k as u64 + 1) * 7919);
        handles.push(std::thread::spawn(move || {
            for _ in 0..count {
                if gap_us > 0 {
                    let us = rng.below_u64(gap_us + 1);
                    if us > 50 {
                        std::thread::sleep(Duration::from_micros(us));
                    } else {
                        for _ in 0..us * 20 {
                            std::hint::spin_loop();
                        }
                    }
                }
                do_wake(&history, &ids, &waker);
            }
            running.fetch_sub(1, Ordering::SeqCst);
        }));
    }

    let mut idx = 0usize;
    let mut round = 0usize;
    let mut quit = false;
    loop {
        let finished_before = running.load(Ordering::SeqCst) == 0;
        let timeout = if timeouts.is_empty() { Some(1) } else { Some(timeouts[round % timeouts.len()]) };
        if let Err(e) = poll_rec(&mut term, &history, &mut idx, timeout) {
            quit = true;
            ctx.feat(&format!("wake.poll-error.{}", classify(&Err(e))));
            break;
        }
        // drain: poll(0) until nothing is pending
        let mut guard = 0;
        loop {
            match poll_rec(&mut term, &history, &mut idx, Some(0)) {
                Ok(None) => break,
                Ok(Some(_)) => {}
                Err(_) => {
                    quit = true;
                    break;
                }
            }
            guard += 1;
            if guard > 100_000 {
                break;
            }
        }
        if quit || finished_before || round > 20_000 {
            break;
        }
        round += 1;
    }
    done.store(true, Ordering::SeqCst);
    for h in handles {
        let _ = h.join();
    }
    if let Some(t) = typist {
        let _ = t.join();
    }
    drop(_guard);
    let hist = history.take();
    ctx.feat("wake.sessions");
    ctx.feat_n("wake.polls", idx as u64);
    drop(term);
    drop(session);
    if quit {
        ctx.nondeciding = true;
        return Ok(());
    }
    if round > 20_000 {
        ctx.nondeciding = true;
        ctx.feat("wake.round-watchdog");
        return Ok(());
    }
    check_wakes(&hist, ctx)
}

#[allow(clippy::too_many_arguments)]
fn check_input_case(
    keys: &[u8],
    batch: usize,
    pending_kb: usize,
    winch: usize,
    slow: bool,
    seed: u64,
    small_frames: usize,
    positions: u8,
    ctx: &mut Ctx,
) -> Result<(), Fail> {
    let mut positions_left = positions;
    let drain = if small_frames > 0 {
        Drain::Fast
    } else if slow {
        Drain::Slow { max_read: 1024, pause_us: 200 }
    } else {
        Drain::Bursty { burst: 4096, pause_us: 500 }
    };
    let (mut session, _) = open_session(drain, seed, None)?;
    let mut term = session.term.take().unwrap();
    if pending_kb > 0 {
        term.write_all(&filler(pending_kb * 1024)).map_err(|e| Fail::new("term:write-error", format!("{e}")))?;
    }
    let waker = term.waker();
    let mut got: Vec<u8> = Vec::new();
    let mut sent = 0usize;
    let mut resizes_seen = 0usize;
    let mut winch_raised = 0usize;
    let mut wakes_seen = 0usize;
    let mut wakes_sent = 0usize;
    let mut pending_while_input = 0u64;
    let mut rng = Rng::new(seed);
    let mut steps = 0usize;
    // a window-size signal raised before a poll starts must show up by the end of the drain
    let mut winch_outstanding = false;
    loop {
        if sent < keys.len() {
            let n = batch.max(1).min(keys.len() - sent);
            if !session.pty.write_master(&keys[sent..sent + n]) {
                ctx.nondeciding = true;
                return Ok(());
            }
            sent += n;
            if small_frames > 0 {
                for k in 0..small_frames {
                    term.write_all(format!("frame {k:04} ").as_bytes())
                        .map_err(|e| Fail::new("term:write-error", format!("{e}")))?;
                    term.flush().map_err(|e| Fail::new("term:flush-error", format!("{e}")))?;
                }
            }
            if term.frames_pending() > 0 {
                pending_while_input += 1;
            }
        }
        if positions_left > 0 && sent < keys.len() && rng.chance(1, 2) {
            // the application asks for the cursor position while the keys typed above are unread;
            // a few more keys arrive right behind the terminal's answer (same write as the DA1 reply)
            positions_left -= 1;
            // once per session the terminal is slow to answer (1.3 s): position() has to wait for
            // the answer, and what arrives meanwhile - a wake here - must not get lost
            let slow_answer = positions_left == 0 && positions >= 3 && rng.chance(1, 2);
            if slow_answer {
                session.peer.shared.reply_delay_ms.store(1300, Ordering::SeqCst);
                let _ = waker.wake();
                wakes_sent += 1;
                ctx.feat("input.position-call-answered-late");
            }
            let extra = &keys[sent..(sent + 3).min(keys.len())];
            *session.peer.shared.after_da1.lock().unwrap() = extra.to_vec();
            sent += extra.len();
            match term.position() {
                Ok(pos) => ensure!(
                    pos == surf_n_term::Position::new(2, 3),
                    "position:wrong",
                    "the terminal answered ESC[3;4R, position() returned {pos:?}"
                ),
                Err(e) => fail!("input:poll-error", "position() failed while input was arriving: {e:?}"),
            }
            session.peer.shared.reply_delay_ms.store(0, Ordering::SeqCst);
            ctx.feat("input.position-calls-with-unread-input");
        }
        if winch_raised < winch && rng.chance(1, 2) {
            session.pty.resize(24 + winch_raised as u16, 80);
            unsafe {
                libc::raise(libc::SIGWINCH);
            }
            winch_raised += 1;
            winch_outstanding = true;
        }
        if rng.chance(1, 3) {
            let _ = waker.wake();
            wakes_sent += 1;
        }
        // one blocking poll then drain
        let mut first = true;
        let mut saw_resize = false;
        loop {
            let t = if first && small_frames == 0 { Some(Duration::from_millis(2)) } else { Some(Duration::from_millis(0)) };
            first = false;
            match term.poll(t) {
                Ok(None) => break,
                Ok(Some(TerminalEvent::Key(Key { name: KeyName::Char(c), .. }))) => got.push(c as u32 as u8),
                Ok(Some(TerminalEvent::Resize(_))) => {
                    resizes_seen += 1;
                    saw_resize = true;
                }
                Ok(Some(TerminalEvent::Wake)) => wakes_seen += 1,
                Ok(Some(_)) => {}
                Err(e) => fail!("input:poll-error", "poll failed while input was arriving: {e:?}"),
            }
        }
        // bounded progress: the bytes typed before this step's polls were in the tty when the first
        // poll started; once poll reports that nothing more is available they have all been delivered
        // (each is a printable character: no look-ahead keeps them back)
        ensure!(
            got.len() >= sent,
            "input:not-delivered-while-output-pending",
            "{sent} key bytes were in the tty before the polls of step {steps}, only {} key events had been delivered when poll reported nothing more ({} frames still pending)",
            got.len(),
            term.frames_pending()
        );
        if winch_outstanding {
            ensure!(
                saw_resize,
                "signal:winch-lost",
                "SIGWINCH raised before a poll + complete drain, but no Resize event was returned (raised {winch_raised}, seen {resizes_seen})"
            );
            winch_outstanding = false;
        }
        steps += 1;
        if sent >= keys.len() && winch_raised >= winch && got.len() >= keys.len() {
            break;
        }
        if steps > 20_000 {
            break;
        }
    }
    // the pty may still hold input: keep draining for a bounded number of idle rounds
    let mut idle = 0;
    while got.len() < keys.len() && idle < 200 {
        match term.poll(Some(Duration::from_millis(5))) {
            Ok(Some(TerminalEvent::Key(Key { name: KeyName::Char(c), .. }))) => {
                got.push(c as u32 as u8);
                idle = 0;
            }
            Ok(Some(_)) => {}
            Ok(None) => idle += 1,
            Err(e) => fail!("input:poll-error", "poll failed: {e:?}"),
        }
    }
    drop(term);
    drop(session);
    ctx.feat("input.sessions");
    ctx.feat_if(small_frames > 0, "input.sessions.small-frames-zero-timeout-fast-peer");
    ctx.feat_n("input.keys", keys.len() as u64);
    ctx.feat_n("input.batches-while-output-pending", pending_while_input);
    ctx.feat_n("signal.winch-raised", winch_raised as u64);
    ctx.feat_n("signal.resize-events", resizes_seen as u64);
    ctx.feat_n("input.wakes-sent", wakes_sent as u64);
    ctx.feat_n("input.wakes-seen", wakes_seen as u64);
    ensure!(
        got == keys,
        if got.len() < keys.len() { "input:lost" } else if got.len() > keys.len() { "input:duplicated" } else { "input:reordered" },
        "{} key bytes were typed, {} key events arrived; first difference at index {:?}",
        keys.len(),
        got.len(),
        got.iter().zip(keys.iter()).position(|(a, b)| a != b)
    );
    ensure!(
        wakes_sent == 0 || wakes_seen > 0,
        "wake:lost",
        "{wakes_sent} wakes issued between polls, none delivered"
    );
    Ok(())
}

fn check_events_case(
    items: &[super::c04::Item],
    batches: &[usize],
    pending_kb: usize,
    slow: bool,
    seed: u64,
    ctx: &mut Ctx,
) -> Result<(), Fail> {
    let drain = if slow { Drain::Slow { max_read: 1024, pause_us: 200 } } else { Drain::Fast };
    let (mut session, _) = open_session(drain, seed, None)?;
    let mut term = session.term.take().unwrap();
    if pending_kb > 0 {
        term.write_all(&filler(pending_kb * 1024)).map_err(|e| Fail::new("term:write-error", format!("{e}")))?;
    }
    let mut bytes = Vec::new();
    let mut expected = Vec::new();
    for item in items {
        bytes.extend_from_slice(&item.enc);
        match super::c04::to_event(&item.ev) {
            Some(ev) => expected.push(ev),
            None => {
                ctx.nondeciding = true;
                return Ok(());
            }
        }
    }
    let mut got: Vec<TerminalEvent> = Vec::new();
    let mut sent = 0usize;
    let mut bi = 0usize;
    let mut idle = 0usize;
    let mut crossings = 0u64;
    while got.len() < expected.len() && idle < 300 {
        if sent < bytes.len() {
            let n = batches.get(bi % batches.len().max(1)).copied().unwrap_or(64).clamp(1, 2048).min(bytes.len() - sent);
            bi += 1;
            if !session.pty.write_master(&bytes[sent..sent + n]) {
                ctx.nondeciding = true;
                return Ok(());
            }
            sent += n;
            if n > 1024 {
                crossings += 1;
            }
        }
        let mut first = true;
        loop {
            let t = if first { 2 } else { 0 };
            first = false;
            match term.poll(Some(Duration::from_millis(t))) {
                Ok(None) => {
                    if sent >= bytes.len() {
                        idle += 1;
                    }
                    break;
                }
                Ok(Some(TerminalEvent::Wake)) | Ok(Some(TerminalEvent::Resize(_))) => {}
                Ok(Some(ev)) => {
                    got.push(ev);
                    idle = 0;
                }
                Err(e) => fail!("input:poll-error", "poll failed while input was arriving: {e:?}"),
            }
        }
    }
    // anything extra that is still pending
    while let Ok(Some(ev)) = term.poll(Some(Duration::from_millis(2))) {
        if !matches!(ev, TerminalEvent::Wake | TerminalEvent::Resize(_)) {
            got.push(ev);
        }
    }
    drop(term);
    drop(session);
    ctx.feat("events.sessions");
    ctx.feat_n("events.items", items.len() as u64);
    ctx.feat_n("events.bytes", bytes.len() as u64);
    ctx.feat_n("events.batches-larger-than-read-buffer", crossings);
    if got != expected {
        let at = got.iter().zip(expected.iter()).position(|(a, b)| a != b).unwrap_or(got.len().min(expected.len()));
        fail!(
            if got.len() < expected.len() && at == got.len() { "events:lost" } else { "events:differ" },
            "{} sequences ({} bytes) were typed into the pty; event #{at} is {:?}, expected {:?} ({} events arrived, {} expected); item = {:?}",
            items.len(),
            bytes.len(),
            got.get(at),
            expected.get(at),
            got.len(),
            expected.len(),
            items.get(at).map(|i| super::dec_common::esc(&i.enc))
        );
    }
    Ok(())
}

fn check_quit_case(signal: i32, pending_kb: usize, again: bool, seed: u64, ctx: &mut Ctx) -> Result<(), Fail> {
    // with a second signal pending at drop the wait for the sync report is cut short, so the
    // closing sequence is only judged when nothing else is queued in front of it
    let pending_kb = if again { 0 } else { pending_kb };
    let (mut session, before) = open_session(Drain::Fast, seed, Some(seed % 8))?;
    let mut term = session.term.take().unwrap();
    if pending_kb > 0 {
        let _ = term.write_all(&filler(pending_kb * 1024));
    }
    let _ = term.poll(Some(Duration::from_millis(0)));
    unsafe {
        libc::raise(signal);
    }
    let mut result = "none";
    for _ in 0..50 {
        let r = term.poll(Some(Duration::from_millis(2)));
        result = classify(&r);
        if r.is_err() {
            break;
        }
    }
    ctx.feat(&format!("quit.signal.{signal}"));
    ensure!(
        result == "quit",
        "signal:quit-not-reported",
        "signal {signal} was raised but the following polls returned {result} instead of Error::Quit"
    );
    if again {
        // impatient user: another termination signal is pending while the terminal is released
        unsafe {
            libc::raise(signal);
        }
        ctx.feat("quit.second-signal-pending-at-drop");
    }
    drop(term);
    check_restored(&session, before, "after-quit-signal", true, ctx)?;
    Ok(())
}

/// Wakes issued from another thread while the application is busy elsewhere (it does not poll).
/// The calls must come back - a wake that blocks until somebody polls can deadlock a program whose
/// poller waits for the waking thread. Verdict in logical terms: the waking thread is finished
/// before the first poll is made; the wait for it is bounded (5 s) and generous (the calls take
/// microseconds).
fn check_wake_flood_case(wakes: usize, seed: u64, ctx: &mut Ctx) -> Result<(), Fail> {
    let (mut session, before) = open_session(Drain::Fast, seed, None)?;
    let mut term = session.term.take().unwrap();
    let waker = term.waker();
    let done = Arc::new(std::sync::atomic::AtomicBool::new(false));
    let issued = Arc::new(AtomicUsize::new(0));
    let handle = {
        let (done, issued) = (done.clone(), issued.clone());
        std::thread::spawn(move || {
            for _ in 0..wakes {
                if waker.wake().is_err() {
                    break;
                }
                issued.fetch_add(1, Ordering::SeqCst);
            }
            done.store(true, Ordering::SeqCst);
        })
    };
    let mut waited = 0;
    while !done.load(Ordering::SeqCst) && waited < 500 {
        std::thread::sleep(Duration::from_millis(10));
        waited += 1;
    }
    let finished_unpolled = done.load(Ordering::SeqCst);
    let issued_before_poll = issued.load(Ordering::SeqCst);
    // now poll: this also releases a waker that was stuck
    let mut wake_seen = false;
    for _ in 0..200 {
        match term.poll(Some(Duration::from_millis(5))) {
            Ok(Some(TerminalEvent::Wake)) => wake_seen = true,
            Ok(_) => {}
            Err(e) => fail!("input:poll-error", "poll failed after a flood of wakes: {e:?}"),
        }
        if wake_seen && done.load(Ordering::SeqCst) {
            break;
        }
    }
    let _ = handle.join();
    ctx.feat("wake-flood.sessions");
    ctx.feat_n("wake-flood.calls", issued.load(Ordering::SeqCst) as u64);
    ensure!(
        finished_unpolled,
        "wake:blocks-when-unpolled",
        "{wakes} wakes issued by a thread while nobody polled: after 5 s only {issued_before_poll} calls had returned (the rest went through once polling started)"
    );
    ensure!(wake_seen, "wake:lost", "{wakes} wakes were issued before the first poll, no Wake event was delivered");
    drop(term);
    check_restored(&session, before, "after-wake-flood", true, ctx)?;
    Ok(())
}

/// The peer stops reading (a stalled terminal emulator) while hundreds of KiB are queued. While it
/// is stalled every `poll(Some(20 ms))` must come back, and a wake issued meanwhile must be delivered.
/// A helper thread resumes the peer after 4 s whatever happens, so a poll that blocks inside
/// `write(2)` ends; it is recognised by the fact that no poll returned while the peer was stalled.
fn check_stall_case(via_fd: bool, kb: usize, seed: u64, ctx: &mut Ctx) -> Result<(), Fail> {
    use std::os::fd::{FromRawFd, OwnedFd};
    std::env::set_var("TERM", "xterm-256color");
    let pty = Pty::open(24, 80, 24 * 16, 80 * 8).map_err(|e| Fail::new("rig:openpt", format!("{e}")))?;
    let before = pty.termios();
    let peer = Peer::start(pty.master, Drain::Fast, seed);
    let _ = unix_verif::take_log();
    let term = if via_fd {
        let path = std::ffi::CString::new(pty.slave_path.clone()).unwrap();
        let fd = unsafe { libc::open(path.as_ptr(), libc::O_RDWR | libc::O_NOCTTY) };
        ensure!(fd >= 0, "rig:open", "open({}) failed", pty.slave_path);
        SystemTerminal::new_from_fd(unsafe { OwnedFd::from_raw_fd(fd) })
    } else {
        SystemTerminal::open(&pty.slave_path)
    }
    .map_err(|e| Fail::new("rig:open", format!("open failed: {e:?}")))?;
    let mut session = Session { term: Some(term), peer, pty };
    let mut term = session.term.take().unwrap();
    let waker = term.waker();

    session.peer.park();
    term.write_all(&filler(kb * 1024)).map_err(|e| Fail::new("term:write-error", format!("{e}")))?;
    let resume = {
        let shared = session.peer.shared.clone();
        let cancel = Arc::new(std::sync::atomic::AtomicBool::new(false));
        let c2 = cancel.clone();
        let handle = std::thread::spawn(move || {
            for _ in 0..400 {
                if c2.load(Ordering::SeqCst) {
                    return;
                }
                std::thread::sleep(Duration::from_millis(10));
            }
            shared.paused.store(false, Ordering::SeqCst);
        });
        (cancel, handle)
    };
    let mut returned_while_stalled = 0u32;
    let mut wake_seen = false;
    for n in 0..6 {
        if n == 1 {
            let _ = waker.wake();
        }
        let r = term.poll(Some(Duration::from_millis(20)));
        let still_stalled = session.peer.shared.paused.load(Ordering::SeqCst);
        match r {
            Ok(Some(TerminalEvent::Wake)) if still_stalled => wake_seen = true,
            Ok(_) => {}
            Err(e) => {
                resume.0.store(true, Ordering::SeqCst);
                let _ = resume.1.join();
                fail!("input:poll-error", "poll failed while the terminal was stalled: {e:?}")
            }
        }
        if still_stalled {
            returned_while_stalled += 1;
        }
    }
    resume.0.store(true, Ordering::SeqCst);
    let _ = resume.1.join();
    session.peer.shared.paused.store(false, Ordering::SeqCst);
    ctx.feat("stall.sessions");
    ctx.feat_if(via_fd, "stall.sessions.new_from_fd");
    ensure!(
        returned_while_stalled >= 1,
        "poll:blocked-while-terminal-stalled",
        "{kb} KiB queued, the terminal not reading: none of six poll(20 ms) calls returned before the terminal resumed (terminal built with {})",
        if via_fd { "new_from_fd" } else { "open" }
    );
    ensure!(
        wake_seen || returned_while_stalled < 3,
        "wake:lost",
        "a wake issued while the terminal was stalled was not delivered by the {returned_while_stalled} polls that returned meanwhile"
    );
    // let everything out, then release
    for _ in 0..2000 {
        if term.frames_pending() == 0 {
            break;
        }
        let _ = term.poll(Some(Duration::from_millis(20)));
    }
    drop(term);
    check_restored(&session, before, "after-stall", true, ctx)?;
    Ok(())
}

/// A termination signal that arrives while `SystemTerminal::open` probes the terminal: either `open`
/// fails with `Error::Quit` or the quit surfaces from the polls that follow; in both cases the tty is
/// left as it was found.
fn check_quit_during_open(signal: i32, nth: u8, seed: u64, ctx: &mut Ctx) -> Result<(), Fail> {
    std::env::set_var("TERM", "xterm-256color");
    let pty = Pty::open(24, 80, 24 * 16, 80 * 8).map_err(|e| Fail::new("rig:openpt", format!("{e}")))?;
    pty.set_odd_termios(seed % 8);
    let before = pty.termios();
    let peer = Peer::start(pty.master, Drain::Fast, seed);
    let _ = unix_verif::take_log();
    // raised from inside the n-th select round of the probe, i.e. certainly after the terminal has
    // installed its signal delivery and certainly before `open` returns
    let rounds = Arc::new(AtomicUsize::new(0));
    let raised = Arc::new(AtomicUsize::new(0));
    {
        let (rounds, raised) = (rounds.clone(), raised.clone());
        unix_verif::set_yield(Some(Arc::new(move |p| {
            if p == YieldPoint::BeforeSelect && rounds.fetch_add(1, Ordering::SeqCst) + 1 == nth as usize {
                raised.store(1, Ordering::SeqCst);
                unsafe {
                    libc::raise(signal);
                }
            }
        })));
    }
    let guard = YieldGuard;
    let opened = SystemTerminal::open(&pty.slave_path);
    drop(guard);
    let was_raised = raised.load(Ordering::SeqCst) == 1;
    let mut session = Session { term: None, peer, pty };
    match opened {
        Err(Error::Quit) => {
            ensure!(was_raised, "harness:quit-without-signal", "open reported Quit although no signal was raised");
            ctx.feat("quit.during-open.reported-by-open");
        }
        Err(e) => return Err(Fail::new("rig:open", format!("open failed: {e:?}"))),
        Ok(mut term) => {
            if was_raised {
                let mut result = "none";
                for _ in 0..50 {
                    let r = term.poll(Some(Duration::from_millis(2)));
                    result = classify(&r);
                    if r.is_err() {
                        break;
                    }
                }
                ensure!(
                    result == "quit",
                    "signal:quit-not-reported:during-open",
                    "signal {signal} was raised in select round {nth} of SystemTerminal::open; open returned Ok and the following polls returned {result} instead of Error::Quit"
                );
                ctx.feat("quit.during-open.reported-by-later-poll");
            } else {
                ctx.feat("quit.during-open.probe-finished-before-round(not judged)");
            }
            session.term = Some(term);
        }
    }
    drop(session.term.take());
    check_restored(&session, before, "after-quit-signal-during-open", true, ctx)?;
    ctx.feat(&format!("quit.signal.{signal}"));
    Ok(())
}

/// termios equal to the state found at open + closing sequence delivered
fn check_restored(
    session: &Session,
    before: Option<super::pty::TermiosSnapshot>,
    what: &str,
    peer_open: bool,
    ctx: &mut Ctx,
) -> Result<(), Fail> {
    let after = session.pty.termios();
    match (&before, &after) {
        (Some(b), Some(a)) => {
            ensure!(
                a == b,
                "exit:termios-not-restored",
                "{what}: line settings after the terminal object was released differ from those found at open: lflag {:#x} -> {:#x}, iflag {:#x} -> {:#x}, oflag {:#x} -> {:#x}, cc changed: {}",
                b.lflag,
                a.lflag,
                b.iflag,
                a.iflag,
                b.oflag,
                a.oflag,
                a.cc != b.cc
            );
            ctx.feat("exit.termios-compared");
        }
        _ => ctx.feat("exit.termios-unreadable(not judged)"),
    }
    if peer_open {
        // closing sequence: cursor shown, the three mouse modes off, after everything else
        let needles: [&[u8]; 4] = [b"\x1b[?25h", b"\x1b[?1003l", b"\x1b[?1006l", b"\x1b[?1000l"];
        let ok = session.peer.wait_for(
            |rec| {
                // look after the last application byte: the epilogue is the tail of the stream
                let tail_start = rec.len().saturating_sub(200);
                needles.iter().all(|n| find(rec, n, tail_start).is_some())
            },
            Duration::from_millis(1500),
        );
        if !ok {
            let rec = session.peer.received();
            let tail = &rec[rec.len().saturating_sub(120)..];
            fail!(
                "exit:closing-sequence-missing",
                "{what}: the peer is still open but did not receive cursor-show and the three mouse-off sequences at the end of the stream; tail = {}",
                super::dec_common::esc(tail)
            );
        }
        ctx.feat("exit.closing-sequence-seen");
    }
    Ok(())
}

#[derive(Debug)]
struct StopHere;
impl From<Error> for StopHere {
    fn from(_: Error) -> Self {
        StopHere
    }
}

fn do_xop(term: &mut SystemTerminal, session_pty: &Pty, waker: &TerminalWaker, op: &XOp) {
    match op {
        XOp::Write(n) => {
            let _ = term.write_all(&filler(*n));
        }
        XOp::Flush => {
            let _ = term.flush();
        }
        XOp::Poll(ms) => {
            let _ = term.poll(Some(Duration::from_millis(*ms)));
        }
        XOp::MouseOn => {
            let _ = term.execute_many(TerminalCommand::mouse_events_set(true, true));
        }
        XOp::HideCursor => {
            let _ = term.execute(TerminalCommand::visible_cursor_set(false));
        }
        XOp::AltScreen => {
            let _ = term.execute(TerminalCommand::DecModeSet { enable: true, mode: DecMode::AltScreen });
        }
        XOp::Key(b) => {
            session_pty.write_master(&[*b]);
        }
        XOp::Wake => {
            let _ = waker.wake();
        }
    }
}

fn check_exit_case(script: &[XOp], mode: &ExitMode, odd: u64, seed: u64, ctx: &mut Ctx) -> Result<(), Fail> {
    for k in 0..=script.len() {
        let (mut session, before) = open_session(Drain::Fast, seed ^ k as u64, Some(odd))?;
        let mut term = session.term.take().unwrap();
        let waker = term.waker();
        let what = format!("exit {mode:?} after {k} of {} steps", script.len());
        let mut peer_open = true;
        match mode {
            ExitMode::Drop => {
                for op in &script[..k] {
                    do_xop(&mut term, &session.pty, &waker, op);
                }
                drop(term);
            }
            ExitMode::HangUp => {
                for op in &script[..k] {
                    do_xop(&mut term, &session.pty, &waker, op);
                }
                session.peer.park();
                session.pty.close_master();
                peer_open = false;
                // the application notices on its next polls
                let mut saw_quit = false;
                for _ in 0..20 {
                    if let Err(e) = term.poll(Some(Duration::from_millis(1))) {
                        saw_quit = matches!(e, Error::Quit) || true;
                        break;
                    }
                }
                ctx.feat_if(saw_quit, "exit.hangup-reported");
                drop(term);
            }
            ExitMode::Signal(sig) => {
                for op in &script[..k] {
                    do_xop(&mut term, &session.pty, &waker, op);
                }
                unsafe {
                    libc::raise(*sig);
                }
                let mut quit = false;
                for _ in 0..50 {
                    if let Err(Error::Quit) = term.poll(Some(Duration::from_millis(2))) {
                        quit = true;
                        break;
                    }
                }
                ensure!(quit, "signal:quit-not-reported", "{what}: signal {sig} did not surface as Error::Quit");
                drop(term);
            }
            ExitMode::Panic | ExitMode::PanicInRun | ExitMode::PanicInRunRender => {
                let pty = &session.pty;
                let mode = mode.clone();
                let unwound = std::panic::catch_unwind(std::panic::AssertUnwindSafe(move || {
                    let mut term = term;
                    match mode {
                        ExitMode::Panic => {
                            for op in &script[..k] {
                                do_xop(&mut term, pty, &waker, op);
                            }
                            panic!("injected application panic");
                        }
                        ExitMode::PanicInRun => {
                            let mut step = 0usize;
                            let _: Result<(), StopHere> = term.run(Some(Duration::from_millis(0)), |term, _ev| {
                                if step >= k {
                                    panic!("injected application panic");
                                }
                                do_xop(term, pty, &waker, &script[step]);
                                step += 1;
                                Ok(TerminalAction::Sleep(Duration::from_millis(0)))
                            });
                        }
                        _ => {
                            let mut step = 0usize;
                            let _: Result<(), StopHere> = term.run_render(|term, _ev, _surf| {
                                if step >= k {
                                    panic!("injected application panic");
                                }
                                do_xop(term, pty, &waker, &script[step]);
                                step += 1;
                                Ok(TerminalAction::Sleep(Duration::from_millis(0)))
                            });
                        }
                    }
                }));
                ensure!(unwound.is_err(), "harness:panic-not-raised", "{what}: the injected panic did not unwind");
            }
            ExitMode::RunHandlerError => {
                let mut step = 0usize;
                let pty = &session.pty;
                let r: Result<(), StopHere> = term.run(Some(Duration::from_millis(0)), |term, _ev| {
                    if step >= k {
                        return Err(StopHere);
                    }
                    do_xop(term, pty, &waker, &script[step]);
                    step += 1;
                    Ok(TerminalAction::Sleep(Duration::from_millis(0)))
                });
                ensure!(r.is_err(), "exit:run-returned-ok", "{what}: run returned Ok although the handler failed");
                drop(term);
            }
            ExitMode::RunRenderHandlerError => {
                let mut step = 0usize;
                let pty = &session.pty;
                let r: Result<(), StopHere> = term.run_render(|term, _ev, _surf| {
                    if step >= k {
                        return Err(StopHere);
                    }
                    do_xop(term, pty, &waker, &script[step]);
                    step += 1;
                    Ok(TerminalAction::Sleep(Duration::from_millis(0)))
                });
                ensure!(r.is_err(), "exit:run-returned-ok", "{what}: run_render returned Ok although the handler failed");
                drop(term);
            }
        }
        check_restored(&session, before, &what, peer_open, ctx)?;
        ctx.feat("exit.points");
        ctx.feat(&format!("exit.mode.{}", match mode {
            ExitMode::Drop => "drop",
            ExitMode::RunHandlerError => "run-handler-error",
            ExitMode::RunRenderHandlerError => "run_render-handler-error",
            ExitMode::HangUp => "peer-hang-up",
            ExitMode::Signal(_) => "termination-signal",
            ExitMode::Panic => "panic",
            ExitMode::PanicInRun => "panic-in-run-handler",
            ExitMode::PanicInRunRender => "panic-in-run_render-handler",
        }));
    }
    Ok(())
}

impl Prop for C17 {
    type Case = Case;
    const ID: &'static str = "C17";

    fn default_cases(tier: Tier, flavour: &str) -> u64 {
        match (tier, flavour) {
            (_, "valgrind") | (_, "tsan") => tier.pick(16, 160),
            (Tier::Quick, _) => 640,
            (Tier::Thorough, _) => 24_000,
        }
    }

    fn gen(rng: &mut Rng, tier: Tier, _index: u64) -> Case {
        match rng.below(10) {
            0..=4 => {
                let n = rng.range(1, 8);
                let wakers = (0..n)
                    .map(|_| (rng.range(1, if tier.quick() { 60 } else { 200 }), *rng.pick(&[0u64, 0, 5, 40, 300, 1500])))
                    .collect();
                let timeouts = (0..rng.range(1, 4)).map(|_| *rng.pick(&[0u64, 0, 1, 1, 3, 10])).collect();
                Case::Wake {
                    wakers,
                    timeouts,
                    inject: *rng.pick(&[0u8, 0, 5, 20, 50]),
                    delay_us: *rng.pick(&[0u64, 20, 100, 400]),
                    pending_kb: *rng.pick(&[0usize, 0, 64, 200]),
                    seed: rng.next_u64(),
                }
            }
            5 | 6 => {
                let batch = *rng.pick(&[1usize, 3, 16, 64, 700]);
                let n = rng.range(10, if batch < 4 { 300 } else if tier.quick() { 400 } else { 3000 });
                let keys = (0..n).map(|_| rng.range(0x21, 0x7e) as u8).collect();
                let small_frames = *rng.pick(&[0usize, 0, 8, 40]);
                Case::Input {
                    keys,
                    batch,
                    pending_kb: if small_frames > 0 { 0 } else { *rng.pick(&[0usize, 100, 250]) },
                    winch: rng.range(0, 4),
                    slow: rng.bool(),
                    seed: rng.next_u64(),
                    small_frames,
                    positions: *rng.pick(&[0u8, 0, 1, 3]),
                }
            }
            9 => {
                let batches: Vec<usize> = (0..rng.range(1, 5))
                    .map(|_| *rng.pick(&[1usize, 2, 7, 64, 300, 1023, 1024, 1025, 2048]))
                    .collect();
                // byte-wise typing is slow (one poll per byte): keep those sessions short
                let tiny = batches.iter().all(|b| *b < 8);
                let n = rng.range(5, if tiny { 60 } else if tier.quick() { 120 } else { 600 });
                // (the long reports of the C04 printer would make byte-wise sessions take minutes)
                let items = (0..n)
                    .map(|i| loop {
                        let item = super::c04::gen_item(rng, i as u64 * 7 + 1);
                        if item.enc.len() <= 3000 {
                            break item;
                        }
                    })
                    .collect();
                Case::Events {
                    items,
                    batches,
                    pending_kb: *rng.pick(&[0usize, 0, 100]),
                    slow: rng.bool(),
                    seed: rng.next_u64(),
                }
            }
            7 if rng.chance(1, 4) => Case::WakeFlood {
                wakes: *rng.pick(&[300usize, 1000, 5000]),
                seed: rng.next_u64(),
            },
            7 if rng.chance(1, 3) => Case::Stall {
                via_fd: rng.bool(),
                kb: *rng.pick(&[300usize, 600, 1024]),
                seed: rng.next_u64(),
            },
            7 => Case::Quit {
                signal: *rng.pick(&[libc::SIGTERM, libc::SIGINT, libc::SIGQUIT]),
                pending_kb: *rng.pick(&[0usize, 50]),
                again: rng.bool(),
                seed: rng.next_u64(),
                during_open: if rng.chance(1, 3) { rng.range(1, 3) as u8 } else { 0 },
            },
            _ => {
                let n = rng.range(1, 7);
                let script = (0..n)
                    .map(|_| match rng.below(10) {
                        0 | 1 => XOp::Write(*rng.pick(&[1usize, 100, 5000, 40_000])),
                        2 => XOp::Flush,
                        3 | 4 => XOp::Poll(*rng.pick(&[0u64, 1])),
                        5 => XOp::MouseOn,
                        6 => XOp::HideCursor,
                        7 => XOp::AltScreen,
                        8 => XOp::Key(rng.range(0x61, 0x7a) as u8),
                        _ => XOp::Wake,
                    })
                    .collect();
                let mode = match rng.below(7) {
                    0 => ExitMode::Drop,
                    1 => ExitMode::RunHandlerError,
                    2 => ExitMode::RunRenderHandlerError,
                    3 => ExitMode::HangUp,
                    4 => ExitMode::Signal(*rng.pick(&[libc::SIGTERM, libc::SIGINT, libc::SIGQUIT])),
                    5 => rng.pick(&[ExitMode::Panic, ExitMode::PanicInRun, ExitMode::PanicInRunRender]).clone(),
                    _ => ExitMode::Drop,
                };
                Case::Exit { script, mode, odd_termios: rng.below_u64(8), seed: rng.next_u64() }
            }
        }
    }

    fn check(case: &Case, ctx: &mut Ctx) -> Result<(), Fail> {
        match case {
            Case::Wake { wakers, timeouts, inject, delay_us, pending_kb, seed } => {
                check_wake_case(wakers, timeouts, *inject, *delay_us, *pending_kb, *seed, ctx)
            }
            Case::Input { keys, batch, pending_kb, winch, slow, seed, small_frames, positions } => {
                check_input_case(keys, *batch, *pending_kb, *winch, *slow, *seed, *small_frames, *positions, ctx)
            }
            Case::Events { items, batches, pending_kb, slow, seed } => {
                check_events_case(items, batches, *pending_kb, *slow, *seed, ctx)
            }
            Case::Stall { via_fd, kb, seed } => check_stall_case(*via_fd, *kb, *seed, ctx),
            Case::WakeFlood { wakes, seed } => check_wake_flood_case(*wakes, *seed, ctx),
            Case::Quit { signal, during_open, seed, .. } if *during_open > 0 => {
                check_quit_during_open(*signal, *during_open, *seed, ctx)
            }
            Case::Quit { signal, pending_kb, again, seed, .. } => check_quit_case(*signal, *pending_kb, *again, *seed, ctx),
            Case::Exit { script, mode, odd_termios, seed } => check_exit_case(script, mode, *odd_termios, *seed, ctx),
        }
    }

    fn case_hash(case: &Case) -> u64 {
        use std::hash::{Hash, Hasher};
        let mut h = std::collections::hash_map::DefaultHasher::new();
        case.hash(&mut h);
        h.finish()
    }

    fn rule() -> &'static str {
        "case = Wake(waker threads x wakes with gaps, poll timeouts, hook-injected wakes/delays at the yield points of poll, optional pending output) | Input(key bytes typed in batches while output is pending, window-size signals, wakes) | Quit(termination signal) | Exit(script, exit mode: all prefixes are run and ended by drop / handler error in run / run_render / peer hang-up / termination signal / application panic, also inside the run and run_render handlers); every case non-trivial; distinct = hash of the case"
    }

    fn sample(case: &Case) -> serde_json::Value {
        let text = format!("{case:?}");
        serde_json::json!(text.chars().take(400).collect::<String>())
    }
}
