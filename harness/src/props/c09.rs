//! C09 — text writing stays inside its surface, ignores chunking and loses no cell
//!
//! Three sub-monitors (the `Case` enum):
//!
//! * `Contain` — the target is a window (plain / offset / strided / transposed / nested view, also
//!   an empty one) of a larger canvas filled with unique sentinel cells. Characters, glyphs,
//!   images, `Text`s and byte streams are written through `TerminalWriter` (`put_cell`,
//!   `put_char`, `put_glyph`, `put_image`, `put_text`, `put_fmt`, `io::Write`), `utf8_writer`,
//!   `tty_writer`, with `set_cursor` far beyond the size, `\n \r \t`, zero-width and wide
//!   characters and writes that go on long after the window is full; or a `Text` view is laid
//!   out and rendered into the window at some offset. Afterwards every canvas cell outside the
//!   window must be equal to its sentinel. The window's cell set is computed by the harness from
//!   a grid of canvas coordinates (sub-grid / every n-th row and column / transposition), never
//!   from `Shape`. Ill-formed UTF-8 is written too, but only bytes < 0xE0: sequences like
//!   ED A0 80 / F4 90 80 80 make the decoders build an invalid `char` (abort in `chk`), which
//!   is C02's finding.
//! * `Chunk` — one byte stream (valid UTF-8: multi-byte, wide and zero-width characters,
//!   `\n \r \t`, SGR and other escape sequences, also incomplete ones) is written as a whole,
//!   byte by byte and under a random partition through `TerminalWriter`(`io::Write`),
//!   `utf8_writer` or `tty_writer`, honouring the `Write` contract (an unaccepted tail is
//!   written again). All cells must agree. The final cursor must agree as well unless the
//!   writer ran out of space: `TerminalWriter::write` and `Utf8CellWriter::write` then report
//!   the whole buffer as consumed without decoding the rest of it, which can change the cursor
//!   (and make a later call fail on the continuation bytes of a character whose first bytes were
//!   skipped) but never a cell, because nothing can be placed any more. Such errors are counted
//!   (`chunk.error-after-overflow`), an error while the writer still has room is a violation
//!   (the stream is valid UTF-8). `tty_writer` never skips input: its cursor is always compared.
//! * `Layout` — a `Text` whose printable cells carry unique ids in their foreground colour
//!   (fallback characters inherit the id of their glyph; newline, tab, zero-width characters
//!   and empty glyphs/images carry none) is measured with `View::layout` under
//!   `BoxConstraint::loose(BIG x W)` and rendered into a fresh surface of exactly the reported
//!   size. Row-major scan of the surface must give the printable cells exactly once and in
//!   sequence order; cells found on one row must have disjoint column spans inside the reported
//!   width, a tall cell must fit the reported height. With `wraps = false` a cell must be missing
//!   iff it lies beyond the right edge (col + width > W in the harness's own line model).
//!   Kept out of the deciding set (counted as features):
//!   - `layout.unit-wider-than-W(presence-required)`: with wrapping, a cell wider than W cannot be
//!     shown entirely anywhere (the code puts it at column 0 of a fresh line): it must still
//!     appear once and in order, only its span is not checked;
//!   - `layout.free.fits-after-dropped-cell`: without wrapping the code does not advance over a
//!     dropped cell, so a later narrower cell of the same line may still be placed; whether
//!     that cell "lies beyond the right edge" is debatable: neither demanded nor forbidden;
//!   - `layout.tall-cell-overlapped-by-next-line(not judged)`: the next line runs underneath a
//!     cell taller than one row; only origin cells are looked at, so this never decides;
//!   - '\r' and control characters inside a fallback string: non-deciding (never generated).
//!   Origins of placed cells strictly advance in reading order (every placed cell is at least
//!   one column wide), so no cell can land on the origin of another one.
use crate::core::{shrink_vec, Ctx, Fail, Prop, Tier};
use crate::rng::Rng;
use crate::{ensure, fail};
use serde::{Deserialize, Serialize};
use std::io::Write;
use surf_n_term::{
    encoder::ColorDepth,
    render::{CellKind, TTYCellWriter, Utf8CellWriter},
    view::{BoxConstraint, Text, Tree, View, ViewContext, ViewLayoutStore},
    Cell, CellWrite, Color, Error, Face, FaceAttrs, FillRule, Glyph, Image, Path, Position, Shape, Size,
    Surface, SurfaceMut, SurfaceMutView, SurfaceOwned, Terminal, TerminalCaps, TerminalCommand,
    TerminalEvent, TerminalSize, TerminalSurfaceExt, TerminalWaker, TerminalWriter, RGBA,
};
use unicode_width::UnicodeWidthChar;

pub struct C09;

// ---------------------------------------------------------------------------
// case description

#[derive(Clone, Debug, Serialize, Deserialize, PartialEq)]
pub struct TermCfg {
    /// pixels per cell (height, width)
    pub ppc_h: usize,
    pub ppc_w: usize,
    /// terminal renders glyphs (otherwise the fallback string is written)
    pub glyphs: bool,
}

#[derive(Clone, Debug, Serialize, Deserialize, PartialEq)]
pub enum Item {
    Ch(char),
    /// glyph of `h` x `w` cells with fallback text
    Glyph { h: usize, w: usize, fb: String },
    /// image of `ph` x `pw` pixels
    Image { ph: usize, pw: usize },
}

/// One step of the view chain that leads from the canvas to the window
#[derive(Clone, Debug, Serialize, Deserialize, PartialEq)]
pub enum Step {
    /// `view_mut(r0..r1, c0..c1)`
    Sub { r0: usize, r1: usize, c0: usize, c1: usize },
    /// `view_owned(r0..r1, c0..c1)`
    Owned { r0: usize, r1: usize, c0: usize, c1: usize },
    /// `transpose()`
    Transpose,
    /// `SurfaceMutView::new` with a strided `Shape`: rows r0, r0+rstep, … (h of them), same for columns
    Stride {
        r0: usize,
        c0: usize,
        h: usize,
        w: usize,
        rstep: usize,
        cstep: usize,
    },
}

#[derive(Clone, Debug, Serialize, Deserialize, PartialEq)]
pub enum Op {
    /// `put_cell` with an explicit face
    Cell { item: Item, face: u8 },
    /// `put_char` / `put_glyph` / `put_image`
    Put(Item),
    /// `put_text`
    Text { items: Vec<Item>, wraps: bool },
    /// `io::Write` of the `TerminalWriter` itself
    Bytes(Vec<u8>),
    /// `by_ref().utf8_writer()`
    Utf8(Vec<u8>),
    /// `by_ref().tty_writer()`
    Tty(Vec<u8>),
    /// `put_fmt`
    Fmt { text: String, face: Option<u8> },
    SetCursor { row: usize, col: usize },
    SetWraps(bool),
    SetFace(u8),
}

#[derive(Clone, Debug, Serialize, Deserialize, PartialEq)]
pub enum ContainMode {
    Writer { ops: Vec<Op> },
    /// `View::layout` + `View::render` of a `Text`; the layout is then moved to (row, col)
    TextView {
        items: Vec<Item>,
        wraps: bool,
        ct_h: usize,
        ct_w: usize,
        row: usize,
        col: usize,
    },
}

#[derive(Clone, Debug, Serialize, Deserialize, PartialEq)]
pub struct ContainCase {
    pub canvas_h: usize,
    pub canvas_w: usize,
    pub steps: Vec<Step>,
    pub term: TermCfg,
    pub mode: ContainMode,
}

#[derive(Clone, Copy, Debug, Serialize, Deserialize, PartialEq)]
pub enum Sink {
    Writer,
    Utf8,
    Tty,
}

#[derive(Clone, Debug, Serialize, Deserialize, PartialEq)]
pub struct ChunkCase {
    pub h: usize,
    pub w: usize,
    pub sink: Sink,
    pub wraps: bool,
    pub start: Option<(usize, usize)>,
    /// tokens (single characters or whole escape sequences); the stream is their concatenation
    pub toks: Vec<String>,
    /// sizes of successive write calls of the random partition
    pub parts: Vec<usize>,
}

#[derive(Clone, Debug, Serialize, Deserialize, PartialEq)]
pub struct LayoutCase {
    pub items: Vec<Item>,
    pub w: usize,
    pub wraps: bool,
    pub term: TermCfg,
}

#[derive(Clone, Debug, Serialize, Deserialize, PartialEq)]
pub enum Case {
    Contain(ContainCase),
    Chunk(ChunkCase),
    Layout(LayoutCase),
}

// ---------------------------------------------------------------------------
// private fake terminal (only there to build a `ViewContext` through the public API)

struct FakeTerm {
    size: TerminalSize,
    caps: TerminalCaps,
}

impl Write for FakeTerm {
    fn write(&mut self, buf: &[u8]) -> std::io::Result<usize> {
        Ok(buf.len())
    }
    fn flush(&mut self) -> std::io::Result<()> {
        Ok(())
    }
}

impl Terminal for FakeTerm {
    fn execute(&mut self, _cmd: TerminalCommand) -> Result<(), Error> {
        Ok(())
    }
    fn poll(
        &mut self,
        _timeout: Option<std::time::Duration>,
    ) -> Result<Option<TerminalEvent>, Error> {
        Ok(None)
    }
    fn size(&self) -> Result<TerminalSize, Error> {
        Ok(self.size)
    }
    fn position(&mut self) -> Result<Position, Error> {
        Ok(Position::new(0, 0))
    }
    fn waker(&self) -> TerminalWaker {
        TerminalWaker::new(|| Ok(()))
    }
    fn frames_pending(&self) -> usize {
        0
    }
    fn frames_drop(&mut self) {}
    fn dyn_ref(&mut self) -> &mut dyn Terminal {
        self
    }
    fn capabilities(&self) -> &TerminalCaps {
        &self.caps
    }
}

fn make_ctx(cfg: &TermCfg) -> ViewContext {
    let term = FakeTerm {
        size: TerminalSize {
            cells: Size::new(10, 10),
            pixels: Size::new(10 * cfg.ppc_h, 10 * cfg.ppc_w),
        },
        caps: TerminalCaps {
            depth: ColorDepth::TrueColor,
            glyphs: cfg.glyphs,
            kitty_keyboard: false,
        },
    };
    ViewContext::new(&term).expect("fake terminal never fails")
}

// ---------------------------------------------------------------------------
// shared helpers

fn cw(c: char) -> usize {
    c.width().unwrap_or(0)
}

fn make_glyph(h: usize, w: usize, fb: &str) -> Glyph {
    Glyph::new(
        Path::empty(),
        FillRule::default(),
        None,
        Size::new(h, w),
        fb.to_string(),
        None,
    )
}

fn make_image(ph: usize, pw: usize) -> Image {
    Image::from(SurfaceOwned::new_with(Size::new(ph, pw), |pos| {
        RGBA::new(pos.row as u8, pos.col as u8, 7, 255)
    }))
}

fn face_n(n: u8) -> Face {
    match n % 8 {
        0 => Face::default(),
        1 => Face::new(Some(RGBA::new(200, 10, 10, 255)), None, FaceAttrs::EMPTY),
        2 => Face::new(None, Some(RGBA::new(10, 200, 10, 255)), FaceAttrs::EMPTY),
        3 => Face::new(None, None, FaceAttrs::BOLD),
        4 => Face::new(
            Some(RGBA::new(1, 2, 3, 128)),
            Some(RGBA::new(9, 8, 7, 64)),
            FaceAttrs::ITALIC,
        ),
        5 => Face::new(Some(RGBA::new(0, 0, 255, 255)), None, FaceAttrs::UNDERLINE),
        6 => Face::new(None, Some(RGBA::new(255, 255, 0, 255)), FaceAttrs::REVERSE),
        _ => Face::new(
            Some(RGBA::new(50, 60, 70, 255)),
            Some(RGBA::new(70, 60, 50, 255)),
            FaceAttrs::STRIKE,
        ),
    }
}

fn item_cell(item: &Item, face: Face) -> Cell {
    match item {
        Item::Ch(c) => Cell::new_char(face, *c),
        Item::Glyph { h, w, fb } => Cell::new_glyph(face, make_glyph(*h, *w, fb)),
        Item::Image { ph, pw } => Cell::new_image(make_image(*ph, *pw)).with_face(face),
    }
}

fn sentinel(row: usize, col: usize) -> Cell {
    const CHARS: [char; 7] = ['#', '@', '%', 'Ж', 's', '~', '好'];
    Cell::new_char(
        Face::new(
            Some(RGBA::new(row as u8, col as u8, 0x5a, 255)),
            Some(RGBA::new(col as u8, row as u8, 0xa5, 255)),
            if (row + col) % 3 == 0 {
                FaceAttrs::BLINK
            } else {
                FaceAttrs::EMPTY
            },
        ),
        CHARS[(row * 31 + col) % CHARS.len()],
    )
}

/// `Face`'s Debug output paints itself with escape sequences: keep them out of reports
fn show<T: std::fmt::Debug>(value: &T) -> String {
    format!("{:?}", value).replace('\x1b', "\\e")
}

/// write honouring the `Write` contract (short writes are retried); errors and zero-length
/// acceptances end the attempt. Used where only containment matters.
fn write_lenient<W: Write>(w: &mut W, mut buf: &[u8]) {
    let mut guard = 0usize;
    while !buf.is_empty() && guard <= buf.len() + 4 {
        guard += 1;
        match w.write(buf) {
            Ok(0) | Err(_) => break,
            Ok(n) => buf = &buf[n.min(buf.len())..],
        }
    }
}

// ---------------------------------------------------------------------------
// (1) containment

/// window model: `grid[row][col]` = canvas coordinates of the window cell
type Grid = Vec<Vec<(usize, usize)>>;

fn grid_dims(grid: &Grid) -> (usize, usize) {
    match grid.first() {
        Some(row) if !row.is_empty() => (grid.len(), row.len()),
        _ => (0, 0),
    }
}

/// None = the step sequence is not valid for this canvas (never generated; such a case is non-deciding)
fn model_window(canvas_h: usize, canvas_w: usize, steps: &[Step]) -> Option<Grid> {
    let mut grid: Grid = (0..canvas_h)
        .map(|r| (0..canvas_w).map(|c| (r, c)).collect())
        .collect();
    if canvas_h == 0 || canvas_w == 0 {
        return None;
    }
    for step in steps {
        let (h, w) = grid_dims(&grid);
        grid = match step {
            Step::Sub { r0, r1, c0, c1 } | Step::Owned { r0, r1, c0, c1 } => {
                if *r1 > h || *c1 > w {
                    return None;
                }
                if r0 >= r1 || c0 >= c1 {
                    Vec::new()
                } else {
                    (*r0..*r1).map(|r| grid[r][*c0..*c1].to_vec()).collect()
                }
            }
            Step::Transpose => (0..w)
                .map(|c| (0..h).map(|r| grid[r][c]).collect())
                .collect(),
            Step::Stride {
                r0,
                c0,
                h: sh,
                w: sw,
                rstep,
                cstep,
            } => {
                if *sh == 0 || *sw == 0 || *rstep == 0 || *cstep == 0 {
                    return None;
                }
                if r0 + (sh - 1) * rstep >= h || c0 + (sw - 1) * cstep >= w {
                    return None;
                }
                (0..*sh)
                    .map(|i| (0..*sw).map(|j| grid[r0 + i * rstep][c0 + j * cstep]).collect())
                    .collect()
            }
        };
    }
    Some(grid)
}

/// build the real view chain and hand the final window to `f`
fn with_view(
    mut view: SurfaceMutView<'_, Cell>,
    steps: &[Step],
    f: &mut dyn FnMut(SurfaceMutView<'_, Cell>),
) {
    match steps.split_first() {
        None => f(view),
        Some((Step::Sub { r0, r1, c0, c1 }, rest)) => {
            let sub = view.view_mut(*r0..*r1, *c0..*c1);
            with_view(sub, rest, f)
        }
        Some((Step::Owned { r0, r1, c0, c1 }, rest)) => {
            let mut owned = view.view_owned(*r0..*r1, *c0..*c1);
            with_view(owned.as_mut(), rest, f)
        }
        Some((Step::Transpose, rest)) => {
            let mut transposed = view.transpose();
            with_view(transposed.as_mut(), rest, f)
        }
        Some((
            Step::Stride {
                r0,
                c0,
                h,
                w,
                rstep,
                cstep,
            },
            rest,
        )) => {
            let (shape, data) = view.parts();
            let start = shape.offset(Position::new(*r0, *c0));
            let row_stride = shape.row_stride * rstep;
            let col_stride = shape.col_stride * cstep;
            let strided = Shape {
                start,
                end: start + (h - 1) * row_stride + (w - 1) * col_stride + 1,
                width: *w,
                height: *h,
                row_stride,
                col_stride,
            };
            with_view(SurfaceMutView::new(strided, data), rest, f)
        }
    }
}

fn build_text(items: &[Item], wraps: bool) -> Text {
    let mut text = Text::new().with_wraps(wraps);
    for (i, item) in items.iter().enumerate() {
        text.put_cell(item_cell(item, face_n((i % 5) as u8)));
    }
    text
}

fn run_ops(window: &mut SurfaceMutView<'_, Cell>, vctx: &ViewContext, ops: &[Op], ctx: &mut Ctx) {
    let size = window.size();
    let mut writer = window.writer(vctx);
    for op in ops {
        match op {
            Op::Cell { item, face } => {
                let ok = writer.put_cell(item_cell(item, face_n(*face)));
                ctx.feat_if(!ok, "contain.put-returned-out-of-space");
            }
            Op::Put(item) => {
                let ok = match item {
                    Item::Ch(c) => writer.put_char(*c),
                    Item::Glyph { h, w, fb } => writer.put_glyph(make_glyph(*h, *w, fb)),
                    Item::Image { ph, pw } => writer.put_image(make_image(*ph, *pw)),
                };
                ctx.feat_if(!ok, "contain.put-returned-out-of-space");
            }
            Op::Text { items, wraps } => {
                writer.put_text(&build_text(items, *wraps));
                ctx.feat("contain.op.put_text");
            }
            Op::Bytes(bytes) => {
                write_lenient(&mut writer, bytes);
                ctx.feat("contain.op.io-write");
            }
            Op::Utf8(bytes) => {
                write_lenient(&mut CellWrite::by_ref(&mut writer).utf8_writer(), bytes);
                ctx.feat("contain.op.utf8_writer");
            }
            Op::Tty(bytes) => {
                write_lenient(&mut CellWrite::by_ref(&mut writer).tty_writer(), bytes);
                ctx.feat("contain.op.tty_writer");
            }
            Op::Fmt { text, face } => {
                writer.put_fmt(text, face.map(face_n));
            }
            Op::SetCursor { row, col } => {
                writer.set_cursor(Position::new(*row, *col));
                ctx.feat_if(
                    *row > size.height || *col > size.width,
                    "contain.set_cursor-beyond-size",
                );
            }
            Op::SetWraps(wraps) => {
                writer.set_wraps(*wraps);
            }
            Op::SetFace(face) => {
                writer.set_face(face_n(*face));
            }
        }
    }
    let cursor = writer.cursor();
    ctx.feat_if(
        cursor.row >= size.height && size.height > 0,
        "contain.wrote-past-the-end",
    );
}

fn items_feats(items: &[Item], prefix: &str, ctx: &mut Ctx) {
    for item in items {
        match item {
            Item::Ch('\n') => ctx.feat(&format!("{prefix}.newline")),
            Item::Ch('\t') => ctx.feat(&format!("{prefix}.tab")),
            Item::Ch('\r') => ctx.feat(&format!("{prefix}.cr")),
            Item::Ch(c) => match cw(*c) {
                0 => ctx.feat(&format!("{prefix}.zero-width")),
                1 => ctx.feat(&format!("{prefix}.narrow")),
                _ => ctx.feat(&format!("{prefix}.wide")),
            },
            Item::Glyph { .. } => ctx.feat(&format!("{prefix}.glyph")),
            Item::Image { .. } => ctx.feat(&format!("{prefix}.image")),
        }
    }
}

fn check_contain(case: &ContainCase, ctx: &mut Ctx) -> Result<(), Fail> {
    let Some(grid) = model_window(case.canvas_h, case.canvas_w, &case.steps) else {
        ctx.nondeciding = true;
        ctx.feat("contain.nondeciding.invalid-view-chain");
        return Ok(());
    };
    let (win_h, win_w) = grid_dims(&grid);
    let mut inside = vec![false; case.canvas_h * case.canvas_w];
    for row in grid.iter() {
        for (r, c) in row.iter() {
            inside[r * case.canvas_w + c] = true;
        }
    }

    let vctx = make_ctx(&case.term);
    let mut canvas =
        SurfaceOwned::new_with(Size::new(case.canvas_h, case.canvas_w), |p| sentinel(p.row, p.col));

    let mut real_size = Size::empty();
    let mut render_err: Option<String> = None;
    with_view(canvas.as_mut(), &case.steps, &mut |mut window| {
        real_size = window.size();
        if real_size != Size::new(win_h, win_w) {
            return; // view chain disagrees with the model: not this property's business (C07)
        }
        match &case.mode {
            ContainMode::Writer { ops } => run_ops(&mut window, &vctx, ops, ctx),
            ContainMode::TextView {
                items,
                wraps,
                ct_h,
                ct_w,
                row,
                col,
            } => {
                let text = build_text(items, *wraps);
                let mut store = ViewLayoutStore::new();
                let ct = BoxConstraint::loose(Size::new(*ct_h, *ct_w));
                match text.layout_new(&vctx, ct, &mut store) {
                    Ok(mut layout) => {
                        layout.set_position(Position::new(*row, *col));
                        if let Err(err) = text.render(&vctx, window, layout.view()) {
                            render_err = Some(format!("{err}"));
                        }
                    }
                    Err(err) => render_err = Some(format!("{err}")),
                }
            }
        }
    });
    if real_size != Size::new(win_h, win_w) {
        ctx.nondeciding = true;
        ctx.feat("contain.nondeciding.view-size-differs-from-model");
        return Ok(());
    }
    ctx.feat_if(render_err.is_some(), "contain.text-view-error");

    // every cell outside the window must still be its sentinel
    let shape = canvas.shape();
    let data = canvas.data();
    for r in 0..case.canvas_h {
        for c in 0..case.canvas_w {
            if inside[r * case.canvas_w + c] {
                continue;
            }
            let cell = &data[shape.offset(Position::new(r, c))];
            if *cell != sentinel(r, c) {
                let how = match &case.mode {
                    ContainMode::Writer { .. } => "writer",
                    ContainMode::TextView { .. } => "text-view",
                };
                fail!(
                    format!("contain:outside-cell-modified:{how}"),
                    "canvas {}x{} window {}x{} steps={:?}: cell ({r},{c}) outside the window changed from {:?} to {:?}",
                    case.canvas_h,
                    case.canvas_w,
                    win_h,
                    win_w,
                    case.steps,
                    show(&sentinel(r, c)),
                    show(cell)
                );
            }
        }
    }

    // features
    ctx.feat("contain.cases");
    for step in case.steps.iter() {
        ctx.feat(match step {
            Step::Sub { .. } => "contain.view.sub",
            Step::Owned { .. } => "contain.view.owned",
            Step::Transpose => "contain.view.transpose",
            Step::Stride { .. } => "contain.view.strided",
        });
    }
    ctx.feat_if(case.steps.len() >= 2, "contain.view.nested");
    ctx.feat_if(win_h == 0, "contain.view.empty-window");
    ctx.feat_if(
        win_h * win_w == case.canvas_h * case.canvas_w,
        "contain.view.whole-canvas",
    );
    match &case.mode {
        ContainMode::Writer { ops } => {
            for op in ops {
                match op {
                    Op::Cell { item, .. } | Op::Put(item) => {
                        items_feats(std::slice::from_ref(item), "contain.item", ctx)
                    }
                    Op::Text { items, .. } => items_feats(items, "contain.item", ctx),
                    _ => {}
                }
            }
        }
        ContainMode::TextView { items, .. } => {
            ctx.feat("contain.text-view");
            items_feats(items, "contain.item", ctx);
        }
    }
    Ok(())
}

// ---------------------------------------------------------------------------
// (2) chunk independence

struct ChunkRun {
    cells: Vec<Cell>,
    cursor: Position,
    /// the writer ran out of space at some point (cursor row reached the height)
    overflowed: bool,
    /// write returned an error while the writer still had space
    early_error: Option<String>,
    errors_after_overflow: u64,
    short_writes: u64,
    zero_write: bool,
}

fn chunk_fill(pos: Position) -> Cell {
    Cell::new_char(
        Face::new(
            None,
            Some(RGBA::new(pos.row as u8, pos.col as u8, 99, 255)),
            FaceAttrs::EMPTY,
        ),
        '.',
    )
}

/// the three byte sinks, with access to the cursor of the underlying writer
trait CursorSink: Write {
    fn cur(&mut self) -> Position;
}

impl CursorSink for TerminalWriter<'_> {
    fn cur(&mut self) -> Position {
        self.cursor()
    }
}

impl CursorSink for Utf8CellWriter<&mut TerminalWriter<'_>> {
    fn cur(&mut self) -> Position {
        self.parent().cursor()
    }
}

impl CursorSink for TTYCellWriter<&mut TerminalWriter<'_>> {
    fn cur(&mut self) -> Position {
        self.parent().cursor()
    }
}

/// write the chunks one `write` call each, retrying the unaccepted tail (the `Write` contract)
fn drive<S: CursorSink>(sink: &mut S, chunks: &[&[u8]], height: usize, run: &mut ChunkRun) {
    for (ordinal, chunk) in chunks.iter().enumerate() {
        // `flush()` between two write calls is part of the `Write` interface (`BufWriter`, `writeln!`
        // loops call it); it must not change what the bytes mean
        if ordinal % 2 == 1 {
            let _ = sink.flush();
        }
        let mut buf: &[u8] = chunk;
        let mut guard = 0usize;
        while !buf.is_empty() {
            guard += 1;
            if guard > chunk.len() + 4 {
                run.zero_write = true;
                break;
            }
            let result = sink.write(buf);
            let full = sink.cur().row >= height;
            match result {
                Ok(0) => {
                    run.zero_write = true;
                    break;
                }
                Ok(n) => {
                    if n < buf.len() {
                        run.short_writes += 1;
                    }
                    buf = &buf[n.min(buf.len())..];
                }
                Err(err) => {
                    if full {
                        run.errors_after_overflow += 1;
                    } else if run.early_error.is_none() {
                        run.early_error = Some(err.to_string());
                    }
                    break;
                }
            }
        }
    }
}

fn chunk_run(case: &ChunkCase, stream: &[u8], parts: &[usize]) -> ChunkRun {
    let vctx = make_ctx(&TermCfg {
        ppc_h: 20,
        ppc_w: 10,
        glyphs: true,
    });
    let mut surf = SurfaceOwned::new_with(Size::new(case.h, case.w), chunk_fill);
    let mut run = ChunkRun {
        cells: Vec::new(),
        cursor: Position::origin(),
        overflowed: false,
        early_error: None,
        errors_after_overflow: 0,
        short_writes: 0,
        zero_write: false,
    };
    {
        let mut writer = surf.writer(&vctx).with_wraps(case.wraps);
        if let Some((row, col)) = case.start {
            writer.set_cursor(Position::new(row, col));
        }
        let height = case.h;
        // chunk boundaries: the given sizes, then whatever is left
        let mut chunks: Vec<&[u8]> = Vec::new();
        let mut pos = 0;
        for size in parts {
            let end = (pos + size).min(stream.len());
            chunks.push(&stream[pos..end]);
            pos = end;
        }
        if pos < stream.len() {
            chunks.push(&stream[pos..]);
        }

        match case.sink {
            Sink::Writer => drive(&mut writer, &chunks, height, &mut run),
            Sink::Utf8 => drive(&mut CellWrite::by_ref(&mut writer).utf8_writer(), &chunks, height, &mut run),
            Sink::Tty => drive(&mut CellWrite::by_ref(&mut writer).tty_writer(), &chunks, height, &mut run),
        }
        run.cursor = writer.cursor();
        run.overflowed = run.cursor.row >= height;
    }
    run.cells = surf.to_vec();
    run
}

fn check_chunk(case: &ChunkCase, ctx: &mut Ctx) -> Result<(), Fail> {
    if case.h == 0 || case.w == 0 {
        ctx.nondeciding = true;
        return Ok(());
    }
    let stream: Vec<u8> = case.toks.concat().into_bytes();
    let sink = match case.sink {
        Sink::Writer => "writer",
        Sink::Utf8 => "utf8_writer",
        Sink::Tty => "tty_writer",
    };
    let whole = chunk_run(case, &stream, &[stream.len()]);
    let ones = vec![1usize; stream.len()];
    let variants: [(&str, &[usize]); 2] = [("bytewise", &ones), ("random", &case.parts)];

    // soundness of the domain: the stream is valid UTF-8, so no write may fail while the writer
    // still has room (after it ran out of room the adapters drop the rest of the buffer they
    // were handed, possibly half a character, and the next call may then see a stray
    // continuation byte; no cell can change any more at that point).
    if let Some(err) = &whole.early_error {
        fail!(
            format!("chunk:write-error-on-valid-utf8:{sink}"),
            "whole write of {:?} failed with {err}",
            String::from_utf8_lossy(&stream)
        );
    }
    ensure!(
        !whole.zero_write,
        format!("chunk:write-accepts-nothing:{sink}"),
        "write returned Ok(0) / made no progress on {:?}",
        String::from_utf8_lossy(&stream)
    );
    for (name, parts) in variants {
        let run = chunk_run(case, &stream, parts);
        if let Some(err) = &run.early_error {
            fail!(
                format!("chunk:write-error-on-valid-utf8:{sink}"),
                "{name} partition of {:?}: write failed with {err} although the writer had room (parts {:?})",
                String::from_utf8_lossy(&stream),
                &parts[..parts.len().min(24)]
            );
        }
        ensure!(
            !run.zero_write,
            format!("chunk:write-accepts-nothing:{sink}"),
            "{name} partition: write returned Ok(0) / made no progress"
        );
        if let Some(index) = (0..whole.cells.len()).find(|i| whole.cells[*i] != run.cells[*i]) {
            fail!(
                format!("chunk:cells-differ:{sink}"),
                "{name} partition of {:?} (parts {:?}) on {}x{} wraps={}: cell ({},{}) is {:?} but {:?} when written whole",
                String::from_utf8_lossy(&stream),
                &parts[..parts.len().min(24)],
                case.h,
                case.w,
                case.wraps,
                index / case.w,
                index % case.w,
                show(&run.cells[index]),
                show(&whole.cells[index])
            );
        }
        // the tty writer never skips input, the other two skip the rest of a buffer once full
        let compare_cursor =
            matches!(case.sink, Sink::Tty) || (!whole.overflowed && !run.overflowed);
        if compare_cursor {
            ensure!(
                whole.cursor == run.cursor,
                format!("chunk:cursor-differs:{sink}"),
                "{name} partition of {:?} (parts {:?}) on {}x{}: final cursor {:?} but {:?} when written whole",
                String::from_utf8_lossy(&stream),
                &parts[..parts.len().min(24)],
                case.h,
                case.w,
                run.cursor,
                whole.cursor
            );
        } else {
            ctx.feat("chunk.cursor-not-compared-after-overflow");
        }
        ctx.feat_n("chunk.error-after-overflow", run.errors_after_overflow);
        ctx.feat_n("chunk.short-writes", run.short_writes);
    }

    // features: where did the random partition cut?
    ctx.feat(&format!("chunk.cases.{sink}"));
    ctx.feat_if(whole.overflowed, "chunk.overflowed");
    ctx.feat_if(!whole.overflowed, "chunk.fits");
    let mut tok_start = vec![false; stream.len() + 1];
    let mut in_escape = vec![false; stream.len() + 1];
    let mut pos = 0;
    for tok in case.toks.iter() {
        tok_start[pos] = true;
        if tok.starts_with('\x1b') && tok.len() > 1 {
            for flag in in_escape.iter_mut().skip(pos + 1).take(tok.len() - 1) {
                *flag = true;
            }
            // every char of an escape token is its own utf8 unit; mark the inner starts
        }
        pos += tok.len();
    }
    tok_start[stream.len()] = true;
    let mut cut = 0;
    let (mut cut_char, mut cut_esc) = (false, false);
    for size in case.parts.iter() {
        cut += size;
        if cut == 0 || cut >= stream.len() {
            continue;
        }
        if in_escape[cut] {
            cut_esc = true;
        } else if !tok_start[cut] {
            cut_char = true;
        }
    }
    ctx.feat_if(cut_char, "chunk.cut-inside-utf8-char");
    ctx.feat_if(cut_esc, "chunk.cut-inside-escape");
    ctx.feat_if(
        case.toks.iter().any(|t| t.starts_with("\x1b[") && t.ends_with('m')),
        "chunk.has-sgr",
    );
    ctx.feat_if(
        case.toks.iter().any(|t| t.len() > 1 && !t.starts_with('\x1b')),
        "chunk.has-multibyte",
    );
    Ok(())
}

// ---------------------------------------------------------------------------
// (3) layout / render agreement

const BIG: usize = 10_000;

#[derive(Clone, Copy, PartialEq, Eq, Debug)]
enum UnitKind {
    Narrow,
    Wide,
    Glyph,
    Fallback,
    Image,
}

impl UnitKind {
    fn name(self) -> &'static str {
        match self {
            UnitKind::Narrow => "narrow",
            UnitKind::Wide => "wide",
            UnitKind::Glyph => "glyph",
            UnitKind::Fallback => "fallback",
            UnitKind::Image => "image",
        }
    }
}

#[derive(Clone, Copy, PartialEq, Eq, Debug)]
enum Expect {
    /// must be on the surface
    Required,
    /// beyond the right edge (wraps = false): must not be on the surface
    Absent,
    /// not decided by the property (see `check_layout`)
    Free,
    /// wider than the whole line (wrapping on): it cannot fit anywhere, but it is a printable cell
    /// of the text and must still appear exactly once and in order (the code puts it at column 0
    /// of a fresh line); its span is not checked
    RequiredUnfit,
}

/// one printable cell as the harness expects it
struct Unit {
    /// index into `items` + 1
    id: u32,
    /// for fallback characters: which character; for anything else None
    ch: Option<char>,
    width: usize,
    height: usize,
    kind: UnitKind,
    expect: Expect,
}

/// elements of the harness line model
enum Elem {
    Newline,
    Tab,
    Unit(usize),
}

fn push_unit(units: &mut Vec<Unit>, elems: &mut Vec<Elem>, unit: Unit) {
    elems.push(Elem::Unit(units.len()));
    units.push(unit);
}

fn id_face(id: u32) -> Face {
    Face::new(
        Some(RGBA::new((id >> 16) as u8, (id >> 8) as u8, id as u8, 255)),
        None,
        FaceAttrs::EMPTY,
    )
}

fn check_layout(case: &LayoutCase, ctx: &mut Ctx) -> Result<(), Fail> {
    if case.w == 0 || case.term.ppc_h == 0 || case.term.ppc_w == 0 {
        ctx.nondeciding = true;
        return Ok(());
    }
    let vctx = make_ctx(&case.term);
    let width = case.w;

    // --- cells of the text + the expected printable units
    let mut cells: Vec<Cell> = Vec::with_capacity(case.items.len());
    let mut units: Vec<Unit> = Vec::new();
    let mut elems: Vec<Elem> = Vec::new();
    for (index, item) in case.items.iter().enumerate() {
        let id = index as u32 + 1;
        match item {
            Item::Ch('\r') => {
                // '\r' makes later cells overwrite earlier ones: outside this sub-monitor
                ctx.nondeciding = true;
                ctx.feat("layout.nondeciding.carriage-return");
                return Ok(());
            }
            Item::Ch('\n') => {
                cells.push(Cell::new_char(Face::default(), '\n'));
                elems.push(Elem::Newline);
            }
            Item::Ch('\t') => {
                cells.push(Cell::new_char(Face::default(), '\t'));
                elems.push(Elem::Tab);
            }
            Item::Ch(c) => {
                let w = cw(*c);
                if w == 0 {
                    // zero-width / control: produces no cell, carries no id
                    cells.push(Cell::new_char(Face::default(), *c));
                } else {
                    cells.push(Cell::new_char(id_face(id), *c));
                    push_unit(
                        &mut units,
                        &mut elems,
                        Unit {
                            id,
                            ch: Some(*c),
                            width: w,
                            height: 1,
                            kind: if w == 1 { UnitKind::Narrow } else { UnitKind::Wide },
                            expect: Expect::Required,
                        },
                    );
                }
            }
            Item::Glyph { h, w, fb } => {
                if fb.chars().any(|c| matches!(c, '\n' | '\r' | '\t')) {
                    ctx.nondeciding = true;
                    ctx.feat("layout.nondeciding.control-char-in-fallback");
                    return Ok(());
                }
                if case.term.glyphs {
                    if *h == 0 || *w == 0 {
                        cells.push(Cell::new_glyph(Face::default(), make_glyph(*h, *w, fb)));
                    } else {
                        cells.push(Cell::new_glyph(id_face(id), make_glyph(*h, *w, fb)));
                        push_unit(
                            &mut units,
                            &mut elems,
                            Unit {
                                id,
                                ch: None,
                                width: *w,
                                height: *h,
                                kind: UnitKind::Glyph,
                                expect: Expect::Required,
                            },
                        );
                    }
                } else {
                    // fallback characters inherit the id of the glyph cell
                    cells.push(Cell::new_glyph(id_face(id), make_glyph(*h, *w, fb)));
                    for c in fb.chars() {
                        let w = cw(c);
                        if w > 0 {
                            push_unit(
                                &mut units,
                                &mut elems,
                                Unit {
                                    id,
                                    ch: Some(c),
                                    width: w,
                                    height: 1,
                                    kind: UnitKind::Fallback,
                                    expect: Expect::Required,
                                },
                            );
                        }
                    }
                }
            }
            Item::Image { ph, pw } => {
                let ch = ph.div_ceil(case.term.ppc_h);
                let cw_ = pw.div_ceil(case.term.ppc_w);
                if ch == 0 || cw_ == 0 {
                    cells.push(Cell::new_image(make_image(*ph, *pw)));
                } else {
                    cells.push(Cell::new_image(make_image(*ph, *pw)).with_face(id_face(id)));
                    push_unit(
                        &mut units,
                        &mut elems,
                        Unit {
                            id,
                            ch: None,
                            width: cw_,
                            height: ch,
                            kind: UnitKind::Image,
                            expect: Expect::Required,
                        },
                    );
                }
            }
        }
    }

    // --- which units does the property require / forbid?
    if case.wraps {
        // A cell wider than the whole available width cannot be shown entirely anywhere, but the
        // statement covers all maximum widths >= 1 and every printable cell: it must still appear
        // once, in order (the unchanged code puts it at column 0 of a fresh line). Only its span
        // is not judged.
        for unit in units.iter_mut() {
            if unit.width > width {
                unit.expect = Expect::RequiredUnfit;
                ctx.feat("layout.unit-wider-than-W(presence-required)");
            }
        }
    } else {
        // harness line model, wrapping disabled: the column only moves forward, '\n' starts a
        // line, tab goes to the next multiple of 8 but not past W. A cell that does not fit
        // entirely (col + width > W) is beyond the right edge. The unchanged code does not
        // advance over a dropped cell, so a later narrower cell on the same line can still be
        // placed; whether such a cell "lies beyond the right edge" is debatable (a clipping
        // terminal would not show it), so cells that fit only because an earlier cell of their
        // line was dropped are not decided.
        let mut col = 0usize;
        let mut line_overflowed = false;
        for elem in elems.iter() {
            match elem {
                Elem::Newline => {
                    col = 0;
                    line_overflowed = false;
                }
                Elem::Tab => {
                    col += (8 - col % 8).min(width - col);
                }
                Elem::Unit(index) => {
                    let unit = &mut units[*index];
                    if col + unit.width <= width {
                        if line_overflowed {
                            unit.expect = Expect::Free;
                            ctx.feat("layout.free.fits-after-dropped-cell");
                        }
                        col += unit.width;
                    } else {
                        unit.expect = Expect::Absent;
                        line_overflowed = true;
                        ctx.feat("layout.nowrap.beyond-right-edge");
                    }
                }
            }
        }
    }

    // --- the real thing: measure, then render into a surface of exactly that size
    let text: Text = {
        let mut text = Text::new().with_wraps(case.wraps);
        for cell in cells.iter() {
            text.put_cell(cell.clone());
        }
        text
    };
    let mut store = ViewLayoutStore::new();
    let layout = text
        .layout_new(&vctx, BoxConstraint::loose(Size::new(BIG, width)), &mut store)
        .map_err(|e| Fail::new("layout:layout-error", format!("Text::layout failed: {e}")))?;
    let size = layout.size();
    ensure!(
        size.width <= width && size.height <= BIG,
        "layout:size-exceeds-constraint",
        "layout reported {:?} under max width {width}",
        size
    );
    if size.height >= BIG {
        ctx.nondeciding = true;
        return Ok(());
    }
    let mut surf: SurfaceOwned<Cell> = SurfaceOwned::new(size);
    text.render(&vctx, surf.as_mut(), layout.view())
        .map_err(|e| Fail::new("layout:render-error", format!("Text::render failed: {e}")))?;

    // --- scan row-major
    struct Found {
        id: u32,
        row: usize,
        col: usize,
        kind_ok: bool,
        ch: Option<char>,
    }
    let mut found: Vec<Found> = Vec::new();
    {
        let shape = surf.shape();
        let data = surf.data();
        for row in 0..size.height {
            for col in 0..size.width {
                let cell = &data[shape.offset(Position::new(row, col))];
                let Some(fg) = cell.face().fg else { continue };
                let [r, g, b, _] = fg.to_rgba();
                let id = ((r as u32) << 16) | ((g as u32) << 8) | b as u32;
                if id == 0 || id as usize > case.items.len() {
                    fail!(
                        "layout:unknown-cell",
                        "cell ({row},{col}) carries colour {} that no cell of the text has",
                        show(&fg)
                    );
                }
                let (kind_ok, ch) = match (cell.kind(), cells[id as usize - 1].kind()) {
                    (CellKind::Char(c), CellKind::Char(_)) => (true, Some(*c)),
                    (CellKind::Char(c), CellKind::Glyph(_)) => (!case.term.glyphs, Some(*c)),
                    (CellKind::Glyph(a), CellKind::Glyph(b)) => (a == b && case.term.glyphs, None),
                    (CellKind::Image(a), CellKind::Image(b)) => (a == b, None),
                    _ => (false, None),
                };
                found.push(Found {
                    id,
                    row,
                    col,
                    kind_ok,
                    ch,
                });
            }
        }
    }

    let mode = if case.wraps { "wrap" } else { "nowrap" };
    let describe = || {
        format!(
            "W={width} wraps={} glyphs={} ppc={}x{} reported size {}x{} items={:?}",
            case.wraps,
            case.term.glyphs,
            case.term.ppc_h,
            case.term.ppc_w,
            size.height,
            size.width,
            &case.items[..case.items.len().min(40)]
        )
    };

    // --- match the scan against the expected sequence (greedy, in order)
    // Every found cell must be the next not-yet-matched unit that is allowed to be present;
    // units skipped over must be Absent or Free.
    let mut next = 0usize;
    let mut placed: Vec<Option<(usize, usize)>> = vec![None; units.len()];
    for f in found.iter() {
        // does it match a later unit?
        let matches = |u: &Unit| u.id == f.id && (u.ch.is_none() || u.ch == f.ch);
        let Some(hit) = (next..units.len()).find(|i| matches(&units[*i])) else {
            // either a duplicate / out of order (matches an earlier unit) or nothing at all
            if let Some(prev) = (0..next).find(|i| matches(&units[*i])) {
                if placed[prev].is_some() {
                    let later = ((prev + 1)..next).any(|i| placed[i].is_some());
                    if later {
                        fail!(
                            format!("layout:out-of-order:{mode}:{}", units[prev].kind.name()),
                            "cell #{} ({:?}) found at ({},{}) after cells that follow it in the text; {}",
                            f.id,
                            f.ch,
                            f.row,
                            f.col,
                            describe()
                        );
                    }
                    fail!(
                        format!("layout:duplicate-cell:{mode}:{}", units[prev].kind.name()),
                        "cell #{} ({:?}) appears again at ({},{}), first at {:?}; {}",
                        f.id,
                        f.ch,
                        f.row,
                        f.col,
                        placed[prev],
                        describe()
                    );
                }
                fail!(
                    format!("layout:out-of-order:{mode}:{}", units[prev].kind.name()),
                    "cell #{} ({:?}) found at ({},{}) after cells that follow it in the text; {}",
                    f.id,
                    f.ch,
                    f.row,
                    f.col,
                    describe()
                );
            }
            fail!(
                format!("layout:unexpected-cell:{mode}"),
                "cell ({},{}) = #{} {:?} is no printable cell of the text; {}",
                f.row,
                f.col,
                f.id,
                f.ch,
                describe()
            );
        };
        // units skipped must not be Required
        if let Some(lost) = (next..hit).find(|i| matches!(units[*i].expect, Expect::Required | Expect::RequiredUnfit)) {
            let unit = &units[lost];
            fail!(
                format!("layout:missing-cell:{mode}:{}", unit.kind.name()),
                "cell #{} ({:?}, {} wide) is not on the surface (next cell found is #{} at ({},{})); {}",
                unit.id,
                unit.ch,
                unit.width,
                f.id,
                f.row,
                f.col,
                describe()
            );
        }
        let unit = &units[hit];
        ensure!(
            f.kind_ok,
            format!("layout:cell-kind-differs:{mode}:{}", unit.kind.name()),
            "cell #{} at ({},{}) has another content than the text's cell; {}",
            f.id,
            f.row,
            f.col,
            describe()
        );
        if unit.expect == Expect::Absent {
            fail!(
                format!("layout:beyond-edge-cell-present:{mode}:{}", unit.kind.name()),
                "cell #{} ({:?}, {} wide) does not fit before column {width} on its line, yet it is on the surface at ({},{}); {}",
                unit.id,
                unit.ch,
                unit.width,
                f.row,
                f.col,
                describe()
            );
        }
        placed[hit] = Some((f.row, f.col));
        next = hit + 1;
    }
    if let Some(lost) = (next..units.len()).find(|i| matches!(units[*i].expect, Expect::Required | Expect::RequiredUnfit)) {
        let unit = &units[lost];
        fail!(
            format!("layout:missing-cell:{mode}:{}", unit.kind.name()),
            "cell #{} ({:?}, {} wide) is not on the surface (nothing after it either); {}",
            unit.id,
            unit.ch,
            unit.width,
            describe()
        );
    }

    // --- column spans of cells on one row must not overlap and must lie on the surface
    let mut tall_overlap = false;
    let mut prev: Option<(usize, usize, usize)> = None; // row, end column, unit
    for (index, unit) in units.iter().enumerate() {
        let Some((row, col)) = placed[index] else { continue };
        if matches!(unit.expect, Expect::Free | Expect::RequiredUnfit) {
            prev = None;
            continue;
        }
        if let Some((prow, pend, pindex)) = prev {
            if prow == row && col < pend {
                fail!(
                    format!("layout:spans-overlap:{mode}"),
                    "cell #{} at ({row},{col}) starts inside cell #{} which ends at column {pend}; {}",
                    unit.id,
                    units[pindex].id,
                    describe()
                );
            }
        }
        ensure!(
            col + unit.width <= size.width,
            format!("layout:cell-cut-by-edge:{mode}:{}", unit.kind.name()),
            "cell #{} ({} wide) at ({row},{col}) does not fit the reported width {}; {}",
            unit.id,
            unit.width,
            size.width,
            describe()
        );
        prev = Some((row, col + unit.width, index));
        if unit.height > 1 {
            // the library's layout lets the following line run underneath a tall cell: only counted
            for (j, other) in units.iter().enumerate() {
                if let Some((orow, ocol)) = placed[j] {
                    if j != index
                        && orow > row
                        && orow < row + unit.height
                        && ocol < col + unit.width
                        && ocol + other.width > col
                    {
                        tall_overlap = true;
                    }
                }
            }
            if row + unit.height > size.height {
                fail!(
                    format!("layout:cell-cut-by-edge:{mode}:{}", unit.kind.name()),
                    "cell #{} ({} tall) at row {row} does not fit the reported height {}; {}",
                    unit.id,
                    unit.height,
                    size.height,
                    describe()
                );
            }
        }
    }

    // --- the same characters as a `str` / `String` view (these always wrap): the size and the cells
    //     must be those of the `Text` view that was just judged
    if case.wraps && case.items.iter().all(|item| matches!(item, Item::Ch(_))) {
        let string: String = case
            .items
            .iter()
            .map(|item| match item {
                Item::Ch(c) => *c,
                _ => unreachable!(),
            })
            .collect();
        let as_string = string.len() % 2 == 0;
        let ct = BoxConstraint::loose(Size::new(BIG, width));
        let mut store2 = ViewLayoutStore::new();
        let layout2 = if as_string {
            string.layout_new(&vctx, ct, &mut store2)
        } else {
            (&*string).layout_new(&vctx, ct, &mut store2)
        }
        .map_err(|e| Fail::new("layout:layout-error", format!("str::layout failed: {e}")))?;
        ensure!(
            layout2.size() == size,
            "layout:str-view-size-differs",
            "the {} view of {:?} reports {:?}, the Text view of the same characters {:?} (max width {width})",
            if as_string { "String" } else { "&str" },
            string,
            layout2.size(),
            size
        );
        let mut surf2: SurfaceOwned<Cell> = SurfaceOwned::new(size);
        if as_string {
            string.render(&vctx, surf2.as_mut(), layout2.view())
        } else {
            (&*string).render(&vctx, surf2.as_mut(), layout2.view())
        }
        .map_err(|e| Fail::new("layout:render-error", format!("str::render failed: {e}")))?;
        for row in 0..size.height {
            for col in 0..size.width {
                let pos = Position::new(row, col);
                let (a, b) = (surf.get(pos).map(|c| c.kind()), surf2.get(pos).map(|c| c.kind()));
                ensure!(
                    a == b,
                    "layout:str-view-cells-differ",
                    "cell ({row},{col}): Text view wrote {a:?}, the {} view of {:?} wrote {b:?}",
                    if as_string { "String" } else { "&str" },
                    string
                );
            }
        }
        ctx.feat("layout.str-view-compared");
    }

    // --- a lone glyph used as a view of its own (it wraps like a str view): same size and cells as
    //     the `Text` view holding that glyph
    //     (without glyph support only: with it the glyph view clamps its size, a Text wraps it)
    if case.wraps && cells.len() == 1 && !case.term.glyphs {
        if let CellKind::Glyph(glyph) = cells[0].kind() {
            let ct = BoxConstraint::loose(Size::new(BIG, width));
            let mut store3 = ViewLayoutStore::new();
            let layout3 = glyph
                .layout_new(&vctx, ct, &mut store3)
                .map_err(|e| Fail::new("layout:layout-error", format!("Glyph::layout failed: {e}")))?;
            ensure!(
                layout3.size() == size,
                "layout:glyph-view-size-differs",
                "the glyph as a view reports {:?}, the Text view holding it {:?} (max width {width}, glyph support {})",
                layout3.size(),
                size,
                case.term.glyphs
            );
            let mut surf3: SurfaceOwned<Cell> = SurfaceOwned::new(size);
            glyph
                .render(&vctx, surf3.as_mut(), layout3.view())
                .map_err(|e| Fail::new("layout:render-error", format!("Glyph::render failed: {e}")))?;
            for row in 0..size.height {
                for col in 0..size.width {
                    let pos = Position::new(row, col);
                    let (a, b) = (surf.get(pos).map(|c| c.kind()), surf3.get(pos).map(|c| c.kind()));
                    ensure!(
                        a == b,
                        "layout:glyph-view-cells-differ",
                        "cell ({row},{col}): Text view wrote {a:?}, the glyph as a view wrote {b:?}"
                    );
                }
            }
            ctx.feat("layout.glyph-view-compared");
        }
    }

    // --- features
    ctx.feat(&format!("layout.cases.{mode}"));
    ctx.feat_if(tall_overlap, "layout.tall-cell-overlapped-by-next-line(not judged)");
    ctx.feat_if(size.height > 1 && case.wraps, "layout.multi-row");
    ctx.feat_if(!case.term.glyphs, "layout.glyphs-off");
    ctx.feat_n("layout.cells-placed", placed.iter().flatten().count() as u64);
    items_feats(&case.items, "layout.item", ctx);
    for unit in units.iter() {
        if unit.kind == UnitKind::Fallback {
            ctx.feat("layout.fallback-char");
        }
    }
    Ok(())
}

// ---------------------------------------------------------------------------
// generators

const NARROW: [char; 24] = [
    'a', 'b', 'c', 'x', 'y', 'z', 'A', 'Z', '0', '1', '9', ' ', '.', '-', '|', '[', ']', 'm', ';',
    'é', 'Ж', '→', '─', 'ß',
];
const WIDE: [char; 7] = ['好', '世', '界', 'あ', '한', '🙂', 'Ｗ'];
const ZERO: [char; 8] = [
    '\u{0301}', '\u{200b}', '\u{200d}', '\u{fe0f}', '\u{0}', '\u{7}', '\u{7f}', '\u{1b}',
];
const PPC: [(usize, usize); 4] = [(20, 10), (37, 15), (16, 8), (1, 1)];

fn gen_term(rng: &mut Rng) -> TermCfg {
    let (ppc_h, ppc_w) = *rng.pick(&PPC);
    TermCfg {
        ppc_h,
        ppc_w,
        glyphs: rng.bool(),
    }
}

fn gen_printable(rng: &mut Rng) -> char {
    if rng.chance(1, 5) {
        *rng.pick(&WIDE)
    } else {
        *rng.pick(&NARROW)
    }
}

fn gen_glyph(rng: &mut Rng) -> Item {
    let h = match rng.below(10) {
        0 => 0,
        1 | 2 => 2,
        3 => 3,
        _ => 1,
    };
    let w = match rng.below(10) {
        0 => 0,
        1 | 2 => 1,
        3 => 4,
        4 | 5 => 3,
        _ => 2,
    };
    let len = match rng.below(8) {
        0 => 0,
        1 | 2 => 1,
        3 | 4 => 2,
        5 => 3,
        6 => 4,
        _ => rng.range(3, 7),
    };
    let fb: String = (0..len)
        .map(|_| {
            if rng.chance(1, 12) {
                *rng.pick(&ZERO[..4])
            } else {
                gen_printable(rng)
            }
        })
        .collect();
    Item::Glyph { h, w, fb }
}

fn gen_image(rng: &mut Rng, term: &TermCfg) -> Item {
    if rng.chance(1, 12) {
        return Item::Image {
            ph: rng.below(2) * term.ppc_h,
            pw: rng.below(2) * term.ppc_w * rng.below(2),
        };
    }
    let cells_h = rng.range(1, 3);
    let cells_w = rng.range(1, 4);
    // any pixel size that rounds up to this number of cells
    let ph = (cells_h - 1) * term.ppc_h + rng.range(1, term.ppc_h);
    let pw = (cells_w - 1) * term.ppc_w + rng.range(1, term.ppc_w);
    // keep images small (pixels are allocated)
    Item::Image {
        ph: ph.min(64),
        pw: pw.min(64),
    }
}

/// `cr`: also generate '\r'
fn gen_item(rng: &mut Rng, term: &TermCfg, cr: bool) -> Item {
    match rng.below(100) {
        0..=49 => Item::Ch(*rng.pick(&NARROW)),
        50..=63 => Item::Ch(*rng.pick(&WIDE)),
        64..=68 => Item::Ch(*rng.pick(&ZERO)),
        69..=76 => Item::Ch('\n'),
        77..=83 => Item::Ch('\t'),
        84..=86 => Item::Ch(if cr { '\r' } else { *rng.pick(&NARROW) }),
        87..=94 => gen_glyph(rng),
        _ => gen_image(rng, term),
    }
}

fn gen_items(rng: &mut Rng, term: &TermCfg, max: usize, cr: bool) -> Vec<Item> {
    let len = match rng.below(6) {
        0 => rng.range(0, 3),
        1 | 2 => rng.range(1, max.min(12)),
        _ => rng.range(0, max),
    };
    (0..len).map(|_| gen_item(rng, term, cr)).collect()
}

fn gen_text_string(rng: &mut Rng, len: usize) -> String {
    (0..len)
        .map(|_| match rng.below(100) {
            0..=54 => *rng.pick(&NARROW),
            55..=69 => *rng.pick(&WIDE),
            70..=75 => *rng.pick(&ZERO),
            76..=84 => '\n',
            85..=92 => '\t',
            _ => '\r',
        })
        .collect()
}

const SGR: [&str; 12] = [
    "\x1b[m",
    "\x1b[0m",
    "\x1b[1m",
    "\x1b[1;31m",
    "\x1b[38;2;1;2;3m",
    "\x1b[48;5;200m",
    "\x1b[3;4;38;5;17;48;2;250;251;252m",
    "\x1b[7m",
    "\x1b[22;24m",
    "\x1b[39;49m",
    "\x1b[91m",
    "\x1b[4:3m",
];
const OTHER_ESC: [&str; 8] = [
    "\x1b[2J",
    "\x1b[10;20H",
    "\x1b[?25l",
    "\x1b]0;title\x07",
    "\x1b[1;3",
    "\x1b",
    "\x1bM",
    "\x1b[38;2;1m",
];

fn gen_tokens(rng: &mut Rng, len: usize, escapes: usize) -> Vec<String> {
    (0..len)
        .map(|_| {
            let roll = rng.below(100);
            if roll < escapes {
                if rng.chance(4, 5) {
                    rng.pick(&SGR).to_string()
                } else {
                    rng.pick(&OTHER_ESC).to_string()
                }
            } else {
                match rng.below(100) {
                    0..=49 => rng.pick(&NARROW).to_string(),
                    50..=69 => rng.pick(&WIDE).to_string(),
                    70..=76 => rng.pick(&ZERO[..7]).to_string(),
                    77..=85 => "\n".to_string(),
                    86..=93 => "\t".to_string(),
                    _ => "\r".to_string(),
                }
            }
        })
        .collect()
}

fn gen_steps(rng: &mut Rng, canvas_h: usize, canvas_w: usize) -> Vec<Step> {
    let mut steps = Vec::new();
    let (mut h, mut w) = (canvas_h, canvas_w);
    let count = match rng.below(10) {
        0 => 0,
        1..=5 => 1,
        6..=8 => 2,
        _ => 3,
    };
    for _ in 0..count {
        if h == 0 || w == 0 {
            break;
        }
        match rng.below(10) {
            0..=4 => {
                let empty = rng.chance(1, 25);
                let r0 = rng.range(0, h - 1);
                let c0 = rng.range(0, w - 1);
                let (r1, c1) = if empty {
                    if rng.bool() {
                        (r0, rng.range(c0 + 1, w))
                    } else {
                        (rng.range(r0 + 1, h), c0)
                    }
                } else {
                    (rng.range(r0 + 1, h), rng.range(c0 + 1, w))
                };
                if rng.chance(1, 4) {
                    steps.push(Step::Owned { r0, r1, c0, c1 });
                } else {
                    steps.push(Step::Sub { r0, r1, c0, c1 });
                }
                if empty {
                    h = 0;
                    w = 0;
                } else {
                    h = r1 - r0;
                    w = c1 - c0;
                }
            }
            5 | 6 => {
                steps.push(Step::Transpose);
                std::mem::swap(&mut h, &mut w);
            }
            _ => {
                let rstep = rng.range(1, 3);
                let cstep = rng.range(1, 3);
                let r0 = rng.range(0, h - 1);
                let c0 = rng.range(0, w - 1);
                let max_h = (h - 1 - r0) / rstep + 1;
                let max_w = (w - 1 - c0) / cstep + 1;
                let sh = rng.range(1, max_h);
                let sw = rng.range(1, max_w);
                steps.push(Step::Stride {
                    r0,
                    c0,
                    h: sh,
                    w: sw,
                    rstep,
                    cstep,
                });
                h = sh;
                w = sw;
            }
        }
    }
    steps
}

fn gen_bytes(rng: &mut Rng, tier: Tier, escapes: usize) -> Vec<u8> {
    if rng.chance(1, 12) {
        // ill-formed UTF-8: containment has to hold for it as well (`write` reports an error).
        // Only bytes below 0xE0 (ASCII, stray continuation bytes, 2-byte leads): sequences such
        // as ED A0 80 or F4 90 80 80 make the decoders build an invalid `char` (process abort in
        // `chk`), which is C02's finding and not this property's business.
        let len = rng.range(0, 40);
        return (0..len).map(|_| rng.below(0xe0) as u8).collect();
    }
    let len = match rng.below(12) {
        0 => rng.range(200, tier.pick(1200, 4000)), // keeps going long after the surface is full
        1..=3 => rng.range(20, 120),
        _ => rng.range(0, 20),
    };
    gen_tokens(rng, len, escapes).concat().into_bytes()
}

fn gen_contain(rng: &mut Rng, tier: Tier) -> ContainCase {
    let (canvas_h, canvas_w) = if rng.chance(3, 4) {
        (rng.range(1, 12), rng.range(1, 24))
    } else {
        (rng.range(1, 30), rng.range(1, 60))
    };
    let steps = gen_steps(rng, canvas_h, canvas_w);
    let term = gen_term(rng);
    let mode = if rng.chance(1, 5) {
        let items = gen_items(rng, &term, 60, true);
        let big = rng.chance(1, 3);
        ContainMode::TextView {
            items,
            wraps: rng.chance(3, 4),
            ct_h: if big { rng.range(0, 100) } else { rng.range(0, canvas_h + 2) },
            ct_w: if big { rng.range(0, 100) } else { rng.range(0, canvas_w + 2) },
            row: if rng.bool() { 0 } else { rng.range(0, canvas_h + 1) },
            col: if rng.bool() { 0 } else { rng.range(0, canvas_w + 1) },
        }
    } else {
        let count = rng.range(1, 12);
        let ops = (0..count)
            .map(|_| match rng.below(100) {
                0..=17 => Op::Cell {
                    item: gen_item(rng, &term, true),
                    face: rng.below(8) as u8,
                },
                18..=35 => Op::Put(gen_item(rng, &term, true)),
                36..=44 => Op::Text {
                    items: gen_items(rng, &term, 40, true),
                    wraps: rng.bool(),
                },
                45..=58 => Op::Bytes(gen_bytes(rng, tier, 5)),
                59..=67 => Op::Utf8(gen_bytes(rng, tier, 5)),
                68..=77 => Op::Tty(gen_bytes(rng, tier, 25)),
                78..=81 => Op::Fmt {
                    text: {
                        let len = rng.range(0, 30);
                        gen_text_string(rng, len)
                    },
                    face: if rng.bool() { Some(rng.below(8) as u8) } else { None },
                },
                82..=90 => Op::SetCursor {
                    row: match rng.below(4) {
                        0 => rng.range(0, canvas_h + 3),
                        1 => usize::MAX >> rng.range(0, 40),
                        _ => rng.range(0, canvas_h),
                    },
                    col: match rng.below(4) {
                        0 => rng.range(0, canvas_w + 3),
                        1 => usize::MAX >> rng.range(0, 40),
                        _ => rng.range(0, canvas_w),
                    },
                },
                91..=95 => Op::SetWraps(rng.bool()),
                _ => Op::SetFace(rng.below(8) as u8),
            })
            .collect();
        ContainMode::Writer { ops }
    };
    ContainCase {
        canvas_h,
        canvas_w,
        steps,
        term,
        mode,
    }
}

fn gen_chunk(rng: &mut Rng) -> ChunkCase {
    let sink = match rng.below(3) {
        0 => Sink::Writer,
        1 => Sink::Utf8,
        _ => Sink::Tty,
    };
    let roomy = rng.chance(3, 5);
    let (h, w) = if roomy {
        (rng.range(4, 12), rng.range(8, 40))
    } else {
        (rng.range(1, 4), rng.range(1, 10))
    };
    let len = match rng.below(5) {
        0 => rng.range(0, 4),
        1 => rng.range(30, 90),
        _ => rng.range(1, 30),
    };
    let escapes = match sink {
        Sink::Tty => 30,
        _ => 6,
    };
    let toks = gen_tokens(rng, len, escapes);
    let total: usize = toks.iter().map(|t| t.len()).sum();
    ChunkCase {
        h,
        w,
        sink,
        wraps: rng.chance(3, 4),
        start: if rng.chance(1, 8) {
            Some((rng.range(0, h + 1), rng.range(0, w + 1)))
        } else {
            None
        },
        toks,
        parts: rng.partition(total),
    }
}

fn gen_layout(rng: &mut Rng, tier: Tier, index: u64) -> LayoutCase {
    let term = gen_term(rng);
    let w = match rng.below(4) {
        // every width in turn (a shard sees a fifth of the residues, the shards together all)
        0 | 1 => (index % 40) as usize + 1,
        2 => rng.range(1, 5),
        _ => rng.range(1, 40),
    };
    let max = tier.pick(60, 80);
    LayoutCase {
        items: gen_items(rng, &term, max, false),
        w,
        wraps: rng.chance(2, 3),
        term,
    }
}

// ---------------------------------------------------------------------------

impl Prop for C09 {
    type Case = Case;
    const ID: &'static str = "C09";

    fn default_cases(tier: Tier, flavour: &str) -> u64 {
        // measured: ~50 k cases/s per worker in chk and rel
        match (tier, flavour) {
            (_, "miri") | (_, "miri-sb") => tier.pick(60, 400),
            (Tier::Quick, "asan") | (Tier::Quick, "valgrind") | (Tier::Quick, "tsan") => 60_000,
            (Tier::Quick, _) => 800_000,
            (Tier::Thorough, "asan") | (Tier::Thorough, "tsan") => 4_000_000,
            (Tier::Thorough, "valgrind") => 400_000,
            (Tier::Thorough, _) => 48_000_000,
        }
    }

    fn gen(rng: &mut Rng, tier: Tier, index: u64) -> Case {
        // layout/render agreement gets half of the budget, the other two a quarter each.
        // (drawn from the rng, not from `index`: a shard only sees indices = shard mod nshards)
        match rng.below(4) {
            0 => Case::Contain(gen_contain(rng, tier)),
            1 => Case::Chunk(gen_chunk(rng)),
            _ => Case::Layout(gen_layout(rng, tier, index)),
        }
    }

    fn check(case: &Case, ctx: &mut Ctx) -> Result<(), Fail> {
        match case {
            Case::Contain(case) => check_contain(case, ctx),
            Case::Chunk(case) => check_chunk(case, ctx),
            Case::Layout(case) => check_layout(case, ctx),
        }
    }

    fn nontrivial(case: &Case) -> bool {
        match case {
            Case::Contain(c) => match &c.mode {
                ContainMode::Writer { ops } => !ops.is_empty(),
                ContainMode::TextView { items, .. } => !items.is_empty(),
            },
            Case::Chunk(c) => c.toks.len() > 1,
            Case::Layout(c) => !c.items.is_empty(),
        }
    }

    fn shrink(case: &Case) -> Vec<Case> {
        let mut out = Vec::new();
        match case {
            Case::Contain(c) => {
                match &c.mode {
                    ContainMode::Writer { ops } => {
                        for ops in shrink_vec(ops) {
                            out.push(Case::Contain(ContainCase {
                                mode: ContainMode::Writer { ops },
                                ..c.clone()
                            }));
                        }
                        // shrink payloads of single ops
                        for (i, op) in ops.iter().enumerate() {
                            let smaller: Vec<Op> = match op {
                                Op::Bytes(b) if b.len() > 1 => {
                                    shrink_vec(b).into_iter().map(Op::Bytes).collect()
                                }
                                Op::Utf8(b) if b.len() > 1 => {
                                    shrink_vec(b).into_iter().map(Op::Utf8).collect()
                                }
                                Op::Tty(b) if b.len() > 1 => {
                                    shrink_vec(b).into_iter().map(Op::Tty).collect()
                                }
                                Op::Text { items, wraps } if items.len() > 1 => shrink_vec(items)
                                    .into_iter()
                                    .map(|items| Op::Text {
                                        items,
                                        wraps: *wraps,
                                    })
                                    .collect(),
                                _ => Vec::new(),
                            };
                            for op in smaller.into_iter().take(12) {
                                let mut ops = ops.clone();
                                ops[i] = op;
                                out.push(Case::Contain(ContainCase {
                                    mode: ContainMode::Writer { ops },
                                    ..c.clone()
                                }));
                            }
                        }
                    }
                    ContainMode::TextView {
                        items,
                        wraps,
                        ct_h,
                        ct_w,
                        row,
                        col,
                    } => {
                        for items in shrink_vec(items) {
                            out.push(Case::Contain(ContainCase {
                                mode: ContainMode::TextView {
                                    items,
                                    wraps: *wraps,
                                    ct_h: *ct_h,
                                    ct_w: *ct_w,
                                    row: *row,
                                    col: *col,
                                },
                                ..c.clone()
                            }));
                        }
                    }
                }
                if c.steps.len() > 1 {
                    // dropping the last step keeps the chain valid
                    let mut steps = c.steps.clone();
                    steps.pop();
                    out.push(Case::Contain(ContainCase { steps, ..c.clone() }));
                }
            }
            Case::Chunk(c) => {
                for toks in shrink_vec(&c.toks) {
                    out.push(Case::Chunk(ChunkCase { toks, ..c.clone() }));
                }
                if c.parts.len() > 2 {
                    for parts in shrink_vec(&c.parts).into_iter().take(20) {
                        out.push(Case::Chunk(ChunkCase { parts, ..c.clone() }));
                    }
                }
                if c.start.is_some() {
                    out.push(Case::Chunk(ChunkCase {
                        start: None,
                        ..c.clone()
                    }));
                }
            }
            Case::Layout(c) => {
                for items in shrink_vec(&c.items) {
                    out.push(Case::Layout(LayoutCase { items, ..c.clone() }));
                }
                // simplify single items
                for (i, item) in c.items.iter().enumerate() {
                    let simpler = match item {
                        Item::Ch(ch) if *ch != 'a' && cw(*ch) == 1 => Some(Item::Ch('a')),
                        Item::Glyph { h, w, fb } if fb.chars().count() > 1 => {
                            let mut chars: Vec<char> = fb.chars().collect();
                            chars.pop();
                            Some(Item::Glyph {
                                h: *h,
                                w: *w,
                                fb: chars.into_iter().collect(),
                            })
                        }
                        _ => None,
                    };
                    if let Some(item) = simpler {
                        let mut items = c.items.clone();
                        items[i] = item;
                        out.push(Case::Layout(LayoutCase { items, ..c.clone() }));
                    }
                }
            }
        }
        out
    }

    fn finish(ctx: &mut Ctx) -> Option<String> {
        // The run must have seen what the property is about. Thresholds are far below the
        // measured rates (each of these features occurs in > 1 % of the cases of its kind);
        // they only apply once a shard has run enough cases for that to be meaningful.
        let get = |name: &str| ctx.feats.get(name).copied().unwrap_or(0);
        let total = get("contain.cases")
            + get("chunk.cases.writer")
            + get("chunk.cases.utf8_writer")
            + get("chunk.cases.tty_writer")
            + get("layout.cases.wrap")
            + get("layout.cases.nowrap");
        if cfg!(miri) || total < 4_000 {
            return None;
        }
        const NEEDED: [&str; 16] = [
            "contain.view.sub",
            "contain.view.strided",
            "contain.view.transpose",
            "contain.view.nested",
            "contain.text-view",
            "contain.wrote-past-the-end",
            "contain.set_cursor-beyond-size",
            "contain.item.wide",
            "chunk.cut-inside-utf8-char",
            "chunk.cut-inside-escape",
            "chunk.fits",
            "layout.multi-row",
            "layout.nowrap.beyond-right-edge",
            "layout.fallback-char",
            "layout.item.wide",
            "layout.item.tab",
        ];
        let missing: Vec<&str> = NEEDED.iter().copied().filter(|n| get(n) == 0).collect();
        if missing.is_empty() {
            None
        } else {
            Some(format!(
                "{total} deciding cases but never observed: {}",
                missing.join(", ")
            ))
        }
    }

    fn rule() -> &'static str {
        "case = Contain(canvas size, view chain, terminal caps, writer ops | text view) | Chunk(surface size, sink, wraps, token stream, partition) | Layout(items, max width, wraps, terminal caps); max widths 1..=40 visited in turn by the case index and at random; non-trivial = at least one op / two tokens / one item; distinct = hash of the whole case"
    }

    fn sample(case: &Case) -> serde_json::Value {
        let text = serde_json::to_string(case).unwrap_or_default();
        let short: String = text.chars().take(400).collect();
        serde_json::json!({ "case_head": short })
    }
}
