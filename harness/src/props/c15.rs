//! C15 — compiled automata accept exactly the language of the expression that built them
//!
//! Two kinds of cases:
//!
//! * `Expr` — a random expression AST (`models::regex::Re`) is turned into a library NFA through
//!   the public combinators only (`NFA::from(&str)`, `predicate`, `sequence` / `+`, `choice` / `|`,
//!   `optional`, `some`, `many`, `empty`, `nothing`, `tag_stop_state`) and compiled. Every string
//!   over (alphabet of the expression ∪ foreign bytes) up to `max_len` is enumerated prefix by
//!   prefix with the DFA state and the Brzozowski residual of the AST in hand. Asserted:
//!     - `info(state).is_accepting`  ⇔  residual nullable  (both directions, every prefix)
//!     - `DFA::matches(prefix)`      ⇔  residual nullable  (both directions, every prefix)
//!     - `transition == None`        ⇒  no extension of the prefix matches (never a false dead end)
//!     - top-level choice whose alternatives carry tags: `info(state).tags` == set of tags of the
//!       alternatives that match exactly this prefix (every prefix, both directions)
//!     - `is_terminal`               ⇒  none of the 256 bytes has a transition
//!     - a byte that occurs nowhere in the expression never leads to an accepting state
//!   NOT asserted: that a dead end is reported as early as possible (a live state from which
//!   nothing can be accepted is only counted, e.g. `a · nothing`), nor that a state without
//!   outgoing edges is flagged terminal.
//!
//! * `Prod` — strings sampled from reference grammars of the production families (transcribed
//!   from the grammar comments / combinator expressions in `decoder.rs`: the reference is the
//!   *expression*, the property is about its compilation) plus single-edit mutants are run
//!   through `decoder::verif::accept_trace` and through the derivative matcher of the UNION
//!   of all families of that automaton (event: 14 families, command: 2). Because the union is
//!   complete, both directions are asserted at every prefix: accepting ⇔ union nullable;
//!   dead ⇒ union residual void; terminal ⇒ no byte extends.
use crate::core::{shrink_vec, Ctx, Fail, Prop, Tier};
use crate::models::regex::{Derivs, Re, ResidualId};
use crate::rng::Rng;
use crate::{ensure, fail};
use serde::{Deserialize, Serialize};
use std::collections::{BTreeSet, HashSet};
use std::sync::{LazyLock, Mutex};
use surf_n_term::automata::{DFAState, DFA, NFA};
use surf_n_term::decoder::verif::{accept_trace, Automata};

pub struct C15;

#[derive(Clone, Debug, Serialize, Deserialize)]
pub enum Case {
    Expr {
        re: Re,
        /// Some(tags): `re` is an `Alt` and alternative i is tagged with tags[i]
        tags: Option<Vec<usize>>,
        /// bytes outside the expression's alphabet that are enumerated as well
        extra: Vec<u8>,
        max_len: usize,
    },
    Prod {
        /// true: event automaton, false: command automaton
        event: bool,
        /// family the base string was sampled from (diagnostics / signature only)
        family: String,
        inputs: Vec<Vec<u8>>,
    },
}

// ---------------------------------------------------------------------------
// AST -> library NFA, public combinators only

/// Build the library NFA for an expression through the public combinators.
pub fn to_nfa<T>(re: &Re) -> NFA<T> {
    match re {
        Re::Lit(bytes) => match std::str::from_utf8(bytes) {
            Ok(text) => NFA::from(text),
            // `From<&str>` cannot carry arbitrary bytes: chain single-byte predicates
            Err(_) => NFA::sequence(bytes.iter().map(|b| {
                let b = *b;
                NFA::predicate(move |x| x == b)
            })),
        },
        // the ready-made atoms of the library where the expression happens to be one
        Re::Class(set) if is_digits(set) => NFA::digit(),
        Re::Plus(inner) if matches!(&**inner, Re::Class(set) if is_digits(set)) => NFA::number(),
        Re::Class(set) => {
            let mut member = [false; 256];
            for b in set {
                member[*b as usize] = true;
            }
            NFA::predicate(move |x| member[x as usize])
        }
        // two operands: through the operator or through the n-ary combinator, decided by the shape
        Re::Seq(parts) => {
            if parts.len() == 2 && parts[0].size() % 2 == 1 {
                to_nfa(&parts[0]) + to_nfa(&parts[1])
            } else {
                NFA::sequence(parts.iter().map(to_nfa))
            }
        }
        Re::Alt(parts) => {
            if parts.len() == 2 && parts[0].size() % 2 == 1 {
                to_nfa(&parts[0]) | to_nfa(&parts[1])
            } else {
                NFA::choice(parts.iter().map(to_nfa))
            }
        }
        Re::Opt(r) => to_nfa::<T>(r).optional(),
        Re::Plus(r) => to_nfa::<T>(r).some(),
        Re::Star(r) => to_nfa::<T>(r).many(),
        Re::Empty => NFA::empty(),
        Re::Nothing => NFA::nothing(),
    }
}

fn is_digits(set: &[u8]) -> bool {
    let mut sorted = set.to_vec();
    sorted.sort_unstable();
    sorted.dedup();
    sorted == (b'0'..=b'9').collect::<Vec<u8>>()
}

fn hex(bytes: &[u8]) -> String {
    let mut out = String::new();
    for b in bytes {
        if b.is_ascii_graphic() && *b != b'\\' && *b != b'"' {
            out.push(*b as char)
        } else {
            out.push_str(&format!("\\x{:02x}", b))
        }
    }
    format!("\"{}\"", out)
}

// ---------------------------------------------------------------------------
// Expr cases

fn loop_at_edge(re: &Re) -> bool {
    match re {
        Re::Plus(_) | Re::Star(_) => true,
        Re::Seq(v) => v.first().is_some_and(loop_at_edge) || v.last().is_some_and(loop_at_edge),
        Re::Alt(v) => v.iter().any(loop_at_edge),
        Re::Opt(r) => loop_at_edge(r),
        _ => false,
    }
}

fn has_void_part(re: &Re) -> bool {
    re.is_void()
        || match re {
            Re::Seq(v) | Re::Alt(v) => v.iter().any(has_void_part),
            Re::Opt(r) | Re::Plus(r) | Re::Star(r) => has_void_part(r),
            _ => false,
        }
}

fn shape_feats(re: &Re, ctx: &mut Ctx) {
    match re {
        Re::Opt(r) => {
            ctx.feat_if(
                loop_at_edge(r),
                "shape.optional-of-operand-with-loop-at-edge",
            );
            shape_feats(r, ctx)
        }
        Re::Plus(r) => {
            ctx.feat_if(loop_at_edge(r), "shape.some-of-operand-with-loop-at-edge");
            ctx.feat_if(r.nullable(), "shape.some-of-nullable");
            shape_feats(r, ctx)
        }
        Re::Star(r) => {
            ctx.feat_if(loop_at_edge(r), "shape.many-of-operand-with-loop-at-edge");
            shape_feats(r, ctx)
        }
        Re::Seq(v) => {
            ctx.feat_if(v.is_empty(), "shape.sequence-of-none");
            v.iter().for_each(|r| shape_feats(r, ctx))
        }
        Re::Alt(v) => {
            ctx.feat_if(v.is_empty(), "shape.choice-of-none");
            v.iter().for_each(|r| shape_feats(r, ctx))
        }
        Re::Nothing => ctx.feat("shape.nothing"),
        Re::Empty => ctx.feat("shape.empty"),
        Re::Class(set) => ctx.feat_if(set.is_empty(), "shape.predicate-matching-no-byte"),
        Re::Lit(bytes) => ctx.feat_if(bytes.is_empty(), "shape.empty-literal"),
    }
}

struct Walk<'a> {
    dfa: &'a DFA<usize>,
    root: Derivs,
    /// per tagged alternative: (tag, residual walker)
    alts: Vec<(usize, Derivs)>,
    symbols: Vec<u8>,
    in_alphabet: [bool; 256],
    swept: HashSet<DFAState>,
    prefix: Vec<u8>,
    expr: String,
    // counters
    compared: u64,
    accepted: u64,
    dead: u64,
    live_void: u64,
    tag_checks: u64,
    multi_tag: u64,
    terminals: u64,
}

impl Walk<'_> {
    fn node(&mut self, state: DFAState, d: ResidualId, alt_ids: &[ResidualId]) -> Result<(), Fail> {
        let info = self.dfa.info(state);
        let want = self.root.nullable(d);
        self.compared += 1;
        if want {
            self.accepted += 1;
        }
        if info.is_accepting != want {
            let sig = if info.is_accepting {
                "accept:over"
            } else {
                "accept:under"
            };
            fail!(
                sig,
                "expression {} string {}: is_accepting={} but the regular expression {}",
                self.expr,
                hex(&self.prefix),
                info.is_accepting,
                if want { "matches" } else { "does not match" }
            );
        }
        let whole = self.dfa.matches(self.prefix.iter().copied());
        if whole != want {
            fail!(
                if whole {
                    "matches:over"
                } else {
                    "matches:under"
                },
                "expression {} string {}: DFA::matches={} but the regular expression {}",
                self.expr,
                hex(&self.prefix),
                whole,
                if want { "matches" } else { "does not match" }
            );
        }
        if !self.alts.is_empty() {
            let want_tags: BTreeSet<usize> = self
                .alts
                .iter()
                .zip(alt_ids)
                .filter(|((_, derivs), id)| derivs.nullable(**id))
                .map(|((tag, _), _)| *tag)
                .collect();
            self.tag_checks += 1;
            if want_tags.len() > 1 {
                self.multi_tag += 1;
            }
            if info.tags != want_tags {
                let sig = if info.tags.is_superset(&want_tags) {
                    "tags:extra"
                } else if info.tags.is_subset(&want_tags) {
                    "tags:missing"
                } else {
                    "tags:wrong"
                };
                fail!(
                    sig,
                    "tagged choice {} string {}: reported tags {:?}, alternatives matching this string carry {:?}",
                    self.expr,
                    hex(&self.prefix),
                    info.tags,
                    want_tags
                );
            }
        }
        if self.swept.insert(state) {
            // once per distinct DFA state: look at all 256 bytes
            if info.is_terminal {
                self.terminals += 1;
            }
            for byte in 0..=255u8 {
                let next = self.dfa.transition(state, byte);
                if info.is_terminal && next.is_some() {
                    fail!(
                        "terminal:has-transition",
                        "expression {} string {}: state flagged is_terminal but byte 0x{:02x} has a transition",
                        self.expr,
                        hex(&self.prefix),
                        byte
                    );
                }
                if let Some(next) = next {
                    if !self.in_alphabet[byte as usize] && self.dfa.info(next).is_accepting {
                        fail!(
                            "accept:over:byte-not-in-expression",
                            "expression {} string {} + 0x{:02x}: accepted although the byte occurs nowhere in the expression",
                            self.expr,
                            hex(&self.prefix),
                            byte
                        );
                    }
                }
            }
        }
        Ok(())
    }

    fn dfs(
        &mut self,
        state: DFAState,
        d: ResidualId,
        alt_ids: &[ResidualId],
        left: usize,
    ) -> Result<(), Fail> {
        if left == 0 {
            return Ok(());
        }
        for index in 0..self.symbols.len() {
            let byte = self.symbols[index];
            let d2 = self.root.step(d, byte);
            self.prefix.push(byte);
            match self.dfa.transition(state, byte) {
                None => {
                    self.dead += 1;
                    if !self.root.is_void(d2) {
                        // find a witness extension for the report
                        let witness = self
                            .root
                            .residual(d2)
                            .sample(&mut Rng::new(1))
                            .unwrap_or_default();
                        fail!(
                            "dead:extension-matches",
                            "expression {} string {}: transition reports a dead end, but the expression matches {} + {}",
                            self.expr,
                            hex(&self.prefix),
                            hex(&self.prefix),
                            hex(&witness)
                        );
                    }
                    // the whole-string entry points must agree with the byte-wise walk on a string
                    // that runs into a dead end, also when more input follows it
                    for extra in [None, Some(self.symbols[0])] {
                        let mut text = self.prefix.clone();
                        text.extend(extra);
                        let many = self.dfa.transition_many(self.dfa.start(), text.iter().copied());
                        if many.is_some() || self.dfa.matches(text.iter().copied()) {
                            fail!(
                                "many:dead-end-not-reported",
                                "expression {} string {}: the byte-wise walk dies at byte #{}, but transition_many={:?} matches={}",
                                self.expr,
                                hex(&text),
                                self.prefix.len() - 1,
                                many,
                                self.dfa.matches(text.iter().copied())
                            );
                        }
                    }
                }
                Some(next) => {
                    let many = self.dfa.transition_many(self.dfa.start(), self.prefix.iter().copied());
                    if many != Some(next) {
                        fail!(
                            "many:differs-from-stepwise",
                            "expression {} string {}: transition_many gives {:?}, stepping byte by byte gives {:?}",
                            self.expr,
                            hex(&self.prefix),
                            many,
                            next
                        );
                    }
                    if self.root.is_void(d2) {
                        self.live_void += 1;
                    }
                    let ids2: Vec<ResidualId> = self
                        .alts
                        .iter_mut()
                        .zip(alt_ids)
                        .map(|((_, derivs), id)| derivs.step(*id, byte))
                        .collect();
                    self.node(next, d2, &ids2)?;
                    self.dfs(next, d2, &ids2, left - 1)?;
                }
            }
            self.prefix.pop();
        }
        Ok(())
    }
}

fn check_expr(
    re: &Re,
    tags: &Option<Vec<usize>>,
    extra: &[u8],
    max_len: usize,
    ctx: &mut Ctx,
) -> Result<(), Fail> {
    let tagged: Option<(&Vec<Re>, &Vec<usize>)> = match (re, tags) {
        (Re::Alt(parts), Some(tags)) if parts.len() == tags.len() => Some((parts, tags)),
        (_, Some(_)) => {
            // malformed case (only reachable through hand-written replay files)
            ctx.nondeciding = true;
            return Ok(());
        }
        _ => None,
    };
    let nfa: NFA<usize> = match tagged {
        Some((parts, tags)) => NFA::choice(
            parts
                .iter()
                .zip(tags)
                .map(|(part, tag)| {
                    if (part.size() + *tag) % 3 == 0 {
                        // through the tag-mapping combinator: same language, mapped tags
                        to_nfa::<u64>(part).tag_stop_state(*tag as u64 + 1000).tags_map(|t| (t - 1000) as usize)
                    } else {
                        to_nfa::<usize>(part).tag_stop_state(*tag)
                    }
                }),
        ),
        None => to_nfa(re),
    };
    let dfa = nfa.compile();

    let alphabet = re.alphabet();
    let mut in_alphabet = [false; 256];
    for b in alphabet.iter() {
        in_alphabet[*b as usize] = true;
    }
    let mut symbols = alphabet.clone();
    for b in extra {
        if !symbols.contains(b) {
            symbols.push(*b);
        }
    }
    let alts: Vec<(usize, Derivs)> = match tagged {
        Some((parts, tags)) => parts
            .iter()
            .zip(tags)
            .map(|(part, tag)| (*tag, Derivs::new(part)))
            .collect(),
        None => Vec::new(),
    };
    let mut walk = Walk {
        dfa: &dfa,
        root: Derivs::new(re),
        alts,
        symbols,
        in_alphabet,
        swept: HashSet::new(),
        prefix: Vec::new(),
        expr: re.show(),
        compared: 0,
        accepted: 0,
        dead: 0,
        live_void: 0,
        tag_checks: 0,
        multi_tag: 0,
        terminals: 0,
    };
    // the oracle checks itself: members sampled from the AST and random strings must be classified
    // identically by the derivative matcher and by a second, naive position-set matcher
    {
        let mut rng = Rng::new(crate::core::fnv(walk.expr.as_bytes()) ^ max_len as u64);
        for round in 0..6 {
            let text: Vec<u8> = if round < 3 {
                match re.sample_with(&mut rng, 2) {
                    Some(member) => {
                        ensure!(
                            re.matches(&member),
                            "oracle:self-check:sampled-member-rejected",
                            "HARNESS BUG: {} sampled {} but the derivative matcher rejects it",
                            walk.expr,
                            hex(&member)
                        );
                        member
                    }
                    None => continue,
                }
            } else {
                if walk.symbols.is_empty() {
                    Vec::new()
                } else {
                    (0..rng.range(0, 6))
                        .map(|_| walk.symbols[rng.below(walk.symbols.len())])
                        .collect()
                }
            };
            ensure!(
                re.matches(&text) == re.matches_naive(&text),
                "oracle:self-check:matchers-disagree",
                "HARNESS BUG: {} on {}: derivative matcher says {}, naive matcher says {}",
                walk.expr,
                hex(&text),
                re.matches(&text),
                re.matches_naive(&text)
            );
        }
    }
    let start = dfa.start();
    let d0 = walk.root.start();
    let ids0: Vec<ResidualId> = walk.alts.iter().map(|(_, d)| d.start()).collect();
    walk.node(start, d0, &ids0)?;
    walk.dfs(start, d0, &ids0, max_len)?;

    ctx.feat("expr");
    ctx.feat_n("expr.strings-compared", walk.compared);
    ctx.feat_n("expr.strings-accepted", walk.accepted);
    ctx.feat_n("expr.dead-transitions-checked", walk.dead);
    ctx.feat_n(
        "expr.live-state-with-void-residual(not asserted)",
        walk.live_void,
    );
    if !has_void_part(re) {
        // informational: Thompson automata of expressions without an empty-language part are trim,
        // so a dead end is in fact reported as early as possible; the property does not ask for it
        ctx.feat_n(
            "expr.late-dead-end-in-expression-without-void-part(not asserted)",
            walk.live_void,
        );
    }
    ctx.feat_n("expr.tag-sets-compared", walk.tag_checks);
    ctx.feat_n("expr.strings-with-several-tags", walk.multi_tag);
    ctx.feat_n("expr.terminal-states-swept", walk.terminals);
    ctx.feat_n("expr.dfa-states-swept-256", walk.swept.len() as u64);
    ctx.feat_if(tagged.is_some(), "expr.tagged-choice");
    shape_feats(re, ctx);
    Ok(())
}

// ---------------------------------------------------------------------------
// Prod cases: reference grammars

fn esc(tail: &str) -> Re {
    let mut bytes = vec![0x1b];
    bytes.extend_from_slice(tail.as_bytes());
    Re::Lit(bytes)
}

fn digit() -> Re {
    Re::class(|b| b.is_ascii_digit())
}

fn number() -> Re {
    digit().plus()
}

fn utf8(one: Re) -> Re {
    let tail = || Re::class(|b| b >> 6 == 0b10);
    Re::alt([
        one,
        Re::seq([Re::class(|b| b >> 5 == 0b110), tail()]),
        Re::seq([Re::class(|b| b >> 4 == 0b1110), tail(), tail()]),
        Re::seq([Re::class(|b| b >> 3 == 0b11110), tail(), tail(), tail()]),
    ])
}

/// SGR  `ESC [ ( [0-9:]* ;? )+ m`
fn sgr() -> Re {
    Re::seq([
        esc("["),
        Re::seq([
            Re::class(|b| b.is_ascii_digit() || b == b':').star(),
            Re::lit(";").opt(),
        ])
        .plus(),
        Re::lit("m"),
    ])
}

/// literal key table (accept language only; which key each sequence means is C04's business)
fn basic_keys() -> Re {
    let tilde_codes = [
        "1", "2", "3", "4", "5", "6", "7", "8", "11", "12", "13", "14", "15", "17", "18", "19",
        "20", "21", "23", "24",
    ];
    let letters = || Re::bytes(b"ABCDFHPQRS");
    let modifier = || Re::bytes(b"2345678");
    Re::alt([
        esc(""),
        Re::lit([0x7fu8]),
        Re::lit([0x00u8]),
        // ctrl+letter: letter & 0x1f
        Re::class(|b| (0x01..=0x1a).contains(&b)),
        // alt+letter / alt+shift+letter / alt+punctuation / alt+digit
        Re::seq([
            esc(""),
            Re::class(|b| b.is_ascii_alphanumeric() || b.is_ascii_punctuation()),
        ]),
        // CSI code ~  and  CSI code ; modifier ~
        Re::seq([
            esc("["),
            Re::alt(tilde_codes.iter().map(Re::lit)),
            Re::seq([Re::lit(";"), modifier()]).opt(),
            Re::lit("~"),
        ]),
        // CSI letter, SS3 P..S, CSI 1 ; modifier letter
        Re::seq([esc("["), letters()]),
        Re::seq([esc("O"), Re::bytes(b"PQRS")]),
        Re::seq([esc("[1;"), modifier(), letters()]),
    ])
}

fn event_families() -> Vec<(&'static str, Re)> {
    let alnum = || Re::class(|b| b.is_ascii_alphanumeric());
    let kitty_kv = || Re::seq([alnum().plus(), Re::lit("="), alnum().plus()]);
    let hex2 = || {
        Re::seq([
            Re::class(|b| b.is_ascii_hexdigit()),
            Re::class(|b| b.is_ascii_hexdigit()),
        ])
    };
    let cap_kv = || Re::seq([hex2().plus(), Re::lit("="), hex2().plus()]);
    let size = || Re::seq([Re::lit(";"), number(), Re::lit(";"), number(), Re::lit("t")]);
    vec![
        ("keys", basic_keys()),
        // DSR-CPR  ESC [ row ; col R
        (
            "cursor-position",
            Re::seq([esc("["), number(), Re::lit(";"), number(), Re::lit("R")]),
        ),
        // DECRPM  ESC [ ? mode ; status $ y
        (
            "decrpm",
            Re::seq([esc("[?"), number(), Re::lit(";"), number(), Re::lit("$y")]),
        ),
        // DA1  ESC [ ? attr ; … ; attr c
        (
            "da1",
            Re::seq([
                esc("[?"),
                Re::seq([number(), Re::lit(";").opt()]).plus(),
                Re::lit("c"),
            ]),
        ),
        ("sgr", sgr()),
        // kitty graphics response  ESC _ G key=value(,key=value)* ; response ESC \
        (
            "kitty-image",
            Re::seq([
                esc("_G"),
                kitty_kv(),
                Re::seq([Re::lit(","), kitty_kv()]).star(),
                Re::lit(";"),
                Re::class(|b| b != 0x1b).star(),
                esc("\\"),
            ]),
        ),
        // kitty keyboard  ESC [ ? level u  |  ESC [ [;:0-9]* u
        (
            "kitty-keyboard",
            Re::seq([
                esc("["),
                Re::alt([
                    Re::seq([Re::lit("?"), digit().plus()]),
                    Re::class(|b| matches!(b, b';' | b':' | b'0'..=b'9')).star(),
                ]),
                Re::lit("u"),
            ]),
        ),
        // SGR mouse  ESC [ < event ; col ; row (m|M)
        (
            "mouse",
            Re::seq([
                esc("[<"),
                number(),
                Re::lit(";"),
                number(),
                Re::lit(";"),
                number(),
                Re::bytes(b"mM"),
            ]),
        ),
        // OSC response  ESC ] number ; text (ESC \ | BEL)
        (
            "osc",
            Re::seq([
                esc("]"),
                number(),
                Re::lit(";"),
                Re::class(|b| b != 0x1b && b != 0x07).plus(),
                Re::alt([esc("\\"), Re::lit([0x07u8])]),
            ]),
        ),
        // DECRPSS  ESC P (0|1) $ r data ESC \
        (
            "decrpss",
            Re::seq([
                esc("P"),
                Re::alt([Re::lit("0"), Re::lit("1")]),
                Re::lit("$r"),
                Re::class(|b| b != 0x1b).star(),
                esc("\\"),
            ]),
        ),
        // XTGETTCAP  ESC P 1 + r key=value(;key=value)* ESC \  |  ESC P 0 + r key(;key)* ESC \
        // (keys and values hex encoded: pairs of hex digits), list optional
        (
            "termcap",
            Re::seq([
                Re::alt([
                    Re::seq([
                        esc("P1+r"),
                        Re::seq([cap_kv(), Re::seq([Re::lit(";"), cap_kv()]).star()]).opt(),
                    ]),
                    Re::seq([
                        esc("P0+r"),
                        Re::seq([hex2().plus(), Re::seq([Re::lit(";"), hex2().plus()]).star()])
                            .opt(),
                    ]),
                ]),
                esc("\\"),
            ]),
        ),
        // XTWINOPS size pair  ESC [ 8 ; h ; w t ESC [ 4 ; h ; w t
        ("term-size", Re::seq([esc("[8"), size(), esc("[4"), size()])),
        // UTF-8 shaped, one-byte codes restricted to printable ASCII
        (
            "utf8-printable",
            utf8(Re::class(|b| (b' '..=b'~').contains(&b))),
        ),
        // bracketed paste  ESC [ 200 ~ text ESC [ 201 ~
        (
            "paste",
            Re::seq([esc("[200~"), Re::class(|b| b != 0x1b).star(), esc("[201~")]),
        ),
    ]
}

fn command_families() -> Vec<(&'static str, Re)> {
    vec![
        ("sgr", sgr()),
        (
            "utf8-not-escape",
            utf8(Re::class(|b| b < 0x80 && b != 0x1b)),
        ),
    ]
}

struct Reference {
    families: Vec<(&'static str, Re)>,
    union: Mutex<Derivs>,
}

fn reference(families: Vec<(&'static str, Re)>) -> Reference {
    let union = Re::alt(families.iter().map(|(_, re)| re.clone()));
    Reference {
        families,
        union: Mutex::new(Derivs::new(&union)),
    }
}

static EVENT: LazyLock<Reference> = LazyLock::new(|| reference(event_families()));
static COMMAND: LazyLock<Reference> = LazyLock::new(|| reference(command_families()));

fn check_prod(event: bool, family: &str, inputs: &[Vec<u8>], ctx: &mut Ctx) -> Result<(), Fail> {
    let (reference, kind, name) = if event {
        (&*EVENT, Automata::Event, "event")
    } else {
        (&*COMMAND, Automata::Command, "command")
    };
    let mut union = reference.union.lock().unwrap_or_else(|e| e.into_inner());
    for input in inputs {
        let trace = accept_trace(kind, input);
        ensure!(
            trace.len() == input.len(),
            "prod:trace-length",
            "accept_trace returned {} entries for {} bytes",
            trace.len(),
            input.len()
        );
        let mut d = union.start();
        let mut accepted_whole = false;
        for (index, byte) in input.iter().enumerate() {
            d = union.step(d, *byte);
            let prefix = &input[..=index];
            match trace[index] {
                None => {
                    if !union.is_void(d) {
                        let witness = union
                            .residual(d)
                            .sample(&mut Rng::new(1))
                            .unwrap_or_default();
                        fail!(
                            format!("prod:{name}:dead-but-grammar-continues:{family}"),
                            "{name} automaton reports a dead end after {}, but the reference grammar matches {} + {}",
                            hex(prefix),
                            hex(prefix),
                            hex(&witness)
                        );
                    }
                    ctx.feat("prod.dead-end-checked");
                    break;
                }
                Some((accepting, terminal)) => {
                    let want = union.nullable(d);
                    if accepting != want {
                        let matching: Vec<&str> = reference
                            .families
                            .iter()
                            .filter(|(_, re)| re.matches(prefix))
                            .map(|(n, _)| *n)
                            .collect();
                        fail!(
                            format!(
                                "prod:{name}:{}:{family}",
                                if accepting { "over-accept" } else { "under-accept" }
                            ),
                            "{name} automaton {} {} (sampled from family {family}); reference grammars matching it: {:?}",
                            if accepting { "accepts" } else { "does not accept" },
                            hex(prefix),
                            matching
                        );
                    }
                    if terminal {
                        for next in 0..=255u8 {
                            let d2 = union.step(d, next);
                            ensure!(
                                union.is_void(d2),
                                format!("prod:{name}:terminal-but-extendable:{family}"),
                                "{name} automaton flags the state after {} terminal, but the reference grammar can continue with byte 0x{:02x}",
                                hex(prefix),
                                next
                            );
                        }
                        ctx.feat("prod.terminal-state-checked");
                    }
                    if union.is_void(d) {
                        ctx.feat("prod.live-state-with-void-residual(not asserted)");
                    }
                    if index + 1 == input.len() {
                        accepted_whole = accepting;
                    }
                }
            }
        }
        ctx.feat_n("prod.prefixes-compared", input.len() as u64);
        ctx.feat(if accepted_whole {
            "prod.string.accepted"
        } else {
            "prod.string.rejected"
        });
        if accepted_whole {
            ctx.feat(&format!("prod.{name}.accepted.{family}"));
        }
    }
    ctx.feat_n("prod.strings", inputs.len() as u64);
    Ok(())
}

// ---------------------------------------------------------------------------
// generators

fn pick_alphabet(rng: &mut Rng) -> Vec<u8> {
    let n = rng.range(2, 4);
    let mut out: Vec<u8> = match rng.below(6) {
        // table borders of the dense transition table
        0 => vec![0x00, 0xff, b'a', 0x80],
        1 => vec![b'a', 0xfe, 0xff, 0x01],
        // adjacent bytes
        2 => vec![b'0', b'1', b'2', b'3'],
        // bytes of multi-byte UTF-8 characters: literals such as "é" go through `NFA::from(&str)`
        3 => vec![0xc3, 0xa9, 0xa8, b'a'],
        _ => vec![b'a', b'b', b'c', b'd'],
    };
    if rng.chance(1, 3) {
        rng.shuffle(&mut out);
    }
    out.truncate(n);
    out
}

fn atom(rng: &mut Rng, alphabet: &[u8]) -> Re {
    match rng.below(40) {
        0 => Re::Empty,
        1 => Re::Nothing,
        2 => Re::Lit(Vec::new()),
        3 => Re::Class(Vec::new()),
        4 => Re::Seq(Vec::new()),
        5 => Re::Alt(Vec::new()),
        6 => Re::bytes((b'0'..=b'9').collect::<Vec<u8>>()),
        7..=20 => Re::Lit((0..rng.range(1, 3)).map(|_| *rng.pick(alphabet)).collect()),
        21..=30 => Re::Lit(vec![*rng.pick(alphabet)]),
        _ => {
            let mut set: Vec<u8> = alphabet.iter().copied().filter(|_| rng.bool()).collect();
            if set.is_empty() {
                set.push(*rng.pick(alphabet));
            }
            Re::bytes(set)
        }
    }
}

fn gen_re(rng: &mut Rng, depth: usize, alphabet: &[u8]) -> Re {
    if depth <= 1 {
        return atom(rng, alphabet);
    }
    let sub = |rng: &mut Rng| gen_re(rng, depth - 1, alphabet);
    let small = |rng: &mut Rng| gen_re(rng, depth.saturating_sub(2).max(1), alphabet);
    match rng.below(24) {
        0..=2 => atom(rng, alphabet),
        // arities 1..=4: a one-operand choice / sequence is a legal use of the combinators too
        3..=5 => {
            let n = if rng.chance(1, 6) { 1 } else { rng.range(2, 4) };
            Re::seq((0..n).map(|_| sub(rng)).collect::<Vec<_>>())
        }
        6 | 7 => {
            let n = if rng.chance(1, 4) { 1 } else { rng.range(2, 4) };
            Re::alt((0..n).map(|_| sub(rng)).collect::<Vec<_>>())
        }
        8 => {
            // choice with shared prefixes
            let head = small(rng);
            let a = small(rng);
            let b = small(rng);
            Re::alt([Re::seq([head.clone(), a]), Re::seq([head.clone(), b]), head])
        }
        9 => sub(rng).opt(),
        10 => sub(rng).plus(),
        11 => sub(rng).star(),
        // risky shapes: optional / one-or-more over operands that begin or end with a loop
        12 => Re::seq([small(rng).plus(), small(rng)]).opt(),
        13 => Re::seq([small(rng), small(rng).plus()]).opt(),
        14 => Re::seq([small(rng).opt(), small(rng)]).plus(),
        15 => small(rng).star().plus(),
        16 => small(rng).plus().opt(),
        17 => small(rng).opt().plus(),
        18 => Re::seq([small(rng).plus(), small(rng)]).opt().plus(),
        19 => Re::seq([
            small(rng),
            Re::seq([small(rng).plus(), small(rng)]).opt(),
            small(rng),
        ]),
        20 => Re::alt([small(rng).plus(), small(rng)]).opt(),
        21 => Re::seq([small(rng), small(rng).star()]).opt().plus(),
        22 => small(rng).plus().opt().star(),
        _ => Re::seq([
            Re::seq([small(rng).plus(), Re::lit([*rng.pick(alphabet)])]).opt(),
            small(rng).plus().opt(),
        ]),
    }
}

fn gen_expr(rng: &mut Rng, tier: Tier) -> Case {
    let alphabet = pick_alphabet(rng);
    let max_depth = if cfg!(miri) { 3 } else { 5 };
    let max_size = if cfg!(miri) { 10 } else { 28 };
    let mut re;
    let mut attempts = 0;
    loop {
        let depth = rng.range(2, max_depth);
        re = gen_re(rng, depth, &alphabet);
        attempts += 1;
        if re.size() <= max_size || attempts > 20 {
            break;
        }
    }
    if re.size() > max_size {
        re = atom(rng, &alphabet);
    }
    // tagged top-level choice in a third of the cases
    let tags = if rng.chance(1, 3) {
        let parts: Vec<Re> = match re {
            Re::Alt(ref parts) if !parts.is_empty() && rng.bool() => parts.clone(),
            _ => {
                let mut parts = vec![re.clone()];
                for _ in 0..rng.range(1, 3) {
                    let other_depth = rng.range(1, 3);
                    let mut other = gen_re(rng, other_depth, &alphabet);
                    if other.size() > 12 {
                        other = atom(rng, &alphabet);
                    }
                    // alternatives that overlap with the first one make several tags fire
                    let pos = rng.range(0, parts.len());
                    parts.insert(pos, other);
                }
                if rng.chance(1, 4) {
                    let dup = parts[rng.below(parts.len())].clone();
                    parts.push(dup);
                }
                parts
            }
        };
        let tags: Vec<usize> = (0..parts.len())
            .map(|i| {
                if rng.chance(1, 10) {
                    // two alternatives may share a tag
                    rng.below(parts.len())
                } else {
                    i
                }
            })
            .collect();
        re = Re::Alt(parts);
        Some(tags)
    } else {
        None
    };
    let used = re.alphabet();
    let mut extra = Vec::new();
    for _ in 0..rng.range(1, 2) {
        let candidate = match rng.below(5) {
            0 => 0x00,
            1 => 0xff,
            2 if !used.is_empty() => rng.pick(&used).wrapping_add(1),
            3 if !used.is_empty() => rng.pick(&used).wrapping_sub(1),
            _ => rng.next_u8(),
        };
        if !used.contains(&candidate) && !extra.contains(&candidate) {
            extra.push(candidate);
        }
    }
    // alphabet members the expression happens not to use are foreign bytes as well
    for b in alphabet.iter() {
        if !used.contains(b) && !extra.contains(b) && extra.len() < 2 {
            extra.push(*b);
        }
    }
    let symbols = used.len().max(1);
    let max_len = if cfg!(miri) {
        4
    } else {
        match (tier, symbols) {
            // (the digit atom brings ten symbols: the walk is exhaustive, keep it affordable)
            (Tier::Quick, 10..) => 3,
            (Tier::Quick, 7..=9) => 4,
            (Tier::Quick, 5..=6) => 5,
            (Tier::Thorough, 10..) => 4,
            (Tier::Thorough, 7..=9) => 5,
            (Tier::Thorough, 5..=6) => 6,
            (Tier::Quick, 1) => 12,
            (Tier::Quick, 2) => 10,
            (Tier::Quick, 3) => 7,
            (Tier::Quick, _) => 6,
            (Tier::Thorough, 1) => 16,
            (Tier::Thorough, 2) => 13,
            (Tier::Thorough, 3) => 9,
            (Tier::Thorough, _) => 8,
        }
    };
    Case::Expr {
        re,
        tags,
        extra,
        max_len,
    }
}

const STRUCTURAL: &[u8] = b"\x1b\x1b\x1b[]();:?<=>,+$_~\\\x07PGORcmMtuyr0189afFgzAH~ \x00\x01\x1a\x1f\x20\x7e\x7f\x80\xbf\xc0\xdf\xe0\xef\xf0\xf7\xf8\xff";

fn mutate(rng: &mut Rng, base: &[u8]) -> Vec<u8> {
    let mut out = base.to_vec();
    let byte = |rng: &mut Rng, base: &[u8]| match rng.below(4) {
        0 if !base.is_empty() => base[rng.below(base.len())],
        1 => rng.next_u8(),
        _ => STRUCTURAL[rng.below(STRUCTURAL.len())],
    };
    match rng.below(3) {
        0 if !out.is_empty() => {
            out.remove(rng.below(base.len()));
        }
        1 if !out.is_empty() => {
            let pos = rng.below(base.len());
            out[pos] = byte(rng, base);
        }
        _ => {
            let pos = rng.range(0, base.len());
            out.insert(pos, byte(rng, base));
        }
    }
    out
}

fn gen_prod(rng: &mut Rng, tier: Tier) -> Case {
    let event = !rng.chance(1, 7);
    let reference = if event { &*EVENT } else { &*COMMAND };
    let (family, re) = &reference.families[rng.below(reference.families.len())];
    let max_rep = match rng.below(8) {
        0 => 1,
        1 => 6,
        2 if !tier.quick() => 12,
        _ => 3,
    };
    let base = re.sample_with(rng, max_rep).unwrap_or_default();
    let mut inputs = vec![base.clone()];
    for _ in 0..rng.range(8, 24) {
        inputs.push(mutate(rng, &base));
    }
    // two edits, and a second token glued on (never one token, except by the grammar's own loops)
    for _ in 0..4 {
        let once = mutate(rng, &base);
        inputs.push(mutate(rng, &once));
    }
    let (_, other) = &reference.families[rng.below(reference.families.len())];
    let mut glued = base.clone();
    glued.extend(other.sample_with(rng, 2).unwrap_or_default());
    inputs.push(glued);
    Case::Prod {
        event,
        family: family.to_string(),
        inputs,
    }
}

// ---------------------------------------------------------------------------
// shrinking

fn simpler(re: &Re) -> Vec<Re> {
    let mut out = Vec::new();
    match re {
        Re::Seq(parts) | Re::Alt(parts) => {
            let rebuild = |parts: Vec<Re>| match re {
                Re::Seq(_) => Re::Seq(parts),
                _ => Re::Alt(parts),
            };
            out.extend(parts.iter().cloned());
            for index in 0..parts.len() {
                let mut fewer = parts.clone();
                fewer.remove(index);
                out.push(rebuild(fewer));
            }
            for index in 0..parts.len() {
                for s in simpler(&parts[index]) {
                    let mut changed = parts.clone();
                    changed[index] = s;
                    out.push(rebuild(changed));
                }
            }
        }
        Re::Opt(r) | Re::Plus(r) | Re::Star(r) => {
            out.push((**r).clone());
            for s in simpler(r) {
                out.push(match re {
                    Re::Opt(_) => s.opt(),
                    Re::Plus(_) => s.plus(),
                    _ => s.star(),
                });
            }
        }
        Re::Lit(bytes) if bytes.len() > 1 => {
            out.push(Re::Lit(bytes[1..].to_vec()));
            out.push(Re::Lit(bytes[..bytes.len() - 1].to_vec()));
        }
        Re::Class(set) if set.len() > 1 => {
            out.push(Re::Class(set[1..].to_vec()));
            out.push(Re::Class(set[..set.len() - 1].to_vec()));
        }
        _ => {}
    }
    out
}

impl Prop for C15 {
    type Case = Case;
    const ID: &'static str = "C15";

    fn default_cases(tier: Tier, flavour: &str) -> u64 {
        match (tier, flavour) {
            // ~7 s per expression under Miri (256-wide tables, BTreeMap heavy subset construction)
            (_, "miri") | (_, "miri-sb") => tier.pick(64, 200),
            // measured: ~12 k cases/s (chk), ~16 k cases/s (rel) quick; ~4 k cases/s thorough
            (Tier::Quick, _) => 240_000,
            (Tier::Thorough, "asan") => 400_000,
            (Tier::Thorough, _) => 6_000_000,
        }
    }

    fn setup(ctx: &mut Ctx) {
        if !cfg!(miri) {
            // build the production automata (LazyLock) outside of the first case's watchdog window
            let _ = accept_trace(Automata::Event, b"a");
            let _ = accept_trace(Automata::Command, b"a");
            ctx.extra.insert(
                "reference_families".into(),
                serde_json::json!({
                    "event": EVENT.families.iter().map(|(n, _)| *n).collect::<Vec<_>>(),
                    "command": COMMAND.families.iter().map(|(n, _)| *n).collect::<Vec<_>>(),
                }),
            );
        }
    }

    fn gen(rng: &mut Rng, tier: Tier, _index: u64) -> Case {
        // Miri cannot build the production automata in reasonable time: expressions only.
        // (the kind is drawn from the rng, not from the index: index parity is fixed per shard)
        if cfg!(miri) || rng.bool() {
            gen_expr(rng, tier)
        } else {
            gen_prod(rng, tier)
        }
    }

    fn check(case: &Case, ctx: &mut Ctx) -> Result<(), Fail> {
        match case {
            Case::Expr {
                re,
                tags,
                extra,
                max_len,
            } => check_expr(re, tags, extra, (*max_len).min(20), ctx),
            Case::Prod {
                event,
                family,
                inputs,
            } => {
                if cfg!(miri) {
                    ctx.nondeciding = true;
                    return Ok(());
                }
                check_prod(*event, family, inputs, ctx)
            }
        }
    }

    fn nontrivial(case: &Case) -> bool {
        match case {
            Case::Expr { re, .. } => re.size() > 1,
            Case::Prod { inputs, .. } => inputs.iter().any(|i| !i.is_empty()),
        }
    }

    fn shrink(case: &Case) -> Vec<Case> {
        let mut out = Vec::new();
        match case {
            Case::Expr {
                re,
                tags,
                extra,
                max_len,
            } => {
                match (re, tags) {
                    (Re::Alt(parts), Some(tags)) if parts.len() == tags.len() => {
                        // untagged variants first
                        out.push(Case::Expr {
                            re: re.clone(),
                            tags: None,
                            extra: extra.clone(),
                            max_len: *max_len,
                        });
                        for index in 0..parts.len() {
                            let mut fewer = parts.clone();
                            let mut fewer_tags = tags.clone();
                            fewer.remove(index);
                            fewer_tags.remove(index);
                            out.push(Case::Expr {
                                re: Re::Alt(fewer),
                                tags: Some(fewer_tags),
                                extra: extra.clone(),
                                max_len: *max_len,
                            });
                        }
                        for index in 0..parts.len() {
                            for s in simpler(&parts[index]) {
                                let mut changed = parts.clone();
                                changed[index] = s;
                                out.push(Case::Expr {
                                    re: Re::Alt(changed),
                                    tags: Some(tags.clone()),
                                    extra: extra.clone(),
                                    max_len: *max_len,
                                });
                            }
                        }
                    }
                    _ => {
                        for s in simpler(re) {
                            out.push(Case::Expr {
                                re: s,
                                tags: None,
                                extra: extra.clone(),
                                max_len: *max_len,
                            });
                        }
                    }
                }
                if *max_len > 2 {
                    out.push(Case::Expr {
                        re: re.clone(),
                        tags: tags.clone(),
                        extra: extra.clone(),
                        max_len: max_len - 1,
                    });
                }
                if !extra.is_empty() {
                    out.push(Case::Expr {
                        re: re.clone(),
                        tags: tags.clone(),
                        extra: Vec::new(),
                        max_len: *max_len,
                    });
                }
            }
            Case::Prod {
                event,
                family,
                inputs,
            } => {
                if inputs.len() > 1 {
                    for input in inputs {
                        out.push(Case::Prod {
                            event: *event,
                            family: family.clone(),
                            inputs: vec![input.clone()],
                        });
                    }
                } else if let Some(input) = inputs.first() {
                    for shorter in shrink_vec(input) {
                        out.push(Case::Prod {
                            event: *event,
                            family: family.clone(),
                            inputs: vec![shorter],
                        });
                    }
                }
            }
        }
        out
    }

    fn rule() -> &'static str {
        "case = (expression AST over 2-4 symbols, optional tags for a top-level choice, foreign bytes, max string length) with ALL strings up to that length enumerated prefix by prefix; or (production automaton, family, sampled string + single/double-edit mutants). non-trivial = expression with more than one node / a non-empty string; distinct = hash of the whole case"
    }

    fn sample(case: &Case) -> serde_json::Value {
        match case {
            Case::Expr {
                re,
                tags,
                extra,
                max_len,
            } => serde_json::json!({
                "expr": re.show(),
                "tags": tags,
                "foreign": extra,
                "max_len": max_len,
            }),
            Case::Prod {
                event,
                family,
                inputs,
            } => serde_json::json!({
                "automaton": if *event { "event" } else { "command" },
                "family": family,
                "first": inputs.first().map(|i| hex(&i[..i.len().min(48)])),
                "strings": inputs.len(),
            }),
        }
    }
}
