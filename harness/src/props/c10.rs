//! C10 — view layout honours constraints, never panics, and draws where it says it does
//!
//! Trees of the library's views are built from a serialisable spec. Every node is
//! `Tag(NodeId, Rec(id, decorators(view)))`: the tag puts the id into the layout tree, `Rec`
//! (harness wrapper, adds no layout level) logs `(id, constraint given, size reported)`.
//! Leaves are identifiable in the canvas: probe leaves / strings / surfaces / glyph fallbacks by
//! a private-use character `U+E000+id`, text / ascii images by the foreground colour `idcol(id)`,
//! fills / scroll bars by the background colour, image cells by their first pixel.
//!
//! Checked after `layout_new` + `render` into a sentinel-bordered sub-view (viewgen):
//!  (1) no cell outside the given surface changed;
//!  (2) text/flex/container/image/glyph/fill/surface nodes: min <= reported size <= max of the
//!      constraint they were given (only when that constraint has min <= max);
//!  (3) every cell carrying leaf id L lies inside L's rectangle (positions summed down the layout
//!      tree) intersected with its ancestors' rectangles;
//!  (4) for every such cell, `find_path(p)` contains the layout tagged L — decided only where, at
//!      every level on the way down, exactly one sibling covers p (overlapping siblings make
//!      "the view at p" ambiguous; those positions are counted as non-deciding);
//!  (5) no panic (caught by the runner).
//! JSON-born trees get (1) and (5).
use crate::core::{Ctx, Fail, Prop, Tier};
use crate::props::viewgen::{self, gen_cfg, render_checked, draw_view_checked, RenderOutcome, Rendered, RunCfg};
use crate::rng::Rng;
use crate::{ensure, fail};
use serde::de::DeserializeSeed;
use serde::{Deserialize, Serialize};
use std::collections::HashMap;
use std::sync::{Arc, Mutex};
use surf_n_term::{
    view::{
        Align, Axis, BoxConstraint, BoxView, Container, Dynamic, Either, Flex, FlexChild, FlexRef,
        Frame, Justify, Margins, ScrollBar, ScrollBarPosition, Tag, Text, Tree, TreeId, View,
        ViewContext, ViewDeserializer, ViewLayout, ViewLayoutStore, ViewMutLayout,
    },
    Cell, CellWrite, Error, Face, FaceAttrs, Glyph, Image, Position, Size, Surface, SurfaceOwned,
    TerminalSurface, RGBA,
};

pub struct C10;

/// generate "unbounded" constraints (max up to usize::MAX) in about 1 case of 40
const ALLOW_HUGE_CT: bool = true;

// ---------------------------------------------------------------------------
// spec

/// f64 that survives JSON
#[derive(Clone, Copy, Debug, Serialize, Deserialize, PartialEq)]
pub enum Fl {
    V(f64),
    NaN,
    Inf,
    NegInf,
}

impl Fl {
    pub fn get(self) -> f64 {
        match self {
            Fl::V(v) => v,
            Fl::NaN => f64::NAN,
            Fl::Inf => f64::INFINITY,
            Fl::NegInf => f64::NEG_INFINITY,
        }
    }
}

#[derive(Clone, Copy, Debug, Serialize, Deserialize, PartialEq)]
pub enum AlignS {
    Start,
    Center,
    End,
    Expand,
    Shrink,
    Offset(i32),
}

impl AlignS {
    fn get(self) -> Align {
        match self {
            AlignS::Start => Align::Start,
            AlignS::Center => Align::Center,
            AlignS::End => Align::End,
            AlignS::Expand => Align::Expand,
            AlignS::Shrink => Align::Shrink,
            AlignS::Offset(v) => Align::Offset(v),
        }
    }
}

#[derive(Clone, Copy, Debug, Serialize, Deserialize, PartialEq)]
pub enum JustifyS {
    Start,
    Center,
    End,
    SpaceBetween,
    SpaceAround,
    SpaceEvenly,
}

impl JustifyS {
    fn get(self) -> Justify {
        match self {
            JustifyS::Start => Justify::Start,
            JustifyS::Center => Justify::Center,
            JustifyS::End => Justify::End,
            JustifyS::SpaceBetween => Justify::SpaceBetween,
            JustifyS::SpaceAround => Justify::SpaceAround,
            JustifyS::SpaceEvenly => Justify::SpaceEvenly,
        }
    }
}

#[derive(Clone, Copy, Debug, Serialize, Deserialize, PartialEq)]
pub enum AxisS {
    H,
    V,
}

impl AxisS {
    fn get(self) -> Axis {
        match self {
            AxisS::H => Axis::Horizontal,
            AxisS::V => Axis::Vertical,
        }
    }
}

#[derive(Clone, Copy, Debug, Serialize, Deserialize, PartialEq)]
pub enum Deco {
    Dynamic,
    Some,
    Left,
    Right,
    Arc,
}

#[derive(Clone, Debug, Serialize, Deserialize, PartialEq)]
pub enum TextItem {
    Ch(char),
    Glyph { h: usize, w: usize, fb: usize },
    Image { h: usize, w: usize },
}

#[derive(Clone, Copy, Debug, Serialize, Deserialize, PartialEq)]
pub enum FlexApi {
    /// `Flex::push_child_ext` (filters the factor)
    Builder,
    /// `FlexRef` over `Vec<FlexChild>` built with `FlexChild::flex` (unfiltered)
    Ref,
}

#[derive(Clone, Debug, Serialize, Deserialize, PartialEq)]
pub struct Kid {
    pub node: Node,
    pub flex: Option<Fl>,
    pub face: bool,
    pub align: AlignS,
}

#[derive(Clone, Debug, Serialize, Deserialize, PartialEq)]
pub enum SbPos {
    Counts {
        total: usize,
        offset: usize,
        visible: usize,
    },
    Raw {
        offset: Fl,
        visible: Fl,
    },
}

#[derive(Clone, Debug, Serialize, Deserialize, PartialEq)]
pub enum Kind {
    // leaves
    Probe { h: usize, w: usize },
    Text { items: Vec<TextItem>, wraps: bool },
    Str { len: usize, newline: Option<usize> },
    Fill,
    Image { h: usize, w: usize },
    ImageAscii { h: usize, w: usize },
    Glyph { h: usize, w: usize, fb: usize },
    Surface { h: usize, w: usize },
    ScrollBar { axis: AxisS, pos: SbPos },
    /// `Option::<BoxView>::None`
    Nothing,
    /// `()`
    Unit,
    // inner nodes
    Flex {
        axis: AxisS,
        justify: JustifyS,
        api: FlexApi,
        kids: Vec<Kid>,
    },
    Container {
        size: (usize, usize),
        margins: [usize; 4],
        v: AlignS,
        h: AlignS,
        face: bool,
        child: Box<Node>,
    },
    Frame {
        child: Box<Node>,
        color: u8,
        width: u8,
        radius: u8,
    },
}

#[derive(Clone, Debug, Serialize, Deserialize, PartialEq)]
pub struct Node {
    pub id: u32,
    pub deco: Vec<Deco>,
    pub kind: Kind,
    /// inner node placed into its parent without the `Tag` wrapper (its layout node is then
    /// positioned by the parent directly); leaves are always tagged
    #[serde(default)]
    pub untagged: bool,
}

#[derive(Clone, Debug, Serialize, Deserialize)]
pub enum Case {
    Tree { root: Node, cfg: RunCfg },
    /// JSON-born tree: sentinel + no-panic only
    Json { text: String, cfg: RunCfg },
}

// ---------------------------------------------------------------------------
// identification

const MAX_ID: u32 = 250;

fn idchar(id: u32) -> char {
    char::from_u32(0xE000 + id).unwrap()
}

fn idcol(id: u32) -> RGBA {
    RGBA::new(id as u8, 0xC3 ^ (id as u8), 0x7E, 255)
}

fn col_id(color: RGBA) -> Option<u32> {
    use surf_n_term::Color;
    let [r, g, b, a] = color.to_rgba();
    (b == 0x7E && a == 255 && g == 0xC3 ^ r && (r as u32) < MAX_ID).then_some(r as u32)
}

fn char_id(c: char) -> Option<u32> {
    let v = c as u32;
    (0xE000..0xE000 + MAX_ID).contains(&v).then(|| v - 0xE000)
}

/// opaque, never an id colour
fn palette(index: u8) -> RGBA {
    RGBA::new(index.wrapping_mul(37), index.wrapping_mul(91), 0x11, 255)
}

/// ids of the leaves whose paint the cell carries
fn cell_ids(cell: &Cell, out: &mut Vec<u32>) {
    use surf_n_term::render::CellKind;
    out.clear();
    match cell.kind() {
        CellKind::Char(c) => out.extend(char_id(*c)),
        CellKind::Glyph(glyph) => out.extend(glyph.fallback_str().chars().next().and_then(char_id)),
        CellKind::Image(image) => {
            out.extend(image.iter().next().and_then(|color| col_id(*color)))
        }
    }
    let face = cell.face();
    if let Some(id) = face.fg.and_then(col_id) {
        if !out.contains(&id) {
            out.push(id)
        }
    }
    if let Some(id) = face.bg.and_then(col_id) {
        if !out.contains(&id) {
            out.push(id)
        }
    }
}

// ---------------------------------------------------------------------------
// harness views

#[derive(Clone, Copy, PartialEq, Eq, Debug)]
struct NodeId(u32);

type Log = Arc<Mutex<Vec<(u32, BoxConstraint, Size)>>>;

/// logs (id, constraint, reported size); adds no layout level
struct Rec {
    id: u32,
    view: BoxView<'static>,
    log: Log,
}

impl View for Rec {
    fn render(
        &self,
        ctx: &ViewContext,
        surf: TerminalSurface<'_>,
        layout: ViewLayout<'_>,
    ) -> Result<(), Error> {
        self.view.render(ctx, surf, layout)
    }

    fn layout(
        &self,
        ctx: &ViewContext,
        ct: BoxConstraint,
        mut layout: ViewMutLayout<'_>,
    ) -> Result<(), Error> {
        use surf_n_term::view::TreeMut;
        self.view.layout(ctx, ct, layout.view_mut())?;
        self.log.lock().unwrap().push((self.id, ct, layout.size()));
        Ok(())
    }
}

/// probe leaf: reports a seeded size clamped into the constraint, paints its id over the
/// rectangle the layout gives it
struct Probe {
    id: u32,
    size: Size,
}

impl View for Probe {
    fn render(
        &self,
        _ctx: &ViewContext,
        surf: TerminalSurface<'_>,
        layout: ViewLayout<'_>,
    ) -> Result<(), Error> {
        use surf_n_term::SurfaceMut;
        let cell = Cell::new_char(
            Face::new(Some(idcol(self.id)), None, FaceAttrs::EMPTY),
            idchar(self.id),
        );
        layout.apply_to(surf).fill(cell);
        Ok(())
    }

    fn layout(
        &self,
        _ctx: &ViewContext,
        ct: BoxConstraint,
        mut layout: ViewMutLayout<'_>,
    ) -> Result<(), Error> {
        use surf_n_term::view::Layout;
        *layout = Layout::new().with_size(ct.clamp(self.size));
        Ok(())
    }
}

/// owns a surface and delegates to the library's `impl View for SurfaceView<'_, Cell>`
struct OwnedSurf(SurfaceOwned<Cell>);

impl View for OwnedSurf {
    fn render(
        &self,
        ctx: &ViewContext,
        surf: TerminalSurface<'_>,
        layout: ViewLayout<'_>,
    ) -> Result<(), Error> {
        self.0.as_ref().render(ctx, surf, layout)
    }

    fn layout(
        &self,
        ctx: &ViewContext,
        ct: BoxConstraint,
        layout: ViewMutLayout<'_>,
    ) -> Result<(), Error> {
        self.0.as_ref().layout(ctx, ct, layout)
    }
}

// ---------------------------------------------------------------------------
// building

#[derive(Clone)]
struct Env {
    log: Log,
}

fn glyph_of(id: u32, h: usize, w: usize, fb: usize) -> Glyph {
    let path: surf_n_term::Path = "M1,1 h18 v18 h-18 Z".parse().expect("path");
    let fallback: String = std::iter::repeat(idchar(id)).take(fb).collect();
    Glyph::new(
        path,
        surf_n_term::FillRule::default(),
        None,
        Size::new(h, w),
        fallback,
        None,
    )
}

fn image_of(id: u32, h: usize, w: usize) -> Image {
    Image::from(SurfaceOwned::new_with(Size::new(h, w), |_| idcol(id)))
}

const FRAME_WIDTHS: [f64; 4] = [0.0, 0.2, 1.0, 7.0];
const FRAME_RADII: [f64; 4] = [0.0, 0.5, 1.0, -5.0];

fn build(node: &Node, env: &Env) -> BoxView<'static> {
    let inner = build_deco(node, 0, env);
    let rec = Rec {
        id: node.id,
        view: inner,
        log: env.log.clone(),
    };
    if node.untagged && !is_leaf(&node.kind) {
        return rec.boxed();
    }
    Tag::new(NodeId(node.id), rec).boxed()
}

fn build_deco(node: &Node, skip: usize, env: &Env) -> BoxView<'static> {
    match node.deco.get(skip) {
        None => build_kind(node, env),
        Some(Deco::Dynamic) => {
            let node = Arc::new(node.clone());
            let env = env.clone();
            Dynamic::new(move |_ctx: &ViewContext, _ct: BoxConstraint| {
                build_deco(&node, skip + 1, &env)
            })
            .boxed()
        }
        Some(Deco::Some) => Some(build_deco(node, skip + 1, env)).boxed(),
        Some(Deco::Left) => Either::<BoxView<'static>, ()>::Left(build_deco(node, skip + 1, env)).boxed(),
        Some(Deco::Right) => Either::<(), BoxView<'static>>::Right(build_deco(node, skip + 1, env)).boxed(),
        Some(Deco::Arc) => build_deco(node, skip + 1, env).arc().boxed(),
    }
}

fn build_kind(node: &Node, env: &Env) -> BoxView<'static> {
    let id = node.id;
    match &node.kind {
        Kind::Probe { h, w } => Probe {
            id,
            size: Size::new(*h, *w),
        }
        .boxed(),
        Kind::Text { items, wraps } => {
            let mut text = Text::new().with_face(Face::new(Some(idcol(id)), None, FaceAttrs::EMPTY));
            text.set_wraps(*wraps);
            for item in items {
                match item {
                    TextItem::Ch(c) => {
                        text.put_char(*c);
                    }
                    TextItem::Glyph { h, w, fb } => {
                        text.put_glyph(glyph_of(id, *h, *w, *fb));
                    }
                    TextItem::Image { h, w } => {
                        text.put_image(image_of(id, *h, *w));
                    }
                }
            }
            text.boxed()
        }
        Kind::Str { len, newline } => {
            let mut string = String::new();
            for index in 0..*len {
                if Some(index) == *newline {
                    string.push('\n');
                }
                string.push(idchar(id));
            }
            string.boxed()
        }
        Kind::Fill => idcol(id).boxed(),
        Kind::Image { h, w } => image_of(id, *h, *w).boxed(),
        Kind::ImageAscii { h, w } => image_of(id, *h, *w).ascii_view().boxed(),
        Kind::Glyph { h, w, fb } => glyph_of(id, *h, *w, *fb).boxed(),
        Kind::Surface { h, w } => OwnedSurf(SurfaceOwned::new_with(Size::new(*h, *w), |_| {
            Cell::new_char(Face::new(Some(idcol(id)), None, FaceAttrs::EMPTY), idchar(id))
        }))
        .boxed(),
        Kind::ScrollBar { axis, pos } => {
            let position = match pos {
                SbPos::Counts {
                    total,
                    offset,
                    visible,
                } => ScrollBarPosition::from_counts(*total, *offset, *visible),
                SbPos::Raw { offset, visible } => ScrollBarPosition {
                    offset: offset.get(),
                    visible: visible.get(),
                },
            };
            let face = Face::new(Some(idcol(id)), Some(idcol(id)), FaceAttrs::EMPTY);
            if id % 2 == 1 {
                // the lazily evaluated flavour of the same view
                {
                    let (offset, visible) = (position.offset, position.visible);
                    surf_n_term::view::ScrollBarFn::new(axis.get(), face, move || ScrollBarPosition { offset, visible }).boxed()
                }
            } else {
                ScrollBar::new(axis.get(), face, position).boxed()
            }
        }
        Kind::Nothing => None::<BoxView<'static>>.boxed(),
        Kind::Unit => ().boxed(),
        Kind::Flex {
            axis,
            justify,
            api,
            kids,
        } => {
            let face_of = |kid: &Kid| {
                kid.face.then(|| {
                    Face::new(
                        None,
                        Some(palette(kid.node.id as u8)),
                        if kid.node.id % 2 == 0 {
                            FaceAttrs::EMPTY
                        } else {
                            FaceAttrs::BOLD
                        },
                    )
                })
            };
            match api {
                FlexApi::Builder => {
                    let mut flex = Flex::new(axis.get()).justify(justify.get());
                    for kid in kids {
                        flex.push_child_ext(
                            build(&kid.node, env),
                            kid.flex.map(Fl::get),
                            face_of(kid),
                            kid.align.get(),
                        );
                    }
                    flex.boxed()
                }
                FlexApi::Ref => {
                    let children: Vec<FlexChild<BoxView<'static>>> = kids
                        .iter()
                        .map(|kid| {
                            let mut child = FlexChild::new(build(&kid.node, env)).align(kid.align.get());
                            if let Some(flex) = kid.flex {
                                child = child.flex(flex.get());
                            }
                            if let Some(face) = face_of(kid) {
                                child = child.face(face);
                            }
                            child
                        })
                        .collect();
                    FlexRef::new(children)
                        .direction(axis.get())
                        .justify(justify.get())
                        .boxed()
                }
            }
        }
        Kind::Container {
            size,
            margins,
            v,
            h,
            face,
            child,
        } => {
            let mut container = Container::new(build(child, env))
                .with_size(Size::new(size.0, size.1))
                .with_margins(Margins {
                    left: margins[0],
                    right: margins[1],
                    top: margins[2],
                    bottom: margins[3],
                })
                .with_vertical(v.get())
                .with_horizontal(h.get());
            if *face {
                container = container.with_color(palette(id as u8));
            }
            container.boxed()
        }
        Kind::Frame {
            child,
            color,
            width,
            radius,
        } => Frame::new(
            build(child, env),
            palette(*color),
            palette(color.wrapping_add(1)),
            FRAME_WIDTHS[*width as usize % 4],
            FRAME_RADII[*radius as usize % 4],
        )
        .boxed(),
    }
}

// ---------------------------------------------------------------------------
// generation

struct Gen<'a> {
    rng: &'a mut Rng,
    next_id: u32,
    budget: usize,
    max: (usize, usize),
}

impl Gen<'_> {
    fn dim(&mut self, max: usize) -> usize {
        let max = max.min(40);
        match self.rng.below(8) {
            0 => 0,
            1 => 1,
            2 => max,
            3 => max + 1,
            4 => max + 2,
            _ => self.rng.range(0, max + 3),
        }
    }

    fn align(&mut self) -> AlignS {
        match self.rng.below(9) {
            0 => AlignS::Start,
            1 => AlignS::Center,
            2 => AlignS::End,
            3 => AlignS::Expand,
            4 => AlignS::Shrink,
            5 => AlignS::Offset(self.rng.range(0, 4) as i32),
            6 => AlignS::Offset(-(self.rng.range(0, 4) as i32)),
            7 => AlignS::Offset(*self.rng.pick(&[i32::MAX, i32::MIN, 100, -100, 30, -30])),
            _ => AlignS::Offset(self.rng.range_i64(-12, 12) as i32),
        }
    }

    fn flex_factor(&mut self) -> Option<Fl> {
        match self.rng.below(14) {
            0..=4 => None,
            5..=8 => Some(Fl::V(*self.rng.pick(&[1.0, 2.0, 0.5, 3.0, 1.5, 10.0]))),
            9 => Some(Fl::V(0.0)),
            10 => Some(Fl::V(*self.rng.pick(&[-1.0, -0.5, -0.0, -1e300]))),
            11 => Some(*self.rng.pick(&[Fl::NaN, Fl::Inf, Fl::NegInf])),
            12 => Some(Fl::V(*self.rng.pick(&[1e308, 1e300, 1e19, 1e-320, 5e-324]))),
            _ => Some(Fl::V(self.rng.f64() * 4.0)),
        }
    }

    fn leaf(&mut self) -> Kind {
        let (mh, mw) = self.max;
        match self.rng.below(20) {
            0..=4 => Kind::Probe {
                h: self.dim(mh),
                w: self.dim(mw),
            },
            5..=7 => {
                let alphabet = [
                    'a', 'b', 'W', ' ', ' ', '\n', '\t', '\r', '世', '\u{200b}', '\u{301}', 'x', 'y',
                ];
                let len = *self.rng.pick(&[0usize, 1, 2, 3, 5, 8, 13, 30]);
                let items = (0..len)
                    .map(|_| match self.rng.below(16) {
                        0 => TextItem::Glyph {
                            h: self.rng.range(0, 2),
                            w: self.rng.range(0, 3),
                            fb: self.rng.range(0, 2),
                        },
                        1 => TextItem::Image {
                            h: self.rng.range(0, 12),
                            w: self.rng.range(0, 12),
                        },
                        _ => TextItem::Ch(*self.rng.pick(&alphabet)),
                    })
                    .collect();
                Kind::Text {
                    items,
                    wraps: self.rng.chance(3, 4),
                }
            }
            8 => {
                let len = self.rng.range(0, 12);
                Kind::Str {
                    len,
                    newline: self.rng.bool().then(|| self.rng.range(0, 6)),
                }
            }
            9 | 10 => Kind::Fill,
            11 => Kind::Image {
                h: self.rng.range(0, 25),
                w: self.rng.range(0, 25),
            },
            12 => Kind::ImageAscii {
                h: self.rng.range(0, 9),
                w: self.rng.range(0, 12),
            },
            13 | 14 => Kind::Glyph {
                h: self.dim(mh.min(3)),
                w: self.dim(mw.min(4)),
                fb: self.rng.range(0, 3),
            },
            15 | 16 => Kind::Surface {
                h: self.dim(mh),
                w: self.dim(mw),
            },
            17 | 18 => {
                let pos = match self.rng.below(4) {
                    0 => {
                        // empty list: 0/0 and k/0
                        SbPos::Counts {
                            total: 0,
                            offset: self.rng.range(0, 2),
                            visible: self.rng.range(0, 2),
                        }
                    }
                    1 => {
                        let raw = |rng: &mut Rng| match rng.below(6) {
                            0 => Fl::NaN,
                            1 => Fl::V(0.0),
                            2 => Fl::V(1.0),
                            _ => Fl::V(rng.f64()),
                        };
                        SbPos::Raw {
                            offset: raw(self.rng),
                            visible: raw(self.rng),
                        }
                    }
                    _ => {
                        let total = self.rng.range(1, 100);
                        let visible = self.rng.range(0, total);
                        SbPos::Counts {
                            total,
                            offset: self.rng.range(0, total - visible),
                            visible,
                        }
                    }
                };
                Kind::ScrollBar {
                    axis: if self.rng.bool() { AxisS::H } else { AxisS::V },
                    pos,
                }
            }
            _ => {
                if self.rng.bool() {
                    Kind::Nothing
                } else {
                    Kind::Unit
                }
            }
        }
    }

    fn margin(&mut self) -> usize {
        let (mh, mw) = self.max;
        let max = mh.max(mw).min(40);
        match self.rng.below(12) {
            0..=4 => 0,
            5 | 6 => 1,
            7 | 8 => self.rng.range(0, max + 2),
            9 => max + 2,
            10 => self.rng.range(0, 3),
            _ => *self.rng.pick(&[
                1usize << 31,
                1 << 32,
                1 << 62,
                1 << 63,
                usize::MAX / 2,
                usize::MAX - 2,
                usize::MAX - 1,
                usize::MAX,
            ]),
        }
    }

    fn node(&mut self, depth: usize) -> Node {
        let id = self.next_id;
        self.next_id += 1;
        self.budget = self.budget.saturating_sub(1);
        let mut deco = Vec::new();
        while self.rng.chance(1, 8) && deco.len() < 3 {
            deco.push(*self.rng.pick(&[Deco::Dynamic, Deco::Some, Deco::Left, Deco::Right, Deco::Arc]));
        }
        let inner = depth > 0 && self.budget > 0 && self.rng.chance(2, 3);
        let kind = if !inner {
            self.leaf()
        } else {
            match self.rng.below(10) {
                0..=4 => {
                    let n = (*self.rng.pick(&[0usize, 1, 2, 2, 3, 3, 4])).min(self.budget);
                    let kids = (0..n)
                        .map(|_| Kid {
                            node: self.node(depth - 1),
                            flex: self.flex_factor(),
                            face: self.rng.chance(1, 4),
                            align: self.align(),
                        })
                        .collect();
                    Kind::Flex {
                        axis: if self.rng.bool() { AxisS::H } else { AxisS::V },
                        justify: *self.rng.pick(&[
                            JustifyS::Start,
                            JustifyS::Center,
                            JustifyS::End,
                            JustifyS::SpaceBetween,
                            JustifyS::SpaceAround,
                            JustifyS::SpaceEvenly,
                        ]),
                        api: if self.rng.bool() {
                            FlexApi::Builder
                        } else {
                            FlexApi::Ref
                        },
                        kids,
                    }
                }
                5..=7 => {
                    let (mh, mw) = self.max;
                    let size_dim = |g: &mut Self, max: usize| match g.rng.below(6) {
                        0 | 1 => 0,
                        2 => 1,
                        3 => *g.rng.pick(&[1000usize, 1 << 31, usize::MAX]),
                        _ => g.dim(max),
                    };
                    Kind::Container {
                        size: (size_dim(self, mh), size_dim(self, mw)),
                        margins: [self.margin(), self.margin(), self.margin(), self.margin()],
                        v: self.align(),
                        h: self.align(),
                        face: self.rng.chance(1, 3),
                        child: Box::new(self.node(depth - 1)),
                    }
                }
                _ => Kind::Frame {
                    child: Box::new(self.node(depth - 1)),
                    color: self.rng.below(2) as u8,
                    width: self.rng.below(4) as u8,
                    radius: self.rng.below(4) as u8,
                },
            }
        };
        let untagged = !is_leaf(&kind) && id != 0 && self.rng.chance(1, 4);
        Node {
            id,
            deco,
            kind,
            untagged,
        }
    }
}

// ---------------------------------------------------------------------------
// oracle

#[derive(Clone, Copy, Debug, PartialEq)]
struct R {
    r0: u128,
    c0: u128,
    r1: u128,
    c1: u128,
}

impl R {
    fn new(row: u128, col: u128, size: Size) -> Self {
        R {
            r0: row,
            c0: col,
            r1: row + size.height as u128,
            c1: col + size.width as u128,
        }
    }
    fn inter(self, other: R) -> R {
        R {
            r0: self.r0.max(other.r0),
            c0: self.c0.max(other.c0),
            r1: self.r1.min(other.r1),
            c1: self.c1.min(other.c1),
        }
    }
    fn contains(&self, row: usize, col: usize) -> bool {
        let (row, col) = (row as u128, col as u128);
        self.r0 <= row && row < self.r1 && self.c0 <= col && col < self.c1
    }
}

struct Geom {
    /// rectangle of the view's own layout (child of the tag layout), clipped by all ancestors
    own: Option<R>,
    seen: usize,
}

fn walk(
    store: &ViewLayoutStore,
    node: TreeId,
    origin: (u128, u128),
    clip: R,
    out: &mut HashMap<u32, Geom>,
) {
    let layout = ViewLayout::from_id(store, node);
    let pos = layout.position();
    let abs = (origin.0 + pos.row as u128, origin.1 + pos.col as u128);
    let rect = R::new(abs.0, abs.1, layout.size()).inter(clip);
    if let Some(NodeId(id)) = layout.data::<NodeId>() {
        // the view's own layout is the child of the tag layout; a `Dynamic` that keeps its data
        // in a layout node of its own adds one more level per decorator
        let mut own = None;
        let mut cur = layout.children().next().map(|c| c.id());
        let (mut cur_origin, mut cur_clip) = (abs, rect);
        while let Some(cur_id) = cur {
            let child = ViewLayout::from_id(store, cur_id);
            let cpos = child.position();
            let cabs = (
                cur_origin.0 + cpos.row as u128,
                cur_origin.1 + cpos.col as u128,
            );
            let crect = R::new(cabs.0, cabs.1, child.size()).inter(cur_clip);
            own = Some(crect);
            cur = match child.data::<BoxView<'static>>() {
                Some(_) => child.children().next().map(|c| c.id()),
                None => None,
            };
            (cur_origin, cur_clip) = (cabs, crect);
        }
        let entry = out.entry(*id).or_insert(Geom { own: None, seen: 0 });
        entry.own = own;
        entry.seen += 1;
    }
    let children: Vec<TreeId> = layout.children().map(|c| c.id()).collect();
    for child in children {
        walk(store, child, abs, rect, out);
    }
}

/// ids on the unique chain of layouts covering `p`; None when at some level more than one
/// sibling covers `p`
fn reference_path(rendered: &Rendered, row: usize, col: usize) -> Option<Vec<u32>> {
    let mut ids = Vec::new();
    let mut cur_id = rendered.root;
    let (mut row, mut col) = (row as u128, col as u128);
    loop {
        let cur = ViewLayout::from_id(&rendered.store, cur_id);
        if let Some(NodeId(id)) = cur.data::<NodeId>() {
            ids.push(*id);
        }
        let mut hit = None;
        for child in cur.children() {
            let rect = R::new(
                child.position().row as u128,
                child.position().col as u128,
                child.size(),
            );
            if rect.r0 <= row && row < rect.r1 && rect.c0 <= col && col < rect.c1 {
                if hit.is_some() {
                    return None;
                }
                hit = Some((child.id(), child.position()));
            }
        }
        match hit {
            None => return Some(ids),
            Some((child_id, pos)) => {
                row -= pos.row as u128;
                col -= pos.col as u128;
                cur_id = child_id;
            }
        }
    }
}

fn listed(kind: &Kind) -> Option<&'static str> {
    Some(match kind {
        Kind::Text { .. } | Kind::Str { .. } => "text",
        Kind::Flex { .. } => "flex",
        Kind::Container { .. } => "container",
        Kind::Image { .. } | Kind::ImageAscii { .. } => "image",
        Kind::Glyph { .. } => "glyph",
        Kind::Fill => "fill",
        Kind::Surface { .. } => "surface",
        _ => return None,
    })
}

fn kind_name(kind: &Kind) -> &'static str {
    match kind {
        Kind::Probe { .. } => "probe",
        Kind::Text { .. } => "text",
        Kind::Str { .. } => "str",
        Kind::Fill => "fill",
        Kind::Image { .. } => "image",
        Kind::ImageAscii { .. } => "image_ascii",
        Kind::Glyph { .. } => "glyph",
        Kind::Surface { .. } => "surface",
        Kind::ScrollBar { .. } => "scrollbar",
        Kind::Nothing => "none",
        Kind::Unit => "unit",
        Kind::Flex { .. } => "flex",
        Kind::Container { .. } => "container",
        Kind::Frame { .. } => "frame",
    }
}

fn is_leaf(kind: &Kind) -> bool {
    !matches!(kind, Kind::Flex { .. } | Kind::Container { .. } | Kind::Frame { .. })
}

fn for_each_node<'a>(node: &'a Node, f: &mut dyn FnMut(&'a Node)) {
    f(node);
    match &node.kind {
        Kind::Flex { kids, .. } => kids.iter().for_each(|kid| for_each_node(&kid.node, f)),
        Kind::Container { child, .. } | Kind::Frame { child, .. } => for_each_node(child, f),
        _ => {}
    }
}

/// Cell equality where images count by content: a `Dynamic` view builds its images anew on every
/// call, and the library compares images by buffer identity
fn same_cell(a: &Cell, b: &Cell) -> bool {
    use surf_n_term::render::CellKind;
    match (a.kind(), b.kind()) {
        (CellKind::Image(x), CellKind::Image(y)) => {
            a.face() == b.face() && x.size() == y.size() && x.iter().zip(y.iter()).all(|(p, q)| p == q)
        }
        // glyphs compare by identity as well: fall back to what they print as (scene, size, fallback)
        (CellKind::Glyph(_), CellKind::Glyph(_)) => a == b || format!("{a:?}") == format!("{b:?}"),
        _ => a == b,
    }
}

fn check_tree(root: &Node, cfg: &RunCfg, ctx: &mut Ctx) -> Result<(), Fail> {
    if !cfg.valid() {
        ctx.nondeciding = true;
        return Ok(());
    }
    let mut kinds: HashMap<u32, &Kind> = HashMap::new();
    for_each_node(root, &mut |node| {
        kinds.insert(node.id, &node.kind);
    });
    for node_kind in kinds.values() {
        ctx.feat(&format!("node.{}", kind_name(node_kind)));
        match node_kind {
            Kind::Flex { kids, justify, .. } => {
                ctx.feat_if(kids.is_empty(), "flex.no-children");
                ctx.feat(&format!("flex.{:?}", justify));
                for kid in kids {
                    match kid.flex {
                        None => {}
                        Some(Fl::V(v)) if v > 0.0 && v < 1e18 => ctx.feat("flex.factor.positive"),
                        Some(Fl::V(v)) if v <= 0.0 => ctx.feat("flex.factor.nonpositive"),
                        Some(Fl::V(_)) => ctx.feat("flex.factor.huge"),
                        Some(_) => ctx.feat("flex.factor.nan-inf"),
                    }
                    ctx.feat_if(matches!(kid.align, AlignS::Offset(_)), "flex.align.offset");
                }
            }
            Kind::Container { margins, .. } => {
                ctx.feat_if(margins.iter().any(|m| *m > 1 << 30), "container.margin.huge");
            }
            Kind::Frame { .. } => ctx.feat_if(cfg.glyphs, "frame.with-border(over-reports)"),
            _ => {}
        }
    }
    ctx.feat(if cfg.glyphs { "cfg.glyphs" } else { "cfg.no-glyphs" });
    ctx.feat_if(cfg.max.0 == 0 || cfg.max.1 == 0, "ct.zero-extent");
    ctx.feat_if(cfg.max.0 == 1 || cfg.max.1 == 1, "ct.one-extent");
    ctx.feat_if(cfg.min == cfg.max, "ct.tight");
    ctx.feat_if(cfg.max.0 > 1 << 16 || cfg.max.1 > 1 << 16, "ct.huge");
    ctx.feat_if(cfg.surf != cfg.max, "surface!=ct.max");

    let env = Env {
        log: Arc::new(Mutex::new(Vec::new())),
    };
    let view = build(root, &env);
    let rendered = match render_checked(&view, cfg)? {
        RenderOutcome::Done(rendered) => rendered,
        RenderOutcome::ViewError(err) => {
            // an `Err` is not a panic; the property does not speak about it
            ctx.feat("view-returned-error");
            ctx.extra
                .entry("view_error_example".into())
                .or_insert_with(|| serde_json::json!(err));
            ctx.nondeciding = true;
            return Ok(());
        }
    };

    // (1b) the convenience entry point: draw_view == layout under loose(surface size) + render
    // (an empty surface view reports 0x0 whatever its other extent: nothing to compare there)
    if cfg.surf.0 > 0 && cfg.surf.1 > 0 {
        let log_len_before_draw_view = env.log.lock().unwrap().len();
        let loose = RunCfg { min: (0, 0), max: cfg.surf, ..*cfg };
        let reuse = cfg.surf.0.wrapping_add(cfg.surf.1).wrapping_add(cfg.max.0) % 2 == 1;
        let reference = render_checked(&view, &loose)?;
        let drawn = draw_view_checked(&view, &loose, reuse)?;
        match (reference, drawn) {
            (RenderOutcome::Done(want), RenderOutcome::Done(got)) => {
                ctx.feat("draw_view.compared");
                ctx.feat_if(reuse, "draw_view.with-used-layout-store");
                for row in 0..want.surf.height {
                    for col in 0..want.surf.width {
                        ensure!(
                            same_cell(want.cell(row, col), got.cell(row, col)),
                            "draw_view:differs-from-layout+render",
                            "cell ({row},{col}) of the {}x{} surface is {:?} after draw_view but {:?} after layout under loose({}x{}) + render",
                            want.surf.height,
                            want.surf.width,
                            got.cell(row, col),
                            want.cell(row, col),
                            want.surf.height,
                            want.surf.width
                        );
                    }
                }
                ensure!(
                    want.layout().size() == got.layout().size() && want.layout().position() == got.layout().position(),
                    "draw_view:layout-differs",
                    "draw_view reports root layout {:?}@{:?}, layout under the loose constraint gives {:?}@{:?}",
                    got.layout().size(),
                    got.layout().position(),
                    want.layout().size(),
                    want.layout().position()
                );
            }
            (RenderOutcome::ViewError(_), RenderOutcome::ViewError(_)) => ctx.feat("draw_view.both-error"),
            (a, b) => fail!(
                "draw_view:outcome-differs",
                "layout+render {} while draw_view {}",
                if matches!(a, RenderOutcome::Done(_)) { "succeeds" } else { "returns an error" },
                if matches!(b, RenderOutcome::Done(_)) { "succeeds" } else { "returns an error" }
            ),
        }
        // the probes logged their constraints a second and third time
        env.log.lock().unwrap().truncate(log_len_before_draw_view);
    }

    // (2) reported sizes
    let log = env.log.lock().unwrap().clone();
    for (id, ct, size) in log.iter() {
        let Some(kind) = kinds.get(id) else {
            fail!("oracle-internal:unknown-id-in-log", "id {id}")
        };
        let Some(name) = listed(kind) else { continue };
        let (min, max) = (ct.min(), ct.max());
        if min.height > max.height || min.width > max.width {
            ctx.feat("node-given-invalid-constraint");
            continue;
        }
        ctx.feat("size-in-constraint.checked");
        ensure!(
            min.height <= size.height
                && size.height <= max.height
                && min.width <= size.width
                && size.width <= max.width,
            format!("size-outside-constraint:{name}"),
            "node {id} ({name}) was given min={min:?} max={max:?} and reported {size:?}; kind={kind:?} cfg={cfg:?}"
        );
    }

    check_paint(&rendered, &kinds, cfg, ctx)
}

fn check_paint(
    rendered: &Rendered,
    kinds: &HashMap<u32, &Kind>,
    cfg: &RunCfg,
    ctx: &mut Ctx,
) -> Result<(), Fail> {
    let layout = rendered.layout();
    let surf_rect = R::new(0, 0, rendered.surf);
    let mut geoms = HashMap::new();
    walk(&rendered.store, rendered.root, (0, 0), surf_rect, &mut geoms);
    let root_at_origin = layout.position() == Position::new(0, 0);

    let mut ids = Vec::new();
    for row in 0..rendered.surf.height {
        for col in 0..rendered.surf.width {
            cell_ids(rendered.cell(row, col), &mut ids);
            for id in ids.iter() {
                let Some(kind) = kinds.get(id) else {
                    fail!(
                        "oracle-internal:unknown-id-painted",
                        "cell ({row},{col}) carries id {id} which is not in the tree: {:?}",
                        rendered.cell(row, col)
                    )
                };
                ensure!(
                    is_leaf(kind),
                    "oracle-internal:inner-id-painted",
                    "cell ({row},{col}) carries id of inner node {id}"
                );
                // (3)
                let own = geoms.get(id).and_then(|g| g.own);
                let name = kind_name(kind);
                let Some(own) = own else {
                    fail!(
                        format!("paint-outside-layout:{name}:no-layout"),
                        "leaf {id} ({name}) painted cell ({row},{col}) but the layout tree has no rectangle for it; cfg={cfg:?}"
                    )
                };
                ensure!(
                    own.contains(row, col),
                    format!("paint-outside-layout:{name}"),
                    "leaf {id} ({name}) painted cell ({row},{col}) outside its clipped rectangle rows {}..{} cols {}..{}; cfg={cfg:?} layout={:?}",
                    own.r0,
                    own.r1,
                    own.c0,
                    own.c1,
                    layout
                );
                ctx.feat("paint-in-rect.checked");
                // (3b) an image cell stands for the whole image: the cells it covers on screen
                // must lie inside the rectangle as well
                if let (Kind::Image { .. }, surf_n_term::render::CellKind::Image(image)) =
                    (*kind, rendered.cell(row, col).kind())
                {
                    let cells = image.size_cells(Size::new(cfg.ppc.0, cfg.ppc.1));
                    ensure!(
                        (row + cells.height) as u128 <= own.r1 && (col + cells.width) as u128 <= own.c1,
                        "paint-outside-layout:image:area",
                        "leaf {id} (image) put an image of {}x{} cells at ({row},{col}) which does not fit its clipped rectangle rows {}..{} cols {}..{}; cfg={cfg:?} layout={:?}",
                        cells.height,
                        cells.width,
                        own.r0,
                        own.r1,
                        own.c0,
                        own.c1,
                        layout
                    );
                    ctx.feat("paint-in-rect.image-area-checked");
                }
                // (4)
                if !root_at_origin {
                    continue;
                }
                match reference_path(rendered, row, col) {
                    None => ctx.feat("hit-test.ambiguous(overlapping-siblings)"),
                    Some(reference) => {
                        ensure!(
                            reference.contains(id),
                            "oracle-internal:reference-path",
                            "unique chain {reference:?} at ({row},{col}) lacks painting leaf {id}; layout={:?}",
                            layout
                        );
                        let found: Vec<u32> = layout
                            .find_path(Position::new(row, col))
                            .filter_map(|l| l.data::<NodeId>().map(|n| n.0))
                            .collect();
                        ensure!(
                            found.contains(id),
                            format!("find-path-misses-painter:{name}"),
                            "find_path(({row},{col})) = {found:?} does not contain leaf {id} ({name}) which painted that cell; unique covering chain is {reference:?}; cfg={cfg:?} layout={:?}",
                            layout
                        );
                        ctx.feat("hit-test.decided");
                    }
                }
            }
        }
    }
    for geom in geoms.values() {
        ensure!(geom.seen == 1, "oracle-internal:id-twice-in-layout", "an id appears {} times", geom.seen);
    }
    Ok(())
}

fn check_json(text: &str, cfg: &RunCfg, ctx: &mut Ctx) -> Result<(), Fail> {
    if !cfg.valid() {
        ctx.nondeciding = true;
        return Ok(());
    }
    let seed = ViewDeserializer::new(None, None);
    let mut de = serde_json::Deserializer::from_str(text);
    let view = match seed.deserialize(&mut de) {
        Ok(view) => view,
        Err(_) => {
            ctx.feat("json.rejected");
            ctx.nondeciding = true;
            return Ok(());
        }
    };
    ctx.feat("json.tree-rendered");
    match render_checked(&view, cfg)? {
        RenderOutcome::Done(_) => {}
        RenderOutcome::ViewError(_) => ctx.feat("view-returned-error"),
    }
    Ok(())
}

// ---------------------------------------------------------------------------
// shrinking

fn child_slots(node: &mut Node) -> Vec<&mut Node> {
    match &mut node.kind {
        Kind::Flex { kids, .. } => kids.iter_mut().map(|kid| &mut kid.node).collect(),
        Kind::Container { child, .. } | Kind::Frame { child, .. } => vec![child.as_mut()],
        _ => Vec::new(),
    }
}

fn node_at_path<'a>(node: &'a mut Node, path: &[usize]) -> Option<&'a mut Node> {
    match path.split_first() {
        None => Some(node),
        Some((index, rest)) => {
            let slot = child_slots(node).into_iter().nth(*index)?;
            node_at_path(slot, rest)
        }
    }
}

fn all_paths(node: &Node, prefix: &mut Vec<usize>, out: &mut Vec<Vec<usize>>) {
    out.push(prefix.clone());
    let children: Vec<&Node> = match &node.kind {
        Kind::Flex { kids, .. } => kids.iter().map(|kid| &kid.node).collect(),
        Kind::Container { child, .. } | Kind::Frame { child, .. } => vec![child.as_ref()],
        _ => Vec::new(),
    };
    for (index, child) in children.into_iter().enumerate() {
        prefix.push(index);
        all_paths(child, prefix, out);
        prefix.pop();
    }
}

fn shrink_tree(root: &Node) -> Vec<Node> {
    let mut out = Vec::new();
    let mut paths = Vec::new();
    all_paths(root, &mut Vec::new(), &mut paths);
    for path in paths.iter().take(48) {
        // hoist each child over the node
        let mut probe = root.clone();
        let count = node_at_path(&mut probe, path).map(|n| child_slots(n).len()).unwrap_or(0);
        for index in 0..count {
            let mut cand = root.clone();
            if let Some(node) = node_at_path(&mut cand, path) {
                let child = child_slots(node).into_iter().nth(index).map(|c| c.clone());
                if let Some(child) = child {
                    *node = child;
                    out.push(cand);
                }
            }
        }
        // drop flex kids
        for index in 0..count {
            let mut cand = root.clone();
            if let Some(Node {
                kind: Kind::Flex { kids, .. },
                ..
            }) = node_at_path(&mut cand, path)
            {
                kids.remove(index);
                out.push(cand);
            }
        }
        // replace by a probe, drop decorators, plain attributes
        let mut cand = root.clone();
        if let Some(node) = node_at_path(&mut cand, path) {
            if !matches!(node.kind, Kind::Probe { .. }) {
                node.kind = Kind::Probe { h: 1, w: 1 };
                out.push(cand);
            }
        }
        let mut cand = root.clone();
        if let Some(node) = node_at_path(&mut cand, path) {
            if !node.deco.is_empty() {
                node.deco.clear();
                out.push(cand);
            }
        }
        let mut cand = root.clone();
        if let Some(node) = node_at_path(&mut cand, path) {
            let before = node.clone();
            match &mut node.kind {
                Kind::Flex { kids, .. } => {
                    for kid in kids.iter_mut() {
                        kid.face = false;
                        kid.align = AlignS::Start;
                    }
                }
                Kind::Container {
                    margins, face, size, ..
                } => {
                    *margins = [0; 4];
                    *face = false;
                    *size = (0, 0);
                }
                Kind::Text { items, .. } => {
                    items.truncate(items.len() / 2);
                }
                _ => {}
            }
            if *node != before {
                out.push(cand);
            }
        }
    }
    out
}

impl Prop for C10 {
    type Case = Case;
    const ID: &'static str = "C10";

    fn default_cases(tier: Tier, flavour: &str) -> u64 {
        match (tier, flavour) {
            (_, "miri") | (_, "miri-sb") => tier.pick(200, 1_000),
            (Tier::Quick, _) => 1_600_000,
            (Tier::Thorough, "asan") | (Tier::Thorough, "valgrind") => 20_000_000,
            (Tier::Thorough, _) => 200_000_000,
        }
    }

    fn gen(rng: &mut Rng, _tier: Tier, index: u64) -> Case {
        let cfg = gen_cfg(rng, ALLOW_HUGE_CT);
        if index % 8 == 7 {
            let depth = rng.range(0, 4);
            let mut doc = viewgen::gen_view_doc(rng, depth);
            if rng.chance(1, 3) {
                viewgen::mutate(rng, &mut doc);
            }
            return Case::Json {
                text: doc.text(),
                cfg,
            };
        }
        let mut gen = Gen {
            rng,
            next_id: 0,
            budget: 0,
            max: (cfg.max.0.min(40), cfg.max.1.min(40)),
        };
        gen.budget = *gen.rng.pick(&[1usize, 3, 6, 10, 16, 24]);
        let depth = gen.rng.range(0, 5);
        let root = gen.node(depth);
        Case::Tree { root, cfg }
    }

    fn check(case: &Case, ctx: &mut Ctx) -> Result<(), Fail> {
        match case {
            Case::Tree { root, cfg } => check_tree(root, cfg, ctx),
            Case::Json { text, cfg } => check_json(text, cfg, ctx),
        }
    }

    fn nontrivial(case: &Case) -> bool {
        match case {
            Case::Tree { root, .. } => !is_leaf(&root.kind),
            Case::Json { .. } => true,
        }
    }

    fn shrink(case: &Case) -> Vec<Case> {
        match case {
            Case::Tree { root, cfg } => {
                let mut out: Vec<Case> = shrink_tree(root)
                    .into_iter()
                    .map(|root| Case::Tree { root, cfg: *cfg })
                    .collect();
                if cfg.surf != cfg.max && cfg.max.0 < 64 && cfg.max.1 < 64 {
                    out.push(Case::Tree {
                        root: root.clone(),
                        cfg: RunCfg {
                            surf: cfg.max,
                            ..*cfg
                        },
                    });
                }
                if cfg.min != (0, 0) {
                    out.push(Case::Tree {
                        root: root.clone(),
                        cfg: RunCfg {
                            min: (0, 0),
                            ..*cfg
                        },
                    });
                }
                out
            }
            Case::Json { .. } => Vec::new(),
        }
    }

    fn rule() -> &'static str {
        "case = (view-tree spec with ids, constraint min/max, surface size, pixels per cell, glyph capability) or (JSON view document text + the same configuration); non-trivial = root is a flex/container/frame or the case is JSON-born; distinct = hash of the whole case"
    }

    fn setup(ctx: &mut Ctx) {
        // the identification scheme relies on opaque colours surviving Face::overlay exactly
        use surf_n_term::Color;
        let mut exact = true;
        for id in 0..MAX_ID {
            for under in [palette(id as u8), idcol((id + 7) % MAX_ID), RGBA::new(9, 9, 9, 100)] {
                exact &= under.blend_over(idcol(id)) == idcol(id);
                exact &= idcol(id).blend_over(palette(id as u8)) == palette(id as u8);
            }
        }
        ctx.extra
            .insert("id_colours_exact_under_overlay".into(), serde_json::json!(exact));
        assert!(exact, "oracle-internal: opaque id colours do not survive blend_over exactly");
    }

    fn sample(case: &Case) -> serde_json::Value {
        match case {
            Case::Tree { root, cfg } => {
                let mut nodes = 0;
                for_each_node(root, &mut |_| nodes += 1);
                serde_json::json!({"tree_nodes": nodes, "root": kind_name(&root.kind), "cfg": cfg})
            }
            Case::Json { text, cfg } => {
                serde_json::json!({"json": text.chars().take(200).collect::<String>(), "cfg": cfg})
            }
        }
    }
}
