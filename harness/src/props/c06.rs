//! C06 — the library reads back its own SGR output and applies it with SGR semantics
use super::c04::{face_modify, gen_sgr, FaceSpec, FmSpec};
use super::dec_common::*;
use crate::core::{shrink_vec, Ctx, Fail, Prop, Tier};
use crate::rng::Rng;
use crate::{ensure, fail};
use serde::{Deserialize, Serialize};
use std::io::Write;
use surf_n_term::{
    encoder::{ColorDepth, Encoder, TTYEncoder},
    Cell, CellWrite, Face, FaceModify, TerminalCaps, TerminalCommand,
};

pub struct C06;

#[derive(Clone, Debug, PartialEq, Eq, Hash, Serialize, Deserialize)]
pub enum Cmd {
    Modify(FmSpec),
    Face(FaceSpec),
    Char(u32),
}

#[derive(Clone, Debug, PartialEq, Eq, Hash, Serialize, Deserialize)]
pub enum Piece {
    /// SGR parameter text and what it denotes
    Sgr(String, FmSpec),
    Text(String),
}

#[derive(Clone, Debug, Hash, Serialize, Deserialize)]
pub enum Case {
    /// (a) encoder (true colour) -> command decoder
    RoundTrip { cmds: Vec<Cmd>, cuts: Vec<usize> },
    /// (b) FaceModify::apply against the harness rule
    Apply { m: FmSpec, face: FaceSpec },
    /// (c) tty_writer cells against the reference SGR state machine, under a chunking
    Writer { pieces: Vec<Piece>, cuts: Vec<usize> },
}

fn gen_color(rng: &mut Rng) -> [u8; 3] {
    let mut c = || {
        if rng.bool() {
            *rng.pick(&[0u8, 1, 127, 128, 254, 255])
        } else {
            rng.next_u8()
        }
    };
    [c(), c(), c()]
}

fn opt<T>(rng: &mut Rng, f: impl FnOnce(&mut Rng) -> T) -> Option<T> {
    if rng.bool() {
        Some(f(rng))
    } else {
        None
    }
}

pub fn gen_fm(rng: &mut Rng) -> FmSpec {
    FmSpec {
        reset: rng.chance(1, 4),
        fg: opt(rng, gen_color),
        bg: opt(rng, gen_color),
        underline: opt(rng, |r| r.below(6) as u8),
        ucolor: opt(rng, gen_color),
        bold: opt(rng, |r| r.bool()),
        italic: opt(rng, |r| r.bool()),
        blink: opt(rng, |r| r.bool()),
        strike: opt(rng, |r| r.bool()),
    }
}

pub fn gen_face(rng: &mut Rng) -> FaceSpec {
    FaceSpec {
        fg: opt(rng, gen_color),
        bg: opt(rng, gen_color),
        underline: if rng.bool() { 0 } else { rng.below(6) as u8 },
        bold: rng.bool(),
        italic: rng.bool(),
        blink: rng.bool(),
        reverse: rng.chance(1, 4),
        strike: rng.bool(),
    }
}

fn gen_char(rng: &mut Rng) -> u32 {
    loop {
        let v = match rng.below(8) {
            0 => rng.range(0, 0x7f),
            1 => rng.range(0x20, 0x7e),
            2 => rng.range(0x80, 0x7ff),
            3 => rng.range(0x800, 0xffff),
            4 => rng.range(0x10000, 0x10ffff),
            5 => *rng.pick(&[0usize, 0x1a, 0x1c, 0x7f, 0x80, 0x9b, 0xd7ff, 0xe000, 0x10ffff]),
            _ => rng.range(0x20, 0x2fff),
        } as u32;
        if v != 0x1b && char::from_u32(v).is_some() {
            return v;
        }
    }
}

fn is_empty_record(m: &FmSpec) -> bool {
    *m == FmSpec::default()
}

/// Recording cell sink for tty_writer
#[derive(Default)]
struct Sink {
    face: Face,
    wraps: bool,
    cells: Vec<Cell>,
}

impl CellWrite for Sink {
    fn face(&self) -> Face {
        self.face
    }
    fn set_face(&mut self, face: Face) -> Face {
        std::mem::replace(&mut self.face, face)
    }
    fn wraps(&self) -> bool {
        self.wraps
    }
    fn set_wraps(&mut self, wraps: bool) -> bool {
        std::mem::replace(&mut self.wraps, wraps)
    }
    fn put_cell(&mut self, cell: Cell) -> bool {
        self.cells.push(cell);
        true
    }
}

fn write_chunked(sink: &mut Sink, bytes: &[u8], cuts: &[usize]) -> Result<(), Fail> {
    let mut writer = sink.by_ref().tty_writer();
    for chunk in chunks(bytes, cuts) {
        let mut rest = chunk;
        let mut guard = 0;
        while !rest.is_empty() {
            let n = writer
                .write(rest)
                .map_err(|e| Fail::new("writer:io-error", format!("tty_writer write failed: {e}")))?;
            ensure!(n <= rest.len(), "writer:overreport", "write returned {n} for {} bytes", rest.len());
            ensure!(n > 0, "writer:zero-write", "write accepted 0 of {} bytes", rest.len());
            rest = &rest[n..];
            guard += 1;
            ensure!(guard <= chunk.len() + 1, "writer:no-progress", "write loop");
        }
    }
    Ok(())
}

impl Prop for C06 {
    type Case = Case;
    const ID: &'static str = "C06";

    fn default_cases(tier: Tier, flavour: &str) -> u64 {
        match (tier, flavour) {
            (_, "miri") => tier.pick(300, 5_000),
            (Tier::Quick, _) => 300_000,
            (Tier::Thorough, "asan") => 1_000_000,
            (Tier::Thorough, _) => 20_000_000,
        }
    }

    fn gen(rng: &mut Rng, _tier: Tier, _index: u64) -> Case {
        if cfg!(miri) {
            // pure part only (command automaton takes minutes to build under Miri)
            return Case::Apply { m: gen_fm(rng), face: gen_face(rng) };
        }
        match rng.below(5) {
            0 | 1 => {
                let n = rng.range(1, 10);
                let cmds: Vec<Cmd> = (0..n)
                    .map(|_| match rng.below(5) {
                        0 | 1 => Cmd::Modify(gen_fm(rng)),
                        2 => Cmd::Face(gen_face(rng)),
                        _ => Cmd::Char(gen_char(rng)),
                    })
                    .collect();
                let cuts = if rng.bool() { vec![] } else { rng.partition(n * 12) };
                Case::RoundTrip { cmds, cuts }
            }
            2 => Case::Apply { m: gen_fm(rng), face: gen_face(rng) },
            _ => {
                let n = rng.range(1, 12);
                let pieces: Vec<Piece> = (0..n)
                    .map(|_| {
                        if rng.bool() {
                            let (params, m) = gen_sgr(rng, 5);
                            Piece::Sgr(params, m)
                        } else {
                            let len = rng.range(1, 5);
                            Piece::Text((0..len).map(|_| char::from_u32(gen_char(rng)).unwrap()).collect())
                        }
                    })
                    .collect();
                let cuts = rng.partition(n * 10);
                Case::Writer { pieces, cuts }
            }
        }
    }

    fn check(case: &Case, ctx: &mut Ctx) -> Result<(), Fail> {
        /// what is *encoded* carries an arbitrary alpha channel: an SGR sequence cannot express it,
        /// and what is read back is the same colour, opaque
        use surf_n_term::RGBA;
        fn translucent(c: RGBA) -> RGBA {
            use surf_n_term::Color;
            let [r, g, b] = c.to_rgb();
            let alpha = [255u8, 255, 0, 1, 128, 254][(r as usize + 5 * g as usize + 11 * b as usize) % 6];
            RGBA::new(r, g, b, alpha)
        }
        fn translucent_modify(mut m: FaceModify) -> FaceModify {
            m.fg = m.fg.map(translucent);
            m.bg = m.bg.map(translucent);
            m.underline_color = m.underline_color.map(translucent);
            m
        }
        fn translucent_face(f: Face) -> Face {
            Face::new(f.fg.map(translucent), f.bg.map(translucent), f.attrs)
        }
        /// a writer that takes nothing
        struct Refuse;
        impl std::io::Write for Refuse {
            fn write(&mut self, buf: &[u8]) -> std::io::Result<usize> {
                if buf.is_empty() {
                    Ok(0)
                } else {
                    Err(std::io::ErrorKind::WouldBlock.into())
                }
            }
            fn flush(&mut self) -> std::io::Result<()> {
                Ok(())
            }
        }
        match case {
            Case::RoundTrip { cmds, cuts } => {
                let caps = TerminalCaps { depth: ColorDepth::TrueColor, glyphs: false, kitty_keyboard: false };
                let mut encoder = TTYEncoder::new(caps);
                let mut bytes = Vec::new();
                // what the decoder must give back
                enum Want {
                    Modify(FmSpec),
                    Face(FaceSpec),
                    Char(char),
                }
                let mut want = Vec::new();
                for (k, cmd) in cmds.iter().enumerate() {
                    // a congested output refuses a face change now and then: nothing of it is written,
                    // and nothing of it may be carried into what the encoder writes next
                    if (k + cmds.len()) % 3 == 0 {
                        let refused = match &cmds[(k * 5 + 1) % cmds.len()] {
                            Cmd::Modify(m) => TerminalCommand::FaceModify(face_modify(m)),
                            Cmd::Face(f) => TerminalCommand::Face(f.to_face()),
                            Cmd::Char(c) => TerminalCommand::Char(char::from_u32(*c).unwrap_or('?')),
                        };
                        let result = encoder.encode(&mut Refuse, refused);
                        ctx.feat_if(result.is_err(), "roundtrip.command-refused-by-writer");
                    }
                    match cmd {
                        Cmd::Modify(m) => {
                            encoder
                                .encode(&mut bytes, TerminalCommand::FaceModify(translucent_modify(face_modify(m))))
                                .map_err(|e| Fail::new("encode-error", format!("{e:?}")))?;
                            if !is_empty_record(m) {
                                want.push(Want::Modify(m.clone()));
                            }
                            ctx.feat("roundtrip.modify");
                        }
                        Cmd::Face(f) => {
                            encoder
                                .encode(&mut bytes, TerminalCommand::Face(translucent_face(f.to_face())))
                                .map_err(|e| Fail::new("encode-error", format!("{e:?}")))?;
                            want.push(Want::Face(f.clone()));
                            ctx.feat("roundtrip.face");
                        }
                        Cmd::Char(c) => {
                            let c = char::from_u32(*c).unwrap_or('?');
                            encoder
                                .encode(&mut bytes, TerminalCommand::Char(c))
                                .map_err(|e| Fail::new("encode-error", format!("{e:?}")))?;
                            want.push(Want::Char(c));
                            ctx.feat("roundtrip.char");
                        }
                    }
                }
                let got = run_command(&bytes, cuts)?;
                ensure!(
                    got.len() == want.len(),
                    "roundtrip:count",
                    "encoded {} commands as {} but decoded {} commands: {:?}",
                    want.len(),
                    esc(&bytes),
                    got.len(),
                    got
                );
                for (i, (w, g)) in want.iter().zip(got.iter()).enumerate() {
                    match (w, g) {
                        (Want::Char(c), TerminalCommand::Char(d)) if c == d => {}
                        (Want::Modify(m), TerminalCommand::FaceModify(d)) => {
                            let expect: FaceModify = face_modify(m);
                            ensure!(
                                *d == expect,
                                "roundtrip:modify",
                                "command #{i}: {:?} encoded in {} read back as {:?}",
                                expect,
                                esc(&bytes),
                                d
                            );
                        }
                        (Want::Face(f), TerminalCommand::FaceModify(d)) => {
                            // the restriction of a Face to what a record can express: applying the
                            // read-back record to ANY prior face yields the face (reverse aside)
                            let back = super::c04::fm_spec(d);
                            let target = FaceSpec { reverse: false, ..f.clone() };
                            for prior in [
                                FaceSpec::default(),
                                FaceSpec {
                                    fg: Some([9, 8, 7]),
                                    bg: Some([1, 2, 3]),
                                    underline: 3,
                                    bold: true,
                                    italic: true,
                                    blink: true,
                                    reverse: false,
                                    strike: true,
                                },
                            ] {
                                let res = prior.apply(&back);
                                ensure!(
                                    res == target,
                                    "roundtrip:face",
                                    "command #{i}: face {:?} encoded in {} read back as {:?}, which turns {:?} into {:?}",
                                    f,
                                    esc(&bytes),
                                    d,
                                    prior,
                                    res
                                );
                                // the library's own apply must agree as well
                                let lib = FaceSpec::from_face(&d.apply(prior.to_face()));
                                ensure!(
                                    lib == target,
                                    "roundtrip:face-apply",
                                    "command #{i}: read back record {:?} applied by the library to {:?} gives {:?}, wanted {:?}",
                                    d,
                                    prior,
                                    lib,
                                    target
                                );
                            }
                        }
                        _ => fail!(
                            "roundtrip:kind",
                            "command #{i} read back as {:?}; stream {}",
                            g,
                            esc(&bytes)
                        ),
                    }
                }
                Ok(())
            }
            Case::Apply { m, face } => {
                ctx.feat("apply");
                let expect = face.apply(m);
                let got = FaceSpec::from_face(&face_modify(m).apply(face.to_face()));
                let clause = if got.strike != expect.strike || got.bold != expect.bold {
                    "flags"
                } else if got.underline != expect.underline {
                    "underline"
                } else {
                    "other"
                };
                ensure!(
                    got == expect,
                    format!("apply:{clause}"),
                    "FaceModify {:?} applied to {:?} gives {:?}, SGR semantics give {:?}",
                    m,
                    face,
                    got,
                    expect
                );
                Ok(())
            }
            Case::Writer { pieces, cuts } => {
                let mut bytes = Vec::new();
                let mut state = FaceSpec::default();
                let mut expect: Vec<(char, Face)> = Vec::new();
                for p in pieces {
                    match p {
                        Piece::Sgr(params, m) => {
                            bytes.extend_from_slice(format!("\x1b[{params}m").as_bytes());
                            state = state.apply(m);
                            ctx.feat("writer.sgr");
                        }
                        Piece::Text(t) => {
                            bytes.extend_from_slice(t.as_bytes());
                            let face = state.to_face();
                            expect.extend(t.chars().map(|c| (c, face)));
                            ctx.feat_n("writer.chars", t.chars().count() as u64);
                        }
                    }
                }
                let mut whole = Sink::default();
                write_chunked(&mut whole, &bytes, &[])?;
                let mut split = Sink::default();
                write_chunked(&mut split, &bytes, cuts)?;
                let mut single = Sink::default();
                write_chunked(&mut single, &bytes, &vec![1; bytes.len()])?;
                ensure!(
                    whole.cells == split.cells && whole.cells == single.cells,
                    "writer:chunk-dependence",
                    "cells depend on how {} was split ({:?})",
                    esc(&bytes),
                    &cuts[..cuts.len().min(10)]
                );
                let got: Vec<(Option<char>, Face)> = whole
                    .cells
                    .iter()
                    .map(|c| {
                        (
                            match c.kind() {
                                surf_n_term::render::CellKind::Char(ch) => Some(*ch),
                                _ => None,
                            },
                            c.face(),
                        )
                    })
                    .collect();
                let want: Vec<(Option<char>, Face)> = expect.iter().map(|(c, f)| (Some(*c), *f)).collect();
                if got != want {
                    let at = got.iter().zip(want.iter()).position(|(a, b)| a != b).unwrap_or(got.len().min(want.len()));
                    fail!(
                        "writer:sgr-semantics",
                        "writing {} through tty_writer: cell #{at} is {:?}, reference SGR machine says {:?} ({} vs {} cells)",
                        esc(&bytes),
                        got.get(at),
                        want.get(at),
                        got.len(),
                        want.len()
                    );
                }
                Ok(())
            }
        }
    }

    fn case_hash(case: &Case) -> u64 {
        use std::hash::{Hash, Hasher};
        let mut h = std::collections::hash_map::DefaultHasher::new();
        case.hash(&mut h);
        h.finish()
    }

    fn shrink(case: &Case) -> Vec<Case> {
        let mut out = Vec::new();
        match case {
            Case::RoundTrip { cmds, cuts } => {
                if !cuts.is_empty() {
                    out.push(Case::RoundTrip { cmds: cmds.clone(), cuts: vec![] });
                }
                for c in shrink_vec(cmds) {
                    if !c.is_empty() {
                        out.push(Case::RoundTrip { cmds: c, cuts: vec![] });
                    }
                }
            }
            Case::Writer { pieces, cuts } => {
                for p in shrink_vec(pieces) {
                    if !p.is_empty() {
                        out.push(Case::Writer { pieces: p, cuts: cuts.clone() });
                    }
                }
            }
            Case::Apply { m, face } => {
                let d = FmSpec::default();
                for cand in [
                    FmSpec { fg: None, bg: None, ucolor: None, ..m.clone() },
                    FmSpec { bold: None, italic: None, ..m.clone() },
                    FmSpec { blink: None, strike: None, ..m.clone() },
                    FmSpec { underline: None, ..m.clone() },
                    FmSpec { reset: false, ..m.clone() },
                ] {
                    if cand != *m && cand != d {
                        out.push(Case::Apply { m: cand, face: face.clone() });
                    }
                }
                if *face != FaceSpec::default() {
                    out.push(Case::Apply { m: m.clone(), face: FaceSpec::default() });
                }
            }
        }
        out
    }

    fn rule() -> &'static str {
        "case = RoundTrip(commands FaceModify|Face|Char encoded in true colour, decoder read partition) | Apply(record, face) | Writer(SGR sequences and text pieces, write partition); colours opaque, characters any scalar but ESC; every case non-trivial; distinct = hash of the case"
    }

    fn sample(case: &Case) -> serde_json::Value {
        let text = format!("{case:?}");
        serde_json::json!(text.chars().take(400).collect::<String>())
    }
}
