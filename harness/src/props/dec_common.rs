//! Shared pieces for the decoder properties (C02, C03, C04, C06): drivers that feed the real
//! decoders under a read partition with logical step bounds, and byte-stream generators.
use crate::core::Fail;
use crate::rng::Rng;
use serde::{Deserialize, Serialize};
use std::io::Cursor;
use surf_n_term::{
    decoder::{Decoder, TTYCommandDecoder, TTYEventDecoder, Utf8Decoder},
    TerminalCommand, TerminalEvent,
};

#[derive(Clone, Copy, Debug, PartialEq, Eq, Hash, Serialize, Deserialize)]
pub enum Target {
    Event,
    Command,
    Utf8,
}

/// Split `input` according to `cuts` (sizes; the remainder forms a final chunk)
pub fn chunks<'a>(input: &'a [u8], cuts: &[usize]) -> Vec<&'a [u8]> {
    let mut out = Vec::new();
    let mut pos = 0;
    for c in cuts {
        let end = (pos + c).min(input.len());
        out.push(&input[pos..end]);
        pos = end;
    }
    if pos < input.len() || out.is_empty() {
        out.push(&input[pos..]);
    }
    out
}

fn too_many(what: &str, total: usize) -> Fail {
    Fail::new(
        format!("{what}:no-progress"),
        format!("{what}: more decode results than input bytes ({total}): the decoder does not make progress"),
    )
}

/// Feed the event decoder; logical bound: every item consumes at least one input byte
fn run_event_plain(input: &[u8], cuts: &[usize]) -> Result<Vec<TerminalEvent>, Fail> {
    let mut decoder = TTYEventDecoder::new();
    let mut out = Vec::new();
    for chunk in chunks(input, cuts) {
        let mut cur = Cursor::new(chunk);
        loop {
            match decoder.decode(&mut cur) {
                Ok(Some(ev)) => out.push(ev),
                Ok(None) => break,
                Err(e) => {
                    return Err(Fail::new("event:decode-error", format!("decode returned error {e:?}")))
                }
            }
            if out.len() > input.len() + 1 {
                return Err(too_many("event", input.len()));
            }
        }
        if (cur.position() as usize) != chunk.len() {
            return Err(Fail::new(
                "event:chunk-not-consumed",
                format!("decode returned None with {} of {} bytes unread", chunk.len() - cur.position() as usize, chunk.len()),
            ));
        }
    }
    // exhausted: nothing more is available, repeatedly
    for _ in 0..2 {
        match decoder.decode(Cursor::new(&[][..])) {
            Ok(None) => {}
            other => {
                return Err(Fail::new(
                    "event:some-after-exhaustion",
                    format!("decode on empty input after exhaustion returned {other:?}"),
                ))
            }
        }
    }
    Ok(out)
}

/// Feed the event decoder. Three routes must agree: `decode` until it reports nothing more,
/// `decode_into` (one call per read), and `decode` over a reader whose first `fill_buf` of every
/// read fails with a transient error (the call is simply repeated). The `decode` result is returned.
pub fn run_event(input: &[u8], cuts: &[usize]) -> Result<Vec<TerminalEvent>, Fail> {
    let plain = run_event_plain(input, cuts)?;
    let into = run_event_into(input, cuts)?;
    agree("event", "decode_into", &plain, &into, input, cuts)?;
    let mut decoder = TTYEventDecoder::new();
    let flaky = run_flaky(&mut decoder, "event", input, cuts, |e| match e {
        surf_n_term::Error::IOError(e) => Some(e.kind()),
        _ => None,
    })?;
    agree("event", "transient-read-errors", &plain, &flaky, input, cuts)?;
    let mut decoder = TTYEventDecoder::new();
    let torn = run_into_torn(&mut decoder, "event", input, cuts, |e| match e {
        surf_n_term::Error::IOError(e) => Some(e.kind()),
        _ => None,
    })?;
    agree("event", "decode_into-with-error-inside-a-read", &plain, &torn, input, cuts)?;
    Ok(plain)
}

pub fn run_command(input: &[u8], cuts: &[usize]) -> Result<Vec<TerminalCommand>, Fail> {
    let plain = run_command_plain(input, cuts)?;
    let into = run_command_into(input, cuts)?;
    agree("command", "decode_into", &plain, &into, input, cuts)?;
    let mut decoder = TTYCommandDecoder::new();
    let flaky = run_flaky(&mut decoder, "command", input, cuts, |e| match e {
        surf_n_term::Error::IOError(e) => Some(e.kind()),
        _ => None,
    })?;
    agree("command", "transient-read-errors", &plain, &flaky, input, cuts)?;
    let mut decoder = TTYCommandDecoder::new();
    let torn = run_into_torn(&mut decoder, "command", input, cuts, |e| match e {
        surf_n_term::Error::IOError(e) => Some(e.kind()),
        _ => None,
    })?;
    agree("command", "decode_into-with-error-inside-a-read", &plain, &torn, input, cuts)?;
    Ok(plain)
}

fn agree<T: PartialEq + std::fmt::Debug>(
    what: &str,
    route: &str,
    plain: &[T],
    other: &[T],
    input: &[u8],
    cuts: &[usize],
) -> Result<(), Fail> {
    if plain == other {
        return Ok(());
    }
    let at = plain.iter().zip(other.iter()).position(|(a, b)| a != b).unwrap_or(plain.len().min(other.len()));
    Err(Fail::new(
        format!("{what}:route-dependence:{route}"),
        format!(
            "{what} decoder: `decode` yields {} items, the {route} route {}; first difference at #{at}: {:?} vs {:?}; input={} cuts={:?}",
            plain.len(),
            other.len(),
            plain.get(at),
            other.get(at),
            esc(input),
            &cuts[..cuts.len().min(16)]
        ),
    ))
}

/// reader over one chunk whose first `fill_buf` fails once with a transient error
struct FlakyRead<'a> {
    inner: Cursor<&'a [u8]>,
    fail_next: Option<std::io::ErrorKind>,
}

impl std::io::Read for FlakyRead<'_> {
    fn read(&mut self, buf: &mut [u8]) -> std::io::Result<usize> {
        if let Some(kind) = self.fail_next.take() {
            return Err(kind.into());
        }
        self.inner.read(buf)
    }
}

impl std::io::BufRead for FlakyRead<'_> {
    fn fill_buf(&mut self) -> std::io::Result<&[u8]> {
        if let Some(kind) = self.fail_next.take() {
            return Err(kind.into());
        }
        self.inner.fill_buf()
    }
    fn consume(&mut self, amt: usize) {
        self.inner.consume(amt)
    }
}

/// reader over one chunk that delivers its first half, then fails once, then delivers the rest
struct TornRead<'a> {
    first: Cursor<&'a [u8]>,
    second: Cursor<&'a [u8]>,
    failed: bool,
}

impl std::io::Read for TornRead<'_> {
    fn read(&mut self, buf: &mut [u8]) -> std::io::Result<usize> {
        let data = std::io::BufRead::fill_buf(self)?;
        let n = data.len().min(buf.len());
        buf[..n].copy_from_slice(&data[..n]);
        std::io::BufRead::consume(self, n);
        Ok(n)
    }
}

impl std::io::BufRead for TornRead<'_> {
    fn fill_buf(&mut self) -> std::io::Result<&[u8]> {
        if (self.first.position() as usize) < self.first.get_ref().len() {
            return self.first.fill_buf();
        }
        if !self.failed {
            self.failed = true;
            return Err(std::io::ErrorKind::WouldBlock.into());
        }
        self.second.fill_buf()
    }
    fn consume(&mut self, amt: usize) {
        if (self.first.position() as usize) < self.first.get_ref().len() {
            self.first.consume(amt)
        } else {
            self.second.consume(amt)
        }
    }
}

/// `decode_into` per read, the read failing once in its middle; what was decoded before the error
/// has been consumed from the reader, so it must have been handed out
fn run_into_torn<D: Decoder>(
    decoder: &mut D,
    what: &str,
    input: &[u8],
    cuts: &[usize],
    kind_of: impl Fn(&D::Error) -> Option<std::io::ErrorKind>,
) -> Result<Vec<D::Item>, Fail>
where
    D::Error: std::fmt::Debug,
{
    let mut out = Vec::new();
    for chunk in chunks(input, cuts) {
        let (a, b) = chunk.split_at(chunk.len() / 2);
        let mut reader = TornRead { first: Cursor::new(a), second: Cursor::new(b), failed: false };
        let mut failures = 0;
        let mut calls = 0;
        loop {
            calls += 1;
            match decoder.decode_into(&mut reader, &mut out) {
                // (a call ends when one buffer of the reader is used up: go on until the read is)
                Ok(_) => {
                    let done = reader.failed
                        && (reader.first.position() as usize) == a.len()
                        && (reader.second.position() as usize) == b.len();
                    if done || calls > chunk.len() + 4 {
                        break;
                    }
                }
                Err(e) if kind_of(&e) == Some(std::io::ErrorKind::WouldBlock) && failures == 0 => failures += 1,
                Err(e) => return Err(Fail::new(format!("{what}:decode-error"), format!("decode_into returned error {e:?}"))),
            }
        }
        if out.len() > input.len() + 1 {
            return Err(too_many(what, input.len()));
        }
    }
    Ok(out)
}

fn run_flaky<D: Decoder>(
    decoder: &mut D,
    what: &str,
    input: &[u8],
    cuts: &[usize],
    kind_of: impl Fn(&D::Error) -> Option<std::io::ErrorKind>,
) -> Result<Vec<D::Item>, Fail>
where
    D::Error: std::fmt::Debug,
{
    let mut out = Vec::new();
    for (n, chunk) in chunks(input, cuts).into_iter().enumerate() {
        let kind = if n % 2 == 0 { std::io::ErrorKind::WouldBlock } else { std::io::ErrorKind::Interrupted };
        let mut reader = FlakyRead { inner: Cursor::new(chunk), fail_next: Some(kind) };
        let mut failures = 0;
        loop {
            match decoder.decode(&mut reader) {
                Ok(Some(item)) => out.push(item),
                Ok(None) => break,
                Err(e) if kind_of(&e) == Some(kind) && failures == 0 => failures += 1,
                Err(e) => return Err(Fail::new(format!("{what}:decode-error"), format!("decode returned error {e:?}"))),
            }
            if out.len() > input.len() + 1 {
                return Err(too_many(what, input.len()));
            }
        }
    }
    Ok(out)
}

/// The same through `Decoder::decode_into` (one call per read, as `UnixTerminal::poll` uses it)
pub fn run_event_into(input: &[u8], cuts: &[usize]) -> Result<Vec<TerminalEvent>, Fail> {
    let mut decoder = TTYEventDecoder::new();
    run_into(&mut decoder, "event", input, cuts)
}

pub fn run_command_into(input: &[u8], cuts: &[usize]) -> Result<Vec<TerminalCommand>, Fail> {
    let mut decoder = TTYCommandDecoder::new();
    run_into(&mut decoder, "command", input, cuts)
}

fn run_into<D: Decoder>(decoder: &mut D, what: &str, input: &[u8], cuts: &[usize]) -> Result<Vec<D::Item>, Fail>
where
    D::Error: std::fmt::Debug,
{
    let mut out = Vec::new();
    for chunk in chunks(input, cuts) {
        let mut cur = Cursor::new(chunk);
        let before = out.len();
        let n = decoder
            .decode_into(&mut cur, &mut out)
            .map_err(|e| Fail::new(format!("{what}:decode-error"), format!("decode_into returned error {e:?}")))?;
        if n != out.len() - before {
            return Err(Fail::new(
                format!("{what}:decode_into-count"),
                format!("decode_into reported {n} items and pushed {}", out.len() - before),
            ));
        }
        if (cur.position() as usize) != chunk.len() {
            return Err(Fail::new(
                format!("{what}:chunk-not-consumed"),
                format!("decode_into returned with {} of {} bytes unread", chunk.len() - cur.position() as usize, chunk.len()),
            ));
        }
    }
    let mut rest = Vec::new();
    let n = decoder
        .decode_into(Cursor::new(&[][..]), &mut rest)
        .map_err(|e| Fail::new(format!("{what}:decode-error"), format!("decode_into returned error {e:?}")))?;
    if n != 0 || !rest.is_empty() {
        return Err(Fail::new(
            format!("{what}:some-after-exhaustion"),
            format!("decode_into on empty input after exhaustion produced {} items", rest.len()),
        ));
    }
    Ok(out)
}

fn run_command_plain(input: &[u8], cuts: &[usize]) -> Result<Vec<TerminalCommand>, Fail> {
    let mut decoder = TTYCommandDecoder::new();
    let mut out = Vec::new();
    for chunk in chunks(input, cuts) {
        let mut cur = Cursor::new(chunk);
        loop {
            match decoder.decode(&mut cur) {
                Ok(Some(ev)) => out.push(ev),
                Ok(None) => break,
                Err(e) => {
                    return Err(Fail::new("command:decode-error", format!("decode returned error {e:?}")))
                }
            }
            if out.len() > input.len() + 1 {
                return Err(too_many("command", input.len()));
            }
        }
        if (cur.position() as usize) != chunk.len() {
            return Err(Fail::new(
                "command:chunk-not-consumed",
                format!("decode returned None with {} bytes unread", chunk.len() - cur.position() as usize),
            ));
        }
    }
    for _ in 0..2 {
        match decoder.decode(Cursor::new(&[][..])) {
            Ok(None) => {}
            other => {
                return Err(Fail::new(
                    "command:some-after-exhaustion",
                    format!("decode on empty input after exhaustion returned {other:?}"),
                ))
            }
        }
    }
    Ok(out)
}

/// Utf8Decoder reports malformed input as `Err` and carries on: Err(()) items mark those
pub fn run_utf8(input: &[u8], cuts: &[usize]) -> Result<Vec<Result<char, ()>>, Fail> {
    let mut decoder = Utf8Decoder::new();
    let mut out = Vec::new();
    for chunk in chunks(input, cuts) {
        let mut cur = Cursor::new(chunk);
        loop {
            match decoder.decode(&mut cur) {
                Ok(Some(c)) => out.push(Ok(c)),
                Ok(None) => break,
                Err(_) => out.push(Err(())),
            }
            if out.len() > input.len() + 1 {
                return Err(too_many("utf8", input.len()));
            }
        }
        if (cur.position() as usize) != chunk.len() {
            return Err(Fail::new(
                "utf8:chunk-not-consumed",
                format!("decode returned None with {} bytes unread", chunk.len() - cur.position() as usize),
            ));
        }
    }
    for _ in 0..2 {
        match decoder.decode(Cursor::new(&[][..])) {
            Ok(None) => {}
            other => {
                return Err(Fail::new(
                    "utf8:some-after-exhaustion",
                    format!("decode on empty input after exhaustion returned {other:?}"),
                ))
            }
        }
    }
    Ok(out)
}

// ---------------------------------------------------------------------------
// generators

/// Protocol fragments for the token soup
pub const FRAGMENTS: &[&[u8]] = &[
    b"\x1b", b"\x1b[", b"\x1b]", b"\x1bO", b"\x1bP", b"\x1b_G", b"\x1b\\", b"\x07", b"<", b"?", b";", b":",
    b"$", b"+", b"=", b"~", b"0", b"1", b"2", b"4", b"5", b"8", b"9", b"38", b"48", b"58", b"200~", b"201~",
    b"\x1b[200~", b"\x1b[201~", b"m", b"M", b"R", b"u", b"c", b"t", b"y", b"$y", b"$r", b"+r", b"r", b"q",
    b"A", b"B", b"H", b"P", b"Q", b"S", b"a", b"z", b"i=", b"p=", b",", b"OK", b"rgb:", b"/", b"#", b"ff",
    b" ", b"\x00", b"\x7f", b"\t", b"\r", b"\n", b"\xc3", b"\xa9", b"\xe2", b"\x82", b"\xac", b"\xf0", b"\x9f",
    b"\x90", b"\xb1", b"\xed", b"\xa0", b"\x80", b"\xf7", b"\xbf", b"\xc0", b"\xff", b"\xfe", b"\x1b[<",
    b"\x1b[?", b"\x1bP1+r", b"\x1bP0+r", b"\x1bP1$r", b"\x1b]4;", b"\x1b]10;", b"\x1b]11;", b"\x1b[8;",
    b"\x1b[4;", b"\x1b[1;", b"\x1b[38;2;", b"\x1b[38:2:", b"\x1b[48;5;", b"6d", b"3d", b"0;", b"1;5",
];

/// Decimal parameter strings biased to the hostile boundaries
pub fn hostile_number(rng: &mut Rng) -> String {
    const FIXED: &[&str] = &[
        "", "0", "1", "2", "00", "007", "9", "10", "25", "127", "128", "254", "255", "256", "257", "1000",
        "2004", "2026", "65535", "65536", "2147483647", "2147483648", "4294967295", "4294967296", "4294967297",
        "9223372036854775807", "9223372036854775808", "18446744073709551615", "18446744073709551616",
        "18446744073709551617", "99999999999999999999", "100000000000000000000000",
        "00000000000000000000000000000001", "340282366920938463463374607431768211456",
    ];
    match rng.below(10) {
        0..=5 => FIXED[rng.below(FIXED.len())].to_string(),
        6 => rng.below(70000).to_string(),
        7 => rng.below(300).to_string(),
        8 => {
            let n = rng.range(18, 40);
            (0..n).map(|_| char::from(b'0' + rng.below(10) as u8)).collect()
        }
        _ => format!("{}", rng.next_u64()),
    }
}

pub fn small_number(rng: &mut Rng) -> String {
    match rng.below(6) {
        0 => "0".into(),
        1 => "1".into(),
        2 => rng.below(10).to_string(),
        3 => rng.below(256).to_string(),
        _ => rng.below(70000).to_string(),
    }
}

/// UTF-8-ish byte groups: valid of every length, overlong, surrogates, > U+10FFFF, truncated, stray tails
pub fn hostile_utf8(rng: &mut Rng) -> Vec<u8> {
    match rng.below(12) {
        0 => vec![rng.range(0x20, 0x7e) as u8],
        1 => {
            let c = char::from_u32(rng.range(0x80, 0x7ff) as u32).unwrap();
            c.to_string().into_bytes()
        }
        2 => {
            let mut v = rng.range(0x800, 0xffff) as u32;
            if (0xd800..0xe000).contains(&v) {
                v = 0x20ac;
            }
            char::from_u32(v).unwrap().to_string().into_bytes()
        }
        3 => {
            let v = rng.range(0x10000, 0x10ffff) as u32;
            char::from_u32(v).unwrap().to_string().into_bytes()
        }
        // encoded surrogates ED A0..BF 80..BF
        4 => vec![0xed, rng.range(0xa0, 0xbf) as u8, rng.range(0x80, 0xbf) as u8],
        // beyond U+10FFFF: F4 90+, F5..F7
        5 => vec![
            rng.range(0xf4, 0xf7) as u8,
            rng.range(0x90, 0xbf) as u8,
            rng.range(0x80, 0xbf) as u8,
            rng.range(0x80, 0xbf) as u8,
        ],
        // overlong
        6 => match rng.below(3) {
            0 => vec![rng.range(0xc0, 0xc1) as u8, rng.range(0x80, 0xbf) as u8],
            1 => vec![0xe0, rng.range(0x80, 0x9f) as u8, rng.range(0x80, 0xbf) as u8],
            _ => vec![0xf0, rng.range(0x80, 0x8f) as u8, rng.range(0x80, 0xbf) as u8, rng.range(0x80, 0xbf) as u8],
        },
        // truncated lead
        7 => vec![*rng.pick(&[0xc3u8, 0xe2, 0xf0, 0xf4, 0xed])],
        8 => vec![rng.range(0xe0, 0xef) as u8, rng.range(0x80, 0xbf) as u8],
        // stray continuation / invalid lead
        9 => vec![rng.range(0x80, 0xbf) as u8],
        10 => vec![rng.range(0xf8, 0xff) as u8],
        _ => vec![rng.range(0xf0, 0xf7) as u8, rng.range(0x80, 0xbf) as u8, rng.range(0x80, 0xbf) as u8, rng.range(0x80, 0xbf) as u8],
    }
}

fn push_str(out: &mut Vec<u8>, s: &str) {
    out.extend_from_slice(s.as_bytes());
}

/// One grammar-aware sequence with hostile parameters (may be malformed on purpose)
pub fn hostile_sequence(rng: &mut Rng) -> Vec<u8> {
    let mut o = Vec::new();
    let n = |rng: &mut Rng| hostile_number(rng);
    match rng.below(22) {
        0 => push_str(&mut o, &format!("\x1b[{};{}R", n(rng), n(rng))),
        1 => push_str(
            &mut o,
            &format!("\x1b[<{};{};{}{}", n(rng), n(rng), n(rng), if rng.bool() { 'M' } else { 'm' }),
        ),
        2 => push_str(&mut o, &format!("\x1b[8;{};{}t\x1b[4;{};{}t", n(rng), n(rng), n(rng), n(rng))),
        3 => push_str(&mut o, &format!("\x1b[?{};{}$y", n(rng), n(rng))),
        4 => {
            push_str(&mut o, "\x1b[?");
            for _ in 0..rng.range(0, 5) {
                push_str(&mut o, &n(rng));
                if rng.chance(3, 4) {
                    o.push(b';');
                }
            }
            o.push(b'c');
        }
        5 => {
            // SGR with arbitrary parameter soup
            push_str(&mut o, "\x1b[");
            for i in 0..rng.range(0, 8) {
                if i > 0 {
                    o.push(if rng.chance(1, 4) { b':' } else { b';' });
                }
                if rng.chance(1, 3) {
                    push_str(&mut o, rng.pick_str(&["38", "48", "58", "2", "5", "4", "0", "1", "21", "22"]));
                } else {
                    push_str(&mut o, &n(rng));
                }
            }
            o.push(b'm');
        }
        6 => {
            let sep = if rng.bool() { ';' } else { ':' };
            let which = rng.pick_str(&["38", "48", "58"]);
            push_str(&mut o, &format!("\x1b[{which}{sep}2{sep}{}{sep}{}{sep}{}", n(rng), n(rng), n(rng)));
            if rng.chance(1, 3) {
                push_str(&mut o, &format!("{sep}{}", n(rng)));
            }
            o.push(b'm');
        }
        7 => push_str(&mut o, &format!("\x1b[{};5;{}m", rng.pick_str(&["38", "48", "58"]), n(rng))),
        8 => {
            push_str(&mut o, "\x1b_G");
            for i in 0..rng.range(0, 4) {
                if i > 0 {
                    o.push(b',');
                }
                push_str(&mut o, rng.pick_str(&["i", "p", "a", "q", "I", "x9"]));
                o.push(b'=');
                push_str(&mut o, &n(rng));
            }
            o.push(b';');
            push_str(&mut o, rng.pick_str(&["OK", "", "ENOENT:some error", "EINVAL\u{fffd}\u{1F431}"]));
            if rng.chance(7, 8) {
                push_str(&mut o, "\x1b\\");
            }
        }
        9 => {
            // kitty keyboard
            push_str(&mut o, "\x1b[");
            if rng.chance(1, 5) {
                o.push(b'?');
            }
            for i in 0..rng.range(0, 4) {
                if i > 0 {
                    o.push(if rng.chance(1, 3) { b':' } else { b';' });
                }
                push_str(&mut o, &n(rng));
            }
            o.push(b'u');
        }
        10 => {
            push_str(&mut o, "\x1b]");
            push_str(&mut o, rng.pick_str(&["4", "10", "11", "12", "0", "52", ""]));
            o.push(b';');
            if rng.bool() {
                push_str(&mut o, &n(rng));
                o.push(b';');
            }
            match rng.below(8) {
                5..=7 => push_str(&mut o, &hostile_color(rng)),
                0 => push_str(&mut o, "rgb:ff/00/7"),
                1 => push_str(&mut o, "rgb:ffff/0000/12345"),
                2 => push_str(&mut o, "#12345"),
                3 => push_str(&mut o, "rgb:zz/1/"),
                _ => push_str(&mut o, "#a0b1c2"),
            }
            match rng.below(4) {
                0 => o.push(7),
                1 => {}
                _ => push_str(&mut o, "\x1b\\"),
            }
        }
        11 => {
            push_str(&mut o, &format!("\x1bP{}$r", rng.pick_str(&["0", "1", "2", ""])));
            for i in 0..rng.range(0, 5) {
                if i > 0 {
                    o.push(if rng.chance(1, 3) { b':' } else { b';' });
                }
                push_str(&mut o, &n(rng));
            }
            push_str(&mut o, rng.pick_str(&["m", "r", "", " q"]));
            if rng.chance(7, 8) {
                push_str(&mut o, "\x1b\\");
            }
        }
        12 => {
            push_str(&mut o, &format!("\x1bP{}+r", rng.pick_str(&["0", "1"])));
            for i in 0..rng.range(0, 3) {
                if i > 0 {
                    o.push(b';');
                }
                for _ in 0..rng.range(0, 5) {
                    push_str(&mut o, rng.pick_str(&["62", "6d", "5e", "1b", "f", "zz", "0"]));
                }
                if rng.bool() {
                    o.push(b'=');
                    for _ in 0..rng.range(0, 4) {
                        push_str(&mut o, rng.pick_str(&["62", "6D", "5e", "1B", "f"]));
                    }
                }
            }
            if rng.chance(7, 8) {
                push_str(&mut o, "\x1b\\");
            }
        }
        13 => {
            push_str(&mut o, "\x1b[200~");
            for _ in 0..rng.range(0, 6) {
                o.extend(hostile_utf8(rng));
            }
            if rng.chance(3, 4) {
                push_str(&mut o, "\x1b[201~");
            }
        }
        14 => {
            // literal keys with odd modifier params
            push_str(&mut o, &format!("\x1b[{};{}{}", n(rng), n(rng), rng.pick_str(&["~", "A", "H", "P", "F"])));
        }
        15 => push_str(&mut o, &format!("\x1b[{}~", n(rng))),
        16 => push_str(&mut o, &format!("\x1b[?{}u", n(rng))),
        17 => o.extend(hostile_utf8(rng)),
        18 => {
            o.push(0x1b);
            o.push(rng.next_u8());
        }
        19 => push_str(&mut o, &format!("\x1b[{}", n(rng))),
        20 => push_str(&mut o, "\x1b[u"),
        _ => {
            for _ in 0..rng.range(1, 5) {
                o.extend(hostile_utf8(rng));
            }
        }
    }
    o
}

/// A run of hex digits of awkward length / content (sign, leading zeros, overflow, non-hex)
pub fn hostile_hex(rng: &mut Rng) -> String {
    let len = match rng.below(8) {
        0 => 0,
        1..=3 => rng.range(1, 4),
        4 => rng.range(5, 9),
        5 => *rng.pick(&[15usize, 16, 17, 18, 19, 20, 31, 32, 33]),
        _ => rng.range(1, 40),
    };
    let mut digits: String = match rng.below(6) {
        0 => "0".repeat(len),
        1 => "f".repeat(len),
        2 => {
            // leading zeros then a short value
            let tail = rng.range(0, 4).min(len);
            let mut d = "0".repeat(len - tail);
            for _ in 0..tail {
                d.push(char::from_digit(rng.below(16) as u32, 16).unwrap());
            }
            d
        }
        _ => (0..len).map(|_| char::from_digit(rng.below(16) as u32, 16).unwrap()).collect(),
    };
    if rng.chance(1, 4) {
        digits = digits.to_uppercase();
    }
    match rng.below(16) {
        0 => format!("+{digits}"),
        1 => format!("-{digits}"),
        2 => format!("{digits}g"),
        3 => format!(" {digits}"),
        _ => digits,
    }
}

/// Colour payload of an OSC 4/10/11 reply in every notation, well formed or not
pub fn hostile_color(rng: &mut Rng) -> String {
    match rng.below(8) {
        0..=3 => {
            let n = match rng.below(8) {
                0 => 2,
                1 => 4,
                _ => 3,
            };
            let parts: Vec<String> = (0..n).map(|_| hostile_hex(rng)).collect();
            format!("{}{}", rng.pick_str(&["rgb:", "rgb:", "rgb:", "rgba:", "rgbi:", "RGB:"]), parts.join("/"))
        }
        4 | 5 => format!("#{}", hostile_hex(rng)),
        6 => rng.pick_str(&["red", "", "#", "rgb:", "rgb://", "rgb:/", "rgb(1,2,3)", "#ggg", "rgb:1/2/3/"]).to_string(),
        _ => format!("rgb:{:x}/{:x}/{:x}", rng.below(65536), rng.below(65536), rng.below(65536)),
    }
}

/// Put zeros in front of one digit run (any numeric field of any sequence becomes 17..40 characters long)
pub fn stretch_digits(rng: &mut Rng, bytes: &mut Vec<u8>) {
    let mut starts = Vec::new();
    for i in 0..bytes.len() {
        if bytes[i].is_ascii_hexdigit() && (i == 0 || !bytes[i - 1].is_ascii_hexdigit()) {
            starts.push(i);
        }
    }
    if starts.is_empty() {
        return;
    }
    let at = *rng.pick(&starts);
    let k = *rng.pick(&[1usize, 3, 14, 15, 16, 17, 18, 19, 20, 36]);
    let fill = if rng.chance(1, 6) { b'9' } else { b'0' };
    for _ in 0..k {
        bytes.insert(at, fill);
    }
}

/// A byte stream mixing the three strategies
pub fn hostile_stream(rng: &mut Rng, max_len: usize) -> Vec<u8> {
    let mut out = Vec::new();
    let style = rng.below(10);
    let target = rng.range(1, max_len.max(1));
    while out.len() < target {
        match style {
            0 | 1 => out.push(rng.next_u8()),
            2..=4 => out.extend_from_slice(FRAGMENTS[rng.below(FRAGMENTS.len())]),
            5..=7 => out.extend(hostile_sequence(rng)),
            _ => match rng.below(3) {
                0 => out.push(rng.next_u8()),
                1 => out.extend_from_slice(FRAGMENTS[rng.below(FRAGMENTS.len())]),
                _ => out.extend(hostile_sequence(rng)),
            },
        }
    }
    if out.len() > max_len.max(8) * 2 {
        out.truncate(max_len.max(8) * 2);
    }
    if rng.chance(1, 8) {
        stretch_digits(rng, &mut out);
    }
    out
}

pub fn hex(bytes: &[u8]) -> String {
    bytes.iter().map(|b| format!("{b:02x}")).collect()
}

pub fn esc(bytes: &[u8]) -> String {
    let mut s = String::new();
    for b in bytes.iter().take(160) {
        match b {
            0x1b => s.push_str("\\e"),
            0x20..=0x7e => s.push(*b as char),
            _ => s.push_str(&format!("\\x{b:02x}")),
        }
    }
    if bytes.len() > 160 {
        s.push_str("...");
    }
    s
}
