//! C18 — key-chord maps behave as a last-writer-wins, prefix-free dictionary of chords;
//! the stateful matcher fires bound chords typed from idle (also right after one unbound
//! key); key / chord parsers are total and print-parse stable.
//!
//! Oracle = dictionary model (ordered list of (chord, value)); nothing of `KeyMap` is used
//! to compute an expectation. Only what the property states is demanded:
//!   * `lookup` on non-empty chords: Success(latest value) iff bound, Continue iff proper
//!     prefix of a bound chord, Failure otherwise
//!   * `for_each` lists exactly the bound chords (each once) with their values
//!   * `register_override(other)` == registering `other`'s bound chords
//!   * `lookup_state` / `KeyMapHandler::handle`: (A) a bound chord typed from an idle matcher
//!     yields None on all but its last key and the value on the last key, (B) the same when
//!     exactly one key that begins no bound chord was typed from idle just before it
//!   * `Key`, `KeyChord`, `KeyName` `from_str`: never panic; `Ok(v)` ⇒ `v.to_string()`
//!     parses back to `v`
//! Not looked at: return value of `register`, order of `for_each`, the matcher's answer to
//! the unbound key itself, the matcher after failures in the middle of a chord, registration
//! of the empty chord (executed on a clone for totality only: the library ignores it, the
//! property's lookups are over non-empty chords).
use crate::core::{shrink_vec, Ctx, Fail, Prop, Tier};
use crate::rng::Rng;
use crate::{ensure, fail};
use serde::{Deserialize, Serialize};
use surf_n_term::keys::{Key, KeyChord, KeyMap, KeyMapHandler, KeyMapResult, KeyMod, KeyName};

pub struct C18;

/// chord = indices into `pool()`
type Chord = Vec<u8>;

#[derive(Clone, Debug, Serialize, Deserialize)]
pub enum Op {
    Register {
        chord: Chord,
        value: u32,
    },
    /// build another map from `other` (a registration history) and `register_override` it
    Override {
        other: Vec<(Chord, u32)>,
    },
    /// `register(&[], value)` on a clone — totality only
    RegisterEmpty {
        value: u32,
    },
}

#[derive(Clone, Debug, Serialize, Deserialize)]
pub struct Segment {
    /// Some(n): first type the n-th (mod count) pool key that begins no bound chord
    pub unbound: Option<u8>,
    /// Some((c, l)): before the unbound key, type the first l keys (a proper prefix) of bound
    /// chord c, so the unbound key arrives while a chord is pending (clause B2)
    #[serde(default)]
    pub pending: Option<(u16, u8)>,
    /// which bound chord to type (mod number of bound chords)
    pub chord: u16,
}

#[derive(Clone, Debug, Serialize, Deserialize)]
pub enum Case {
    Map {
        ops: Vec<Op>,
        /// extra lookup chords (non-empty)
        probes: Vec<Chord>,
        /// typing script for the stateful matcher, run on the final map
        script: Vec<Segment>,
    },
    Parse {
        text: String,
    },
}

/// Fixed key pool, built without going through the parsers
fn pool() -> [Key; POOL] {
    use KeyName::*;
    [
        Key::new(Char('a'), KeyMod::EMPTY),
        Key::new(Char('b'), KeyMod::EMPTY),
        Key::new(Char('a'), KeyMod::CTRL),
        Key::new(Char('x'), KeyMod::CTRL),
        Key::new(Char('a'), KeyMod::ALT),
        Key::new(F(1), KeyMod::EMPTY),
        Key::new(Enter, KeyMod::EMPTY),
        Key::new(Up, KeyMod::SHIFT),
        Key::new(Char(' '), KeyMod::EMPTY),
        Key::new(Esc, KeyMod::EMPTY),
        Key::new(Char('b'), KeyMod::CTRL | KeyMod::ALT),
        Key::new(MouseLeft, KeyMod::PRESS),
        // keys that differ from the ones above only in the modifier bits terminals rarely send
        Key::new(Char('a'), KeyMod::CAPSLOCK),
        Key::new(Char('a'), KeyMod::NUMLOCK),
        Key::new(Char('a'), KeyMod::SUPER),
        Key::new(Char('b'), KeyMod::HYPER | KeyMod::META),
        Key::new(Enter, KeyMod::CAPSLOCK | KeyMod::NUMLOCK),
        Key::new(MouseLeft, KeyMod::EMPTY),
        // upper-case twins of keys above (the decoders do produce them)
        Key::new(Char('A'), KeyMod::EMPTY),
        Key::new(Char('X'), KeyMod::CTRL),
    ]
}
const POOL: usize = 20;

fn keys_of(chord: &[u8], pool: &[Key; POOL]) -> Vec<Key> {
    chord.iter().map(|k| pool[*k as usize % POOL]).collect()
}

fn norm(chord: &[u8]) -> Chord {
    chord.iter().map(|k| k % POOL as u8).collect()
}

// ---------------------------------------------------------------------------
// dictionary model

#[derive(Clone, Default, Debug)]
struct Model {
    bound: Vec<(Chord, u32)>,
}

fn is_prefix(short: &[u8], long: &[u8]) -> bool {
    short.len() <= long.len() && &long[..short.len()] == short
}

#[derive(Debug, PartialEq, Eq, Clone, Copy)]
enum Expect {
    Success(u32),
    Continue,
    Failure,
}

impl Model {
    fn register(&mut self, chord: &[u8], value: u32) {
        // supersede: equal chord, proper prefixes of it, extensions of it
        self.bound
            .retain(|(c, _)| !(is_prefix(c, chord) || is_prefix(chord, c)));
        self.bound.push((chord.to_vec(), value));
    }

    fn lookup(&self, chord: &[u8]) -> Expect {
        if let Some((_, v)) = self.bound.iter().find(|(c, _)| c.as_slice() == chord) {
            return Expect::Success(*v);
        }
        if self
            .bound
            .iter()
            .any(|(c, _)| c.len() > chord.len() && is_prefix(chord, c))
        {
            return Expect::Continue;
        }
        Expect::Failure
    }

    fn begins_some(&self, key: u8) -> bool {
        self.bound.iter().any(|(c, _)| c[0] == key)
    }
}

// ---------------------------------------------------------------------------

fn show(chord: &[u8], pool: &[Key; POOL]) -> String {
    keys_of(chord, pool)
        .iter()
        .map(|k| format!("{:?}", k))
        .collect::<Vec<_>>()
        .join(" ")
}

fn check_lookup(
    map: &KeyMap<u32>,
    model: &Model,
    chord: &[u8],
    pool: &[Key; POOL],
    kind: &str,
    ctx: &mut Ctx,
) -> Result<(), Fail> {
    debug_assert!(!chord.is_empty());
    let keys = keys_of(chord, pool);
    let got = match map.lookup(&keys) {
        KeyMapResult::Success(v) => Expect::Success(*v),
        KeyMapResult::Continue => Expect::Continue,
        KeyMapResult::Failure => Expect::Failure,
    };
    let want = model.lookup(chord);
    if got != want {
        let sig = match (want, got) {
            (Expect::Success(_), Expect::Success(_)) => "lookup:stale-value",
            (Expect::Success(_), _) => "lookup:bound-not-success",
            (Expect::Continue, _) => "lookup:prefix-not-continue",
            (Expect::Failure, Expect::Success(_)) => "lookup:unbound-success",
            (Expect::Failure, _) => "lookup:unbound-not-failure",
        };
        fail!(
            sig,
            "lookup({}) [{kind}] returned {:?}, dictionary model says {:?}; bound = {:?}",
            show(chord, pool),
            got,
            want,
            model
                .bound
                .iter()
                .map(|(c, v)| (show(c, pool), *v))
                .collect::<Vec<_>>()
        );
    }
    match want {
        Expect::Success(_) => ctx.feat("lookup.success"),
        Expect::Continue => ctx.feat("lookup.continue"),
        Expect::Failure => ctx.feat("lookup.failure"),
    }
    Ok(())
}

fn enumerate(map: &KeyMap<u32>, pool: &[Key; POOL]) -> Result<Vec<(Chord, u32)>, Fail> {
    let mut out = Vec::new();
    let mut foreign = None;
    map.for_each(|chord, value| {
        let mut idx = Vec::new();
        for key in chord {
            match pool.iter().position(|k| k == key) {
                Some(p) => idx.push(p as u8),
                None => foreign = Some(format!("{:?}", chord)),
            }
        }
        out.push((idx, *value));
    });
    if let Some(chord) = foreign {
        fail!(
            "for_each:unknown-key",
            "for_each listed chord {chord} with a key that was never registered"
        );
    }
    Ok(out)
}

fn check_state(
    map: &KeyMap<u32>,
    model: &Model,
    probes: &[Chord],
    pool: &[Key; POOL],
    ctx: &mut Ctx,
) -> Result<(), Fail> {
    // enumeration lists exactly the bound chords, each once, with the latest value
    let mut listed = enumerate(map, pool)?;
    listed.sort();
    let mut want = model.bound.clone();
    want.sort();
    ensure!(
        listed == want,
        "for_each:mismatch",
        "for_each listed {:?}, dictionary model has {:?}",
        listed
            .iter()
            .map(|(c, v)| (show(c, pool), *v))
            .collect::<Vec<_>>(),
        want.iter()
            .map(|(c, v)| (show(c, pool), *v))
            .collect::<Vec<_>>()
    );
    ctx.feat_n("for_each.chords", want.len() as u64);

    for (chord, _) in model.bound.iter() {
        check_lookup(map, model, chord, pool, "bound", ctx)?;
        for cut in 1..chord.len() {
            check_lookup(map, model, &chord[..cut], pool, "proper prefix", ctx)?;
        }
        // one-key extensions (every pool key)
        if chord.len() < 6 {
            let mut longer = chord.clone();
            longer.push(0);
            for key in 0..POOL as u8 {
                *longer.last_mut().unwrap() = key;
                check_lookup(map, model, &longer, pool, "extension", ctx)?;
            }
        }
    }
    for probe in probes {
        if probe.is_empty() {
            continue;
        }
        check_lookup(map, model, &norm(probe), pool, "probe", ctx)?;
    }
    Ok(())
}

/// type `keys` into a matcher; expects None on all but last, Some(value) on last
fn type_chord(
    mut feed: impl FnMut(Key) -> Option<u32>,
    chord: &[u8],
    value: u32,
    pool: &[Key; POOL],
    clause: &str,
    api: &str,
    context: &str,
) -> Result<(), Fail> {
    for (index, key) in chord.iter().enumerate() {
        let got = feed(pool[*key as usize]);
        let last = index + 1 == chord.len();
        match (last, got) {
            (false, None) => {}
            (false, Some(v)) => fail!(
                format!("state:{clause}:fired-before-last-key"),
                "{api}: typing bound chord [{}] {context}: key #{index} already returned Some({v})",
                show(chord, pool)
            ),
            (true, Some(v)) if v == value => {}
            (true, Some(v)) => fail!(
                format!("state:{clause}:wrong-value"),
                "{api}: typing bound chord [{}] {context}: fired {v}, bound value is {value}",
                show(chord, pool)
            ),
            (true, None) => fail!(
                format!("state:{clause}:did-not-fire"),
                "{api}: typing bound chord [{}] {context}: last key returned None",
                show(chord, pool)
            ),
        }
    }
    Ok(())
}

fn check_matcher(
    map: &KeyMap<u32>,
    handler: &mut KeyMapHandler<u32>,
    model: &Model,
    script: &[Segment],
    pool: &[Key; POOL],
    ctx: &mut Ctx,
) -> Result<(), Fail> {
    if model.bound.is_empty() || script.is_empty() {
        return Ok(());
    }
    let unbound: Vec<u8> = (0..POOL as u8).filter(|k| !model.begins_some(*k)).collect();
    // both matchers start idle (fresh state vector / fresh handler) and are idle again after
    // every fired chord
    let mut state: Vec<Key> = Vec::new();
    for segment in script {
        let (chord, value) = &model.bound[segment.chord as usize % model.bound.len()];
        let mut clause = "A";
        let mut context = "from idle".to_string();
        // Now and then the handler is cleared while keys of a longer chord are pending and the same
        // bindings are registered again: a cleared handler is an idle handler.
        if segment.chord % 4 == 3 {
            if let Some((c, l)) = segment.pending {
                let (longer, _) = &model.bound[c as usize % model.bound.len()];
                if longer.len() >= 2 {
                    let l = 1 + (l as usize % (longer.len() - 1));
                    for k in &longer[..l] {
                        let _ = handler.handle(pool[*k as usize]);
                    }
                    ctx.feat("matcher.handler-cleared-with-pending-keys");
                }
            }
            handler.clear();
            for (bound, v) in model.bound.iter() {
                handler.register(&keys_of(bound, pool), *v);
            }
            state.clear();
            context = "from idle (handler cleared and bindings registered again)".to_string();
            ctx.feat("matcher.handler-cleared");
        }
        if let Some(sel) = segment.unbound {
            if unbound.is_empty() {
                ctx.feat("matcher.no-unbound-key-available");
            } else {
                let key = unbound[sel as usize % unbound.len()];
                clause = "B";
                context = format!("right after the unbound key {:?}", pool[key as usize]);
                // B2: the unbound key arrives while a proper prefix of a bound chord is pending and
                // the pending keys + the unbound key match nothing in the dictionary
                if let Some((c, l)) = segment.pending {
                    let (longer, _) = &model.bound[c as usize % model.bound.len()];
                    if longer.len() >= 2 {
                        let l = 1 + (l as usize % (longer.len() - 1));
                        let mut seq = longer[..l].to_vec();
                        seq.push(key);
                        if model.lookup(&seq) == Expect::Failure {
                            for k in &longer[..l] {
                                // answers while the chord is pending are not judged here
                                let _ = map.lookup_state(&mut state, pool[*k as usize]);
                                let _ = handler.handle(pool[*k as usize]);
                            }
                            clause = "B2";
                            context = format!(
                                "right after the unbound key {:?} that interrupted the pending keys [{}]",
                                pool[key as usize],
                                show(&longer[..l], pool)
                            );
                        }
                    }
                }
                // what the matcher answers to the unbound key itself is not stated
                let _ = map.lookup_state(&mut state, pool[key as usize]);
                let _ = handler.handle(pool[key as usize]);
            }
        }
        type_chord(
            |key| map.lookup_state(&mut state, key).copied(),
            chord,
            *value,
            pool,
            clause,
            "KeyMap::lookup_state",
            &context,
        )?;
        type_chord(
            |key| handler.handle(key).copied(),
            chord,
            *value,
            pool,
            clause,
            "KeyMapHandler::handle",
            &context,
        )?;
        ctx.feat(match clause {
            "A" => "matcher.A.chord-from-idle",
            "B" => "matcher.B.chord-after-unbound-key",
            _ => "matcher.B2.chord-after-unbound-key-interrupting-pending-chord",
        });
        ctx.feat_if(chord.len() > 1, "matcher.multi-key-chord");
    }
    Ok(())
}

fn check_map(ops: &[Op], probes: &[Chord], script: &[Segment], ctx: &mut Ctx) -> Result<(), Fail> {
    let pool = pool();
    let mut map: KeyMap<u32> = KeyMap::new();
    let mut handler: KeyMapHandler<u32> = KeyMapHandler::new();
    let mut model = Model::default();
    for op in ops {
        match op {
            Op::Register { chord, value } => {
                if chord.is_empty() {
                    continue;
                }
                let chord = norm(chord);
                let before = model.bound.len();
                let had_prefix = model
                    .bound
                    .iter()
                    .any(|(c, _)| c.len() < chord.len() && is_prefix(c, &chord));
                let had_ext = model
                    .bound
                    .iter()
                    .any(|(c, _)| c.len() > chord.len() && is_prefix(&chord, c));
                let had_same = model.bound.iter().any(|(c, _)| *c == chord);
                let keys = keys_of(&chord, &pool);
                // alternate between the slice and the KeyChord entry points
                if value % 2 == 0 {
                    map.register(&keys, *value);
                } else {
                    map.register(KeyChord::new(keys.clone()), *value);
                }
                handler.register(&keys, *value);
                model.register(&chord, *value);
                ctx.feat("register");
                ctx.feat_if(had_prefix, "register.supersedes-prefix");
                ctx.feat_if(had_ext, "register.supersedes-extensions");
                ctx.feat_if(had_same, "register.re-register");
                ctx.feat_if(model.bound.len() + 1 < before, "register.supersedes-many");
            }
            Op::Override { other } => {
                let mut other_map: KeyMap<u32> = KeyMap::new();
                let mut other_model = Model::default();
                for (chord, value) in other {
                    if chord.is_empty() {
                        continue;
                    }
                    let chord = norm(chord);
                    other_map.register(keys_of(&chord, &pool), *value);
                    other_model.register(&chord, *value);
                }
                check_state(&other_map, &other_model, &[], &pool, ctx)?;
                map.register_override(&other_map);
                for (chord, value) in other_model.bound.iter() {
                    model.register(chord, *value);
                    handler.register(&keys_of(chord, &pool), *value);
                }
                // the merged-in map must be left untouched
                check_state(&other_map, &other_model, &[], &pool, ctx).map_err(|f| {
                    Fail::new(format!("override:modified-source:{}", f.sig), f.what)
                })?;
                ctx.feat("register_override");
            }
            Op::RegisterEmpty { value } => {
                let mut copy = map.clone();
                let empty: [Key; 0] = [];
                let _ = copy.register(empty, *value);
                let _ = copy.lookup(&[pool[0]]);
                copy.for_each(|_, _| {});
                ctx.feat("register.empty-chord(totality only)");
                continue;
            }
        }
        check_state(&map, &model, probes, &pool, ctx).map_err(|f| match op {
            Op::Override { .. } => Fail::new(format!("override:{}", f.sig), f.what),
            _ => f,
        })?;
    }
    check_matcher(&map, &mut handler, &model, script, &pool, ctx)
}

// ---------------------------------------------------------------------------
// parsers

fn check_parse(text: &str, ctx: &mut Ctx) -> Result<(), Fail> {
    let clip = |s: &str| -> String {
        let mut out: String = s.chars().take(60).collect();
        if s.chars().count() > 60 {
            out.push('…');
        }
        out
    };
    if let Ok(key) = text.parse::<Key>() {
        let printed = key.to_string();
        match printed.parse::<Key>() {
            Ok(back) if back == key => {}
            other => fail!(
                "parse:roundtrip:Key",
                "{:?} parsed to Key {:?}, printed as {:?}, which parses to {:?}",
                clip(text),
                key,
                printed,
                other.map_err(|e| e.to_string())
            ),
        }
        ctx.feat("parse.key.ok");
    } else {
        ctx.feat("parse.key.err");
    }
    if let Ok(chord) = text.parse::<KeyChord>() {
        let printed = chord.to_string();
        match printed.parse::<KeyChord>() {
            Ok(back) if back == chord => {}
            other => fail!(
                "parse:roundtrip:KeyChord",
                "{:?} parsed to KeyChord {:?}, printed as {:?}, which parses to {:?}",
                clip(text),
                chord,
                printed,
                other.map_err(|e| e.to_string())
            ),
        }
        ensure!(
            !chord.keys().is_empty(),
            "parse:empty-chord",
            "{:?} parsed to a chord without keys",
            clip(text)
        );
        ctx.feat("parse.chord.ok");
        ctx.feat_if(chord.keys().len() > 1, "parse.chord.multi-key");
    } else {
        ctx.feat("parse.chord.err");
    }
    if let Ok(name) = text.parse::<KeyName>() {
        let printed = name.to_string();
        match printed.parse::<KeyName>() {
            Ok(back) if back == name => {}
            other => fail!(
                "parse:roundtrip:KeyName",
                "{:?} parsed to KeyName {:?}, printed as {:?}, which parses to {:?}",
                clip(text),
                name,
                printed,
                other.map_err(|e| e.to_string())
            ),
        }
        ctx.feat("parse.name.ok");
    } else {
        ctx.feat("parse.name.err");
    }
    Ok(())
}

// the last ones are not modifier names of the unchanged tree (parse errors there); whatever a tree
// accepts has to survive printing and re-parsing
const MODS: [&str; 13] = [
    "alt", "ctrl", "shift", "press", "super", "hyper", "meta", "capslock", "numlock", "control", "cmd", "win", "lock",
];
const NAMES: [&str; 40] = [
    "left",
    "up",
    "right",
    "down",
    "pageup",
    "pagedown",
    "end",
    "home",
    "tab",
    "enter",
    "escape",
    "esc",
    "space",
    "backspace",
    "delete",
    "insert",
    "f1",
    "f12",
    "f0",
    "f007",
    "a",
    "z",
    "0",
    "9",
    "`",
    "-",
    "=",
    "[",
    "]",
    "\\",
    ";",
    ",",
    ".",
    "/",
    "f",
    "x",
    "mouseleft",
    "numlock",
    "f18446744073709551615",
    "f18446744073709551616",
];
/// characters that are interesting to splice into near-valid strings
const SPLICE: [&str; 40] = [
    "+",
    "+",
    "++",
    " ",
    "  ",
    "f",
    "F",
    "0",
    "9",
    "1",
    "\u{ff19}",
    "\u{0663}",
    "\u{0130}",
    "\u{212a}",
    "\u{017f}",
    "\u{00df}",
    "\u{00e9}",
    "\u{0}",
    "\"",
    "\t",
    "\n",
    "\u{ff26}",
    "\u{ff46}",
    "\u{1d7d7}",
    "\u{fb00}",
    "\u{1e9e}",
    "A",
    "Z",
    "\u{3a3}",
    "\u{2126}",
    "\u{212b}",
    "'",
    "-",
    "=",
    "\u{200b}",
    "\u{feff}",
    "\u{10ffff}",
    "\u{1f600}",
    "\u{7f}",
    "\u{a0}",
];

fn random_case(rng: &mut Rng, text: &str) -> String {
    match rng.below(4) {
        0 => text.to_uppercase(),
        1 => text
            .chars()
            .map(|c| {
                if rng.bool() {
                    c.to_uppercase().next().unwrap_or(c)
                } else {
                    c
                }
            })
            .collect(),
        _ => text.to_string(),
    }
}

fn gen_key_text(rng: &mut Rng) -> String {
    let mut parts: Vec<String> = Vec::new();
    for _ in 0..rng.below(4) {
        let name = MODS[rng.below(MODS.len())];
        parts.push(random_case(rng, name));
    }
    let name = match rng.below(10) {
        0 => format!("f{}", "9".repeat(rng.range(1, 45))),
        1 => format!("f{}", rng.next_u64()),
        2 => format!("F{}{}", rng.below(30), "0".repeat(rng.below(3))),
        3 => format!("f{}", "0".repeat(rng.range(1, 30))),
        _ => NAMES[rng.below(NAMES.len())].to_string(),
    };
    let pos = rng.range(0, parts.len());
    parts.insert(pos, random_case(rng, &name));
    parts.join("+")
}

fn random_char(rng: &mut Rng) -> char {
    loop {
        let code = match rng.below(8) {
            0 => rng.below(0x80) as u32,
            1 => rng.below(0x800) as u32,
            2 => rng.below(0x10000) as u32,
            3 => rng.below(0x110000) as u32,
            4 => 0x20 + rng.below(0x5f) as u32,
            5 => 0xff00 + rng.below(0x60) as u32, // full-width forms
            6 => 0x0100 + rng.below(0x180) as u32, // latin extended (special case mappings)
            _ => 0x2100 + rng.below(0x50) as u32, // letter-like symbols (Kelvin, Angstrom)
        };
        if let Some(c) = char::from_u32(code) {
            return c;
        }
    }
}

fn mutate_text(rng: &mut Rng, text: &str) -> String {
    let mut chars: Vec<char> = text.chars().collect();
    for _ in 0..rng.range(1, 3) {
        let pos = rng.range(0, chars.len());
        match rng.below(6) {
            0 if !chars.is_empty() => {
                chars.remove(pos.min(chars.len() - 1));
            }
            1 => {
                let c = random_char(rng);
                chars.insert(pos, c)
            }
            2 if !chars.is_empty() => {
                let p = pos.min(chars.len() - 1);
                chars[p] = random_char(rng);
            }
            3 if !chars.is_empty() => {
                // duplicate a character (repeated '+', doubled digits …)
                let p = pos.min(chars.len() - 1);
                let c = chars[p];
                chars.insert(p, c);
            }
            _ => {
                let splice = SPLICE[rng.below(SPLICE.len())];
                for (offset, c) in splice.chars().enumerate() {
                    chars.insert(pos + offset, c);
                }
            }
        }
    }
    chars.into_iter().collect()
}

fn gen_text(rng: &mut Rng, tier: Tier) -> String {
    match rng.below(12) {
        // valid key / chord strings
        0 | 1 => gen_key_text(rng),
        2 => (0..rng.range(1, 4))
            .map(|_| gen_key_text(rng))
            .collect::<Vec<_>>()
            .join(if rng.chance(1, 5) { "  " } else { " " }),
        // near-valid mutants
        3..=6 => {
            let base = if rng.bool() {
                gen_key_text(rng)
            } else {
                (0..rng.range(1, 3))
                    .map(|_| gen_key_text(rng))
                    .collect::<Vec<_>>()
                    .join(" ")
            };
            mutate_text(rng, &base)
        }
        // "f"/"F"/multi-byte first character followed by digit-like characters
        7 => {
            let first = *rng.pick(&[
                "f", "F", "\u{ff46}", "\u{ff26}", "\u{fb00}", "\u{0192}", "\u{0191}", "\u{1e1f}",
                "\u{1e1e}", "\u{a798}", "\u{212a}", "\u{0130}", "",
            ]);
            let digits: String = (0..rng.range(0, 30))
                .map(|_| match rng.below(12) {
                    0 => '\u{0663}',
                    1 => '\u{ff19}',
                    2 => '\u{1d7d7}',
                    3 => '+',
                    _ => (b'0' + rng.below(10) as u8) as char,
                })
                .collect();
            format!("{first}{digits}")
        }
        // structural noise: separators only, empty segments
        8 => (0..rng.range(0, 8))
            .map(|_| *rng.pick(&["+", " ", "ctrl", "a", "", "f1", "+", "\t"]))
            .collect(),
        // very long strings
        9 => {
            let unit = match rng.below(4) {
                0 => "ctrl+".to_string(),
                1 => "a ".to_string(),
                2 => "9".to_string(),
                _ => random_char(rng).to_string(),
            };
            let n = rng.range(1, if tier.quick() { 2_000 } else { 20_000 });
            let mut s = if rng.bool() {
                "f".to_string()
            } else {
                String::new()
            };
            s.push_str(&unit.repeat(n));
            if rng.bool() {
                s.push('a');
            }
            s
        }
        // arbitrary unicode
        _ => (0..rng.range(0, 12)).map(|_| random_char(rng)).collect(),
    }
}

// ---------------------------------------------------------------------------

fn gen_chord(rng: &mut Rng, alphabet: &[u8], history: &[Chord]) -> Chord {
    if !history.is_empty() && rng.chance(2, 5) {
        // derive from an earlier chord: same, proper prefix, extension, sibling
        let base = history[rng.below(history.len())].clone();
        let mut chord = base;
        match rng.below(5) {
            0 => {}
            1 if chord.len() > 1 => {
                let keep = rng.range(1, chord.len() - 1);
                chord.truncate(keep);
            }
            2 | 3 if chord.len() < 4 => {
                for _ in 0..rng.range(1, 4 - chord.len()) {
                    chord.push(*rng.pick(alphabet));
                }
            }
            _ => {
                let last = chord.len() - 1;
                chord[last] = *rng.pick(alphabet);
            }
        }
        return chord;
    }
    let len = match rng.below(20) {
        0..=5 => 1,
        6..=12 => 2,
        13..=17 => 3,
        _ => 4,
    };
    (0..len).map(|_| *rng.pick(alphabet)).collect()
}

impl Prop for C18 {
    type Case = Case;
    const ID: &'static str = "C18";

    fn default_cases(tier: Tier, flavour: &str) -> u64 {
        match (tier, flavour) {
            (_, "miri") | (_, "miri-sb") => tier.pick(300, 3_000),
            (Tier::Quick, _) => 400_000,
            (Tier::Thorough, "asan") => 2_000_000,
            (Tier::Thorough, _) => 40_000_000,
        }
    }

    fn gen(rng: &mut Rng, tier: Tier, _index: u64) -> Case {
        // 1 history : 3 parser strings (drawn from the rng: index residues are fixed per shard)
        if rng.below(4) != 0 {
            return Case::Parse {
                text: gen_text(rng, tier),
            };
        }
        // alphabet of 4–6 of the 12 pool keys
        let mut all: Vec<u8> = (0..POOL as u8).collect();
        rng.shuffle(&mut all);
        let alphabet = &all[..rng.range(4, 6)];
        let max_ops = if cfg!(miri) { 12 } else { 40 };
        let count = match rng.below(4) {
            0 => rng.range(1, 5),
            1 => rng.range(1, 15),
            _ => rng.range(1, max_ops),
        };
        let mut history: Vec<Chord> = Vec::new();
        let mut next_value = 1u32;
        let mut ops = Vec::new();
        for _ in 0..count {
            let op = match rng.below(20) {
                0 | 1 => {
                    let mut other_hist: Vec<Chord> = Vec::new();
                    let other = (0..rng.range(1, 8))
                        .map(|_| {
                            let chord = if rng.bool() {
                                gen_chord(rng, alphabet, &history)
                            } else {
                                gen_chord(rng, alphabet, &other_hist)
                            };
                            other_hist.push(chord.clone());
                            next_value += 1;
                            (chord, next_value)
                        })
                        .collect();
                    history.extend(other_hist);
                    Op::Override { other }
                }
                2 if rng.chance(1, 4) => {
                    next_value += 1;
                    Op::RegisterEmpty { value: next_value }
                }
                _ => {
                    let chord = gen_chord(rng, alphabet, &history);
                    history.push(chord.clone());
                    next_value += 1;
                    Op::Register {
                        chord,
                        value: next_value,
                    }
                }
            };
            ops.push(op);
        }
        let foreign = all[alphabet.len()..].to_vec();
        let probes = (0..rng.range(2, 10))
            .map(|_| {
                let mut chord = gen_chord(rng, alphabet, &history);
                if rng.chance(1, 6) {
                    let pos = rng.below(chord.len());
                    chord[pos] = *rng.pick(&foreign);
                }
                if rng.chance(1, 6) {
                    chord.push(*rng.pick(alphabet));
                }
                chord
            })
            .collect();
        let script = (0..rng.range(1, 8))
            .map(|_| Segment {
                unbound: if rng.bool() {
                    Some(rng.next_u8())
                } else {
                    None
                },
                pending: if rng.bool() {
                    Some((rng.next_u32() as u16, rng.next_u8()))
                } else {
                    None
                },
                chord: rng.next_u32() as u16,
            })
            .collect();
        Case::Map {
            ops,
            probes,
            script,
        }
    }

    fn check(case: &Case, ctx: &mut Ctx) -> Result<(), Fail> {
        match case {
            Case::Map {
                ops,
                probes,
                script,
            } => check_map(ops, probes, script, ctx),
            Case::Parse { text } => check_parse(text, ctx),
        }
    }

    fn nontrivial(case: &Case) -> bool {
        match case {
            Case::Map { ops, .. } => ops.len() > 1,
            Case::Parse { text } => !text.is_empty(),
        }
    }

    fn case_hash(case: &Case) -> u64 {
        match case {
            Case::Parse { text } => crate::core::fnv(text.as_bytes()),
            _ => {
                let text = serde_json::to_vec(case).unwrap_or_default();
                crate::core::fnv(&text)
            }
        }
    }

    fn shrink(case: &Case) -> Vec<Case> {
        let mut out = Vec::new();
        match case {
            Case::Map {
                ops,
                probes,
                script,
            } => {
                for ops in shrink_vec(ops) {
                    out.push(Case::Map {
                        ops,
                        probes: probes.clone(),
                        script: script.clone(),
                    });
                }
                if !probes.is_empty() {
                    out.push(Case::Map {
                        ops: ops.clone(),
                        probes: Vec::new(),
                        script: script.clone(),
                    });
                }
                for script in shrink_vec(script) {
                    out.push(Case::Map {
                        ops: ops.clone(),
                        probes: probes.clone(),
                        script,
                    });
                }
                // turn overrides into plain registrations, shorten chords
                for (index, op) in ops.iter().enumerate() {
                    match op {
                        Op::Override { other } if other.len() > 1 => {
                            for other in shrink_vec(other) {
                                let mut ops = ops.clone();
                                ops[index] = Op::Override { other };
                                out.push(Case::Map {
                                    ops,
                                    probes: probes.clone(),
                                    script: script.clone(),
                                });
                            }
                        }
                        Op::Register { chord, value } if chord.len() > 1 => {
                            let mut ops = ops.clone();
                            ops[index] = Op::Register {
                                chord: chord[..chord.len() - 1].to_vec(),
                                value: *value,
                            };
                            out.push(Case::Map {
                                ops,
                                probes: probes.clone(),
                                script: script.clone(),
                            });
                        }
                        _ => {}
                    }
                }
            }
            Case::Parse { text } => {
                let chars: Vec<char> = text.chars().collect();
                for chars in shrink_vec(&chars) {
                    out.push(Case::Parse {
                        text: chars.into_iter().collect(),
                    });
                }
                // suffixes / prefixes (a chord parser stops at the first bad key)
                for cut in [' ', '+'] {
                    if let Some(pos) = text.find(cut) {
                        out.push(Case::Parse {
                            text: text[pos + 1..].to_string(),
                        });
                    }
                    if let Some(pos) = text.rfind(cut) {
                        out.push(Case::Parse {
                            text: text[..pos].to_string(),
                        });
                    }
                }
            }
        }
        out
    }

    fn rule() -> &'static str {
        "case = registration history (register / register_override / empty chord) over 4-6 keys of a 12-key pool with chords of 1-4 keys, unique values, plus probe chords and a typing script for the stateful matcher; or one parser input string. non-trivial = history with more than one operation / non-empty string; distinct = hash of the whole case"
    }

    fn sample(case: &Case) -> serde_json::Value {
        let pool = pool();
        match case {
            Case::Map {
                ops,
                probes,
                script,
            } => serde_json::json!({
                "ops": ops.iter().take(8).map(|op| match op {
                    Op::Register { chord, value } => format!("register [{}] = {}", show(chord, &pool), value),
                    Op::Override { other } => format!("override with {} registrations", other.len()),
                    Op::RegisterEmpty { .. } => "register [] (totality)".to_string(),
                }).collect::<Vec<_>>(),
                "ops_total": ops.len(),
                "probes": probes.len(),
                "script_segments": script.len(),
            }),
            Case::Parse { text } => serde_json::json!({
                "parse": text.chars().take(40).collect::<String>(),
                "chars": text.chars().count(),
            }),
        }
    }
}
