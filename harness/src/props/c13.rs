//! C13 — colour quantisation: bounded palette, valid indices, exact nearest-colour search
//!
//! Brute force is the oracle. Two kinds of cases:
//!  * `Quantize`: `Image::quantize(requested, dither, bg)` on a generated image. Checked:
//!    a non-empty image yields `Some`; 1 <= palette size <= max(requested, 8); the index image
//!    has the image's size and every entry < palette size; without dithering every pixel
//!    (composited over the background when alpha < 255) is mapped to a palette colour at
//!    minimal squared RGB distance (distances are compared, ties are fine); if the distinct
//!    composited colours number <= requested and the image is not subsampled
//!    (h*w / (requested*100) < 2, the rule of `ColorPalette::from_image`) then
//!    palette[index] == pixel for every pixel, with and without dithering.
//!  * `Lookup`: `ColorPalette::new(colours).find(q)` for palettes of 1..=512 colours with
//!    duplicates and tight clusters; queries = every palette colour +-1 per channel plus
//!    random colours; the returned entry must be at minimal distance and index/colour agree.
//!
//! Trusted: `RGBA::blend_over` from the `rasterize` crate supplies the composited colour of
//! pixels with alpha < 255 (opaque images do not depend on it). `bg = None` is mirrored from
//! the unchanged tree as opaque black.
use crate::core::{fnv, Ctx, Fail, Prop, Tier};
use crate::rng::Rng;
use crate::{ensure, fail};
use serde::{Deserialize, Serialize};
use std::collections::BTreeSet;
use surf_n_term::image::{KDTree, OcTree};
use surf_n_term::{Color, ColorPalette, Image, Size, Surface, SurfaceOwned, RGBA};

pub struct C13;

#[derive(Clone, Debug, Serialize, Deserialize)]
pub enum Case {
    Quantize {
        w: usize,
        h: usize,
        /// 0xRRGGBBAA
        px: Vec<u32>,
        crop: Option<(usize, usize, usize, usize)>,
        requested: usize,
        dither: bool,
        bg: Option<u32>,
    },
    Lookup {
        /// 0xRRGGBB
        colors: Vec<u32>,
        /// additional queries 0xRRGGBB (the +-1 neighbourhood of every colour is always asked)
        queries: Vec<u32>,
    },
    /// the public building blocks used directly: `OcTree::{insert, prune_until, build_palette, find}`
    /// and `KDTree::{new, find}`
    Trees {
        /// 0xRRGGBB, inserted in this order
        colors: Vec<u32>,
        requested: usize,
    },
}

fn rgba(px: u32) -> RGBA {
    RGBA::new((px >> 24) as u8, (px >> 16) as u8, (px >> 8) as u8, px as u8)
}

fn rgb(c: u32) -> RGBA {
    RGBA::new((c >> 16) as u8, (c >> 8) as u8, c as u8, 255)
}

fn dist(a: [u8; 3], b: [u8; 3]) -> i64 {
    let d = |x: u8, y: u8| (x as i64 - y as i64) * (x as i64 - y as i64);
    d(a[0], b[0]) + d(a[1], b[1]) + d(a[2], b[2])
}

fn min_dist(colors: &[[u8; 3]], q: [u8; 3]) -> i64 {
    colors.iter().map(|c| dist(*c, q)).min().unwrap_or(i64::MAX)
}

fn gen_colors(rng: &mut Rng, n: usize) -> Vec<u32> {
    // n colours (not necessarily distinct)
    let style = rng.below(7);
    let centre = rng.next_u32() & 0xff_ffff;
    let mut out: Vec<u32> = Vec::with_capacity(n);
    while out.len() < n {
        let c = match style {
            // uniform
            0 | 1 => rng.next_u32() & 0xff_ffff,
            // tight cluster: differs from the centre by at most 1-3 per channel
            2 => {
                let spread = rng.range(1, 3) as i64;
                let mut c = 0u32;
                for shift in [16, 8, 0] {
                    let v = ((centre >> shift) & 0xff) as i64 + rng.range_i64(-spread, spread);
                    c |= (v.clamp(0, 255) as u32) << shift;
                }
                c
            }
            // differ in a single channel by one step
            3 => {
                let shift = *rng.pick(&[16u32, 8, 0]);
                let v = ((centre >> shift) & 0xff) as i64 + rng.range_i64(-1, 1);
                (centre & !(0xff << shift)) | ((v.clamp(0, 255) as u32) << shift)
            }
            // duplicates of earlier colours
            4 if !out.is_empty() && rng.chance(1, 2) => *rng.pick(&out),
            // grey ramp / one-dimensional
            5 => {
                let v = rng.next_u8() as u32;
                v << 16 | v << 8 | v
            }
            // coarse lattice: many equal coordinates in each dimension
            _ => {
                let q = |v: u8| (v & 0xc0) as u32;
                q(rng.next_u8()) << 16 | q(rng.next_u8()) << 8 | q(rng.next_u8())
            }
        };
        out.push(c);
    }
    out
}

impl Prop for C13 {
    type Case = Case;
    const ID: &'static str = "C13";

    fn default_cases(tier: Tier, flavour: &str) -> u64 {
        match (tier, flavour) {
            (_, "miri") | (_, "miri-sb") => tier.pick(30, 200),
            (Tier::Quick, _) => 30_000,
            (Tier::Thorough, "asan") | (Tier::Thorough, "valgrind") => 60_000,
            (Tier::Thorough, _) => 1_500_000,
        }
    }

    fn gen(rng: &mut Rng, tier: Tier, index: u64) -> Case {
        // every 11th case (thorough) / 25th (quick) exercises the lookup structure alone
        // NB: moduli on `index` are odd so that they stay uniform under 2^k-way sharding
        let lookup_every = if tier.quick() { 25 } else { 11 };
        if index % lookup_every == 0 {
            let n = match rng.below(8) {
                0 => rng.range(1, 4),
                1 => *rng.pick(&[255usize, 256, 257, 511, 512]),
                2 => rng.range(1, 40),
                _ => rng.range(1, 512),
            };
            let mut colors = gen_colors(rng, n);
            if rng.chance(1, 4) {
                // mix two populations
                let m = rng.range(0, n - 1);
                let other = gen_colors(rng, n - m);
                colors.truncate(m);
                colors.extend(other);
            }
            rng.shuffle(&mut colors);
            if rng.chance(1, 3) {
                let requested = match rng.below(6) {
                    0 => rng.range(0, 8),
                    1 => colors.len(),
                    2 => colors.len().saturating_sub(1),
                    3 => 256,
                    _ => rng.range(1, 300),
                };
                return Case::Trees { colors, requested };
            }
            let nq = if tier.quick() { 1500 } else { 4000 };
            let queries = (0..nq).map(|_| rng.next_u32() & 0xff_ffff).collect();
            return Case::Lookup { colors, queries };
        }

        let requested = match rng.below(10) {
            0 => rng.range(1, 8),
            1 => *rng.pick(&[1usize, 2, 7, 8, 9, 16, 255, 256, 257, 300]),
            2 => rng.range(1, 300),
            3 => 256,
            _ => rng.range(1, 64),
        };
        let big = index % 211 == 5;
        let (iw, ih) = if big {
            (300, 300)
        } else {
            match rng.below(8) {
                0 => (1, 1),
                1 => (rng.range(1, 64), 1),
                2 => (1, rng.range(1, 64)),
                3 => (rng.range(0, 2), rng.range(0, 2)), // includes empty images
                _ => (rng.range(1, 64), rng.range(1, 64)),
            }
        };
        let crop = !big && rng.chance(1, 4);
        let (w, h, window) = if crop {
            // one crop in three is a small window of a much larger buffer (what decides sampling is
            // the window, not the allocation behind it)
            let margin = if rng.chance(1, 3) { 60 } else { 4 };
            let top = rng.range(0, margin);
            let left = rng.range(0, margin);
            (
                iw + left + rng.range(0, margin),
                ih + top + rng.range(0, margin),
                Some((top, top + ih, left, left + iw)),
            )
        } else {
            (iw, ih, None)
        };
        // number of distinct colours relative to the requested size
        let ncolors = match rng.below(10) {
            0 => requested,
            1 => requested + 1,
            2 => requested.saturating_sub(1).max(1),
            3 => rng.range(1, 8),
            4 => 9,
            5 => 0, // arbitrary pixels
            6 => rng.range(1, 2 * requested + 2),
            _ => rng.range(1, requested),
        };
        let mut set: BTreeSet<u32> = BTreeSet::new();
        let pool = gen_colors(rng, ncolors * 2 + 4);
        for c in pool {
            if set.len() < ncolors {
                set.insert(c);
            }
        }
        let mut guard = 0;
        while set.len() < ncolors && guard < 10_000 {
            set.insert(rng.next_u32() & 0xff_ffff);
            guard += 1;
        }
        let palette: Vec<u32> = set.into_iter().collect();
        let translucent = rng.chance(1, 5);
        let mut px: Vec<u32> = (0..w * h).map(|_| rng.next_u32()).collect();
        let (top, left) = window.map(|(t, _, l, _)| (t, l)).unwrap_or((0, 0));
        // order in which colours are met matters for the octree: shuffled, runs or sorted
        let order = rng.below(3);
        let mut slots: Vec<usize> = (0..iw * ih).collect();
        if order == 0 {
            rng.shuffle(&mut slots);
        }
        for (n, slot) in slots.iter().enumerate() {
            let (row, col) = (slot / iw.max(1), slot % iw.max(1));
            let value = if palette.is_empty() {
                let a = if translucent && rng.chance(1, 6) { rng.next_u8() } else { 255 };
                (rng.next_u32() & 0xffff_ff00) | a as u32
            } else {
                let c = if n < palette.len() {
                    palette[n]
                } else if order == 2 {
                    palette[(n * palette.len()) / (iw * ih).max(1)]
                } else {
                    // skewed popularity: the octree prunes the least populated leaves first
                    let a = rng.below(palette.len());
                    let b = rng.below(palette.len());
                    palette[a.min(b)]
                };
                let a = if translucent && rng.chance(1, 8) {
                    *rng.pick(&[0u8, 1, 127, 128, 254])
                } else {
                    255
                };
                (c << 8) | a as u32
            };
            px[(top + row) * w + left + col] = value;
        }
        let bg = match rng.below(6) {
            0 | 1 => None,
            2 => Some(0xffff_ffff),
            3 => Some(0x0000_00ff),
            _ => Some(rng.next_u32() | 0xff),
        };
        Case::Quantize {
            w,
            h,
            px,
            crop: window,
            requested,
            dither: rng.bool(),
            bg,
        }
    }

    fn check(case: &Case, ctx: &mut Ctx) -> Result<(), Fail> {
        ctx.feat("cases");
        match case {
            Case::Trees { colors, requested } => {
                if colors.is_empty() || colors.len() > 4096 {
                    ctx.nondeciding = true;
                    return Ok(());
                }
                let list: Vec<[u8; 3]> = colors.iter().map(|c| [(c >> 16) as u8, (c >> 8) as u8, *c as u8]).collect();
                let distinct: BTreeSet<[u8; 3]> = list.iter().copied().collect();
                let mut tree = OcTree::new();
                for c in colors.iter() {
                    tree.insert(rgb(*c));
                }
                tree.prune_until(*requested);
                let palette = tree.build_palette();
                let bound = (*requested).max(8);
                ctx.feat("trees.cases");
                ensure!(
                    !palette.is_empty() && palette.len() <= bound,
                    if palette.is_empty() { "octree:empty-palette" } else { "octree:palette-larger-than-max(requested,8)" },
                    "{} distinct colours, prune_until({requested}): build_palette returns {} colours (allowed 1..={bound})",
                    distinct.len(),
                    palette.len()
                );
                let pal: Vec<[u8; 3]> = palette.iter().map(|c| c.to_rgb()).collect();
                if distinct.len() <= bound {
                    // nothing had to be pruned: the palette is exactly the set of colours
                    let got: BTreeSet<[u8; 3]> = pal.iter().copied().collect();
                    ensure!(
                        got == distinct && pal.len() == distinct.len(),
                        "octree:fitting-colours-not-kept",
                        "{} distinct colours fit max({requested},8), the palette has {} entries ({} distinct) and {}",
                        distinct.len(),
                        pal.len(),
                        got.len(),
                        if got == distinct { "repeats some" } else { "differs from the inserted set" }
                    );
                    ctx.feat("trees.octree.exact");
                } else {
                    ctx.feat("trees.octree.pruned");
                }
                // leaf indices handed out by build_palette address the palette
                for c in distinct.iter() {
                    if let Some((index, color)) = tree.find(RGBA::new(c[0], c[1], c[2], 255)) {
                        ensure!(
                            index < pal.len() && pal[index] == color.to_rgb(),
                            "octree:find-index-colour-disagree",
                            "OcTree::find({c:?}) = (index {index}, {:?}) but palette[{index}] = {:?} (palette of {})",
                            color.to_rgb(),
                            pal.get(index),
                            pal.len()
                        );
                        ensure!(
                            distinct.len() > bound || color.to_rgb() == *c,
                            "octree:find-inexact-without-pruning",
                            "OcTree::find({c:?}) = {:?} although all {} colours fit",
                            color.to_rgb(),
                            distinct.len()
                        );
                    } else {
                        // a colour whose subtree was pruned away may have no leaf on its path
                        ensure!(
                            distinct.len() > bound,
                            "octree:find-none-for-kept-colour",
                            "OcTree::find({c:?}) = None although nothing had to be pruned"
                        );
                    }
                }
                // the k-d tree over that palette: nearest entry for every query
                let kd = KDTree::new(&palette);
                let mut rng = Rng::new(colors.len() as u64 ^ *requested as u64);
                let mut asked = 0u64;
                let mut queries: Vec<[u8; 3]> = distinct.iter().copied().take(64).collect();
                for _ in 0..200 {
                    let v = rng.next_u32();
                    queries.push([(v >> 16) as u8, (v >> 8) as u8, v as u8]);
                }
                for q in queries {
                    let (index, color) = kd.find(RGBA::new(q[0], q[1], q[2], 255));
                    ensure!(
                        index < pal.len() && pal[index] == color.to_rgb(),
                        "kdtree:index-colour-disagree",
                        "KDTree::find({q:?}) = (index {index}, {:?}), palette[{index}] = {:?}",
                        color.to_rgb(),
                        pal.get(index)
                    );
                    ensure!(
                        dist(pal[index], q) == min_dist(&pal, q),
                        "kdtree:not-nearest",
                        "KDTree::find({q:?}) = {:?} at squared distance {}, nearest entry is at {}",
                        pal[index],
                        dist(pal[index], q),
                        min_dist(&pal, q)
                    );
                    asked += 1;
                }
                ctx.feat_n("trees.kdtree.queries", asked);
                Ok(())
            }
            Case::Lookup { colors, queries } => {
                if colors.is_empty() || colors.len() > 512 {
                    ctx.nondeciding = true;
                    return Ok(());
                }
                let list: Vec<[u8; 3]> = colors
                    .iter()
                    .map(|c| [(c >> 16) as u8, (c >> 8) as u8, *c as u8])
                    .collect();
                // palette entries carry arbitrary alpha (distances are RGB distances)
                let entry = |c: &u32| {
                    let alpha = [255u8, 255, 0, 128][((*c >> 3) ^ (*c >> 11)) as usize % 4];
                    RGBA::new((*c >> 16) as u8, (*c >> 8) as u8, *c as u8, alpha)
                };
                let Some(palette) = ColorPalette::new(colors.iter().map(entry).collect()) else {
                    fail!("lookup:palette-rejected", "ColorPalette::new returned None for {} colours", colors.len());
                };
                ensure!(
                    palette.size() == list.len()
                        && palette.colors().iter().zip(list.iter()).all(|(a, b)| a.to_rgb() == *b),
                    "lookup:palette-colours-changed",
                    "palette of {} colours reports {} / different colours",
                    list.len(),
                    palette.size()
                );
                let distinct: BTreeSet<[u8; 3]> = list.iter().copied().collect();
                ctx.feat("lookup.palettes");
                ctx.feat_if(distinct.len() < list.len(), "lookup.palette-with-duplicates");
                ctx.feat_if(list.len() >= 257, "lookup.palette>256");
                let ask = |q: [u8; 3], kind: &str| -> Result<(), Fail> {
                    let (index, color) = palette.find(RGBA::new(q[0], q[1], q[2], 255));
                    ensure!(
                        index < list.len(),
                        format!("lookup:index-out-of-range:{kind}"),
                        "find({q:?}) returned index {index} for a palette of {}",
                        list.len()
                    );
                    ensure!(
                        list[index] == color.to_rgb(),
                        format!("lookup:index-colour-disagree:{kind}"),
                        "find({q:?}) returned index {index} = {:?} together with colour {:?}",
                        list[index],
                        color.to_rgb()
                    );
                    // the exhaustive lookup the library offers next to the tree search
                    let (nindex, ncolor) = palette.find_naive(RGBA::new(q[0], q[1], q[2], 255));
                    ensure!(
                        nindex < list.len() && list[nindex] == ncolor.to_rgb() && dist(list[nindex], q) == min_dist(&list, q),
                        format!("lookup:find_naive-not-nearest:{kind}"),
                        "find_naive({q:?}) returned index {nindex} = {:?} at squared distance {}; nearest entry is at {}",
                        list.get(nindex),
                        list.get(nindex).map(|c| dist(*c, q)).unwrap_or(-1),
                        min_dist(&list, q)
                    );
                    let got = dist(list[index], q);
                    let best = min_dist(&list, q);
                    ensure!(
                        got == best,
                        format!("lookup:not-nearest:{kind}"),
                        "find({q:?}) returned {:?} at squared distance {got}; nearest entry is at {best} (palette of {}, {} distinct)",
                        list[index],
                        list.len(),
                        distinct.len()
                    );
                    Ok(())
                };
                let mut asked = 0u64;
                for c in distinct.iter() {
                    for dr in -1i32..=1 {
                        for dg in -1i32..=1 {
                            for db in -1i32..=1 {
                                let q = [
                                    (c[0] as i32 + dr).clamp(0, 255) as u8,
                                    (c[1] as i32 + dg).clamp(0, 255) as u8,
                                    (c[2] as i32 + db).clamp(0, 255) as u8,
                                ];
                                ask(q, "neighbourhood")?;
                                asked += 1;
                            }
                        }
                    }
                }
                for q in queries.iter() {
                    ask([(q >> 16) as u8, (q >> 8) as u8, *q as u8], "random")?;
                    asked += 1;
                }
                // corners and channel extremes
                for q in [[0u8, 0, 0], [255, 255, 255], [255, 0, 0], [0, 255, 0], [0, 0, 255]] {
                    ask(q, "corner")?;
                    asked += 1;
                }
                ctx.feat_n("lookup.queries", asked);
                Ok(())
            }
            Case::Quantize {
                w,
                h,
                px,
                crop,
                requested,
                dither,
                bg,
            } => {
                let (w, h, requested, dither) = (*w, *h, *requested, *dither);
                let (r0, r1, c0, c1) = crop.unwrap_or((0, h, 0, w));
                if px.len() != w * h || r1 > h || c1 > w || r0 > r1 || c0 > c1 || requested < 1 {
                    ctx.nondeciding = true;
                    return Ok(());
                }
                let (ih, iw) = (r1 - r0, c1 - c0);
                let base = Image::from(SurfaceOwned::new_with(Size { height: h, width: w }, |pos| {
                    rgba(px[pos.row * w + pos.col])
                }));
                let img = match crop {
                    Some(_) => base.crop(r0..r1, c0..c1),
                    None => base,
                };
                let empty = ih == 0 || iw == 0;
                let bg_rgba = bg.map(rgba);
                let result = img.quantize(requested, dither, bg_rgba);
                if empty {
                    // the statement speaks about non-empty images only
                    ctx.nondeciding = true;
                    ctx.feat_if(result.is_none(), "quantize.empty-image-none");
                    return Ok(());
                }
                let Some((palette, qimg)) = result else {
                    fail!("quantize:none-for-non-empty", "quantize({requested}, {dither}) of a {iw}x{ih} image returned None");
                };
                // composited pixels
                let bg_used = bg_rgba.unwrap_or(RGBA::new(0, 0, 0, 255));
                let mut pixels: Vec<[u8; 3]> = Vec::with_capacity(iw * ih);
                let mut translucent = false;
                for row in 0..ih {
                    for col in 0..iw {
                        let p = rgba(px[(r0 + row) * w + c0 + col]);
                        let c = if p.to_rgba()[3] < 255 {
                            translucent = true;
                            bg_used.blend_over(p)
                        } else {
                            p
                        };
                        pixels.push(c.to_rgb());
                    }
                }
                let limit = requested.max(8);
                let size = palette.size();
                ensure!(
                    size >= 1 && size <= limit,
                    if size == 0 { "palette:empty" } else { "palette:larger-than-max(requested,8)" },
                    "palette of {size} colours for requested {requested} ({iw}x{ih} image)"
                );
                let colors: Vec<[u8; 3]> = palette.colors().iter().map(|c| c.to_rgb()).collect();
                ensure!(colors.len() == size, "palette:size-disagrees", "size() = {size}, colors().len() = {}", colors.len());
                ensure!(
                    qimg.height() == ih && qimg.width() == iw,
                    "index-image:size",
                    "index image is {}x{}, image is {iw}x{ih}",
                    qimg.width(),
                    qimg.height()
                );
                let indices: Vec<usize> = qimg.iter().copied().collect();
                ensure!(indices.len() == iw * ih, "index-image:size", "index image yields {} entries for {iw}x{ih}", indices.len());
                for (n, index) in indices.iter().enumerate() {
                    ensure!(
                        *index < size,
                        "index-image:index-out-of-range",
                        "entry {n} is {index}, palette has {size} colours"
                    );
                }
                let sampled = ih * iw / (requested * 100) >= 2;
                let distinct: BTreeSet<[u8; 3]> = pixels.iter().copied().collect();
                let fits = distinct.len() <= requested && !sampled;
                if !dither {
                    for (n, (pixel, index)) in pixels.iter().zip(indices.iter()).enumerate() {
                        let got = dist(colors[*index], *pixel);
                        let best = min_dist(&colors, *pixel);
                        ensure!(
                            got == best,
                            "nearest:pixel-not-mapped-to-nearest",
                            "pixel {n} = {pixel:?} mapped to entry {index} = {:?} at squared distance {got}, nearest is at {best} (palette {size}, requested {requested})",
                            colors[*index]
                        );
                    }
                    ctx.feat("quantize.nearest-checked");
                }
                if fits {
                    for (n, (pixel, index)) in pixels.iter().zip(indices.iter()).enumerate() {
                        ensure!(
                            colors[*index] == *pixel,
                            if dither { "fits:not-exact:dither" } else { "fits:not-exact" },
                            "{} distinct colours fit requested {requested} but pixel {n} = {pixel:?} became {:?} (palette {size}, {iw}x{ih}, dither {dither})",
                            distinct.len(),
                            colors[*index]
                        );
                    }
                    ctx.feat(if dither { "quantize.fits-exact.dither" } else { "quantize.fits-exact" });
                    ctx.feat_if(distinct.len() == requested, "quantize.fits-exact.distinct==requested");
                    ctx.feat_if(requested < 8, "quantize.fits-exact.requested<8");
                }
                ctx.feat_if(sampled, "quantize.subsampled");
                ctx.feat_if(distinct.len() > limit, "quantize.pruned");
                ctx.feat_if(distinct.len() > limit && size < limit, "quantize.over-pruned");
                ctx.feat_if(translucent, "quantize.translucent-pixels");
                ctx.feat_if(crop.is_some(), "quantize.cropped");
                ctx.feat_if(size == 1, "quantize.palette-of-1");
                Ok(())
            }
        }
    }

    fn finish(ctx: &mut Ctx) -> Option<String> {
        let seen = |name: &str| ctx.feats.get(name).copied().unwrap_or(0);
        if seen("cases") < 500 {
            return None;
        }
        for name in [
            "lookup.palettes",
            "lookup.palette-with-duplicates",
            "quantize.nearest-checked",
            "quantize.fits-exact",
            "quantize.fits-exact.dither",
            "quantize.pruned",
        ] {
            if seen(name) == 0 {
                return Some(format!("feature {name} never observed in {} cases", seen("cases")));
            }
        }
        None
    }

    fn nontrivial(case: &Case) -> bool {
        match case {
            Case::Lookup { colors, .. } | Case::Trees { colors, .. } => !colors.is_empty(),
            Case::Quantize { w, h, crop, .. } => {
                let (r0, r1, c0, c1) = crop.unwrap_or((0, *h, 0, *w));
                r1 > r0 && c1 > c0
            }
        }
    }

    fn case_hash(case: &Case) -> u64 {
        let mut bytes: Vec<u8> = Vec::new();
        match case {
            Case::Trees { colors, requested } => {
                bytes.push(2);
                bytes.extend_from_slice(&(*requested as u64).to_le_bytes());
                for c in colors.iter() {
                    bytes.extend_from_slice(&c.to_le_bytes());
                }
            }
            Case::Lookup { colors, queries } => {
                bytes.push(1);
                for c in colors.iter().chain(queries.iter()) {
                    bytes.extend_from_slice(&c.to_le_bytes());
                }
            }
            Case::Quantize {
                w,
                h,
                px,
                crop,
                requested,
                dither,
                bg,
            } => {
                bytes.extend_from_slice(format!("{w} {h} {crop:?} {requested} {dither} {bg:?}").as_bytes());
                for p in px.iter() {
                    bytes.extend_from_slice(&p.to_le_bytes());
                }
            }
        }
        fnv(&bytes)
    }

    fn shrink(case: &Case) -> Vec<Case> {
        let mut out = Vec::new();
        match case {
            Case::Trees { colors, requested } => {
                for c in crate::core::shrink_vec(colors) {
                    if !c.is_empty() {
                        out.push(Case::Trees { colors: c, requested: *requested });
                    }
                }
            }
            Case::Lookup { colors, queries } => {
                for c in crate::core::shrink_vec(colors) {
                    if !c.is_empty() {
                        out.push(Case::Lookup {
                            colors: c,
                            queries: queries.clone(),
                        });
                    }
                }
                if queries.len() > 1 {
                    for q in crate::core::shrink_vec(queries) {
                        out.push(Case::Lookup {
                            colors: colors.clone(),
                            queries: q,
                        });
                    }
                }
            }
            Case::Quantize {
                w,
                h,
                px,
                crop,
                requested,
                dither,
                bg,
            } => {
                let (r0, r1, c0, c1) = crop.unwrap_or((0, *h, 0, *w));
                if crop.is_some() {
                    let mut npx = Vec::new();
                    for row in r0..r1 {
                        npx.extend_from_slice(&px[row * w + c0..row * w + c1]);
                    }
                    out.push(Case::Quantize {
                        w: c1 - c0,
                        h: r1 - r0,
                        px: npx,
                        crop: None,
                        requested: *requested,
                        dither: *dither,
                        bg: *bg,
                    });
                    return out;
                }
                // drop rows from either end
                if *h > 1 {
                    for nh in [h / 2, h - 1] {
                        if nh >= 1 {
                            out.push(Case::Quantize {
                                w: *w,
                                h: nh,
                                px: px[..nh * w].to_vec(),
                                crop: None,
                                requested: *requested,
                                dither: *dither,
                                bg: *bg,
                            });
                            out.push(Case::Quantize {
                                w: *w,
                                h: nh,
                                px: px[(h - nh) * w..].to_vec(),
                                crop: None,
                                requested: *requested,
                                dither: *dither,
                                bg: *bg,
                            });
                        }
                    }
                }
                if *w > 1 {
                    for nw in [w / 2, w - 1] {
                        if nw >= 1 {
                            for off in [0, w - nw] {
                                let mut npx = Vec::new();
                                for row in 0..*h {
                                    npx.extend_from_slice(&px[row * w + off..row * w + off + nw]);
                                }
                                out.push(Case::Quantize {
                                    w: nw,
                                    h: *h,
                                    px: npx,
                                    crop: None,
                                    requested: *requested,
                                    dither: *dither,
                                    bg: *bg,
                                });
                            }
                        }
                    }
                }
            }
        }
        out
    }

    fn rule() -> &'static str {
        "case = Quantize(pixel buffer <= 64x64 [rarely 300x300, subsampled], optional crop, requested 1..=300, dither flag, background) or Lookup(palette of 1..=512 colours with duplicates/clusters, random queries; the +-1 neighbourhood of every colour is always queried) or Trees(colours inserted into an OcTree, prune_until(requested), build_palette, OcTree::find, KDTree over the palette); non-trivial = non-empty image / palette; distinct = hash of the whole case"
    }

    fn sample(case: &Case) -> serde_json::Value {
        match case {
            Case::Trees { colors, requested } => serde_json::json!({
                "kind": "trees", "colors": colors.len(), "requested": requested,
                "head": colors.iter().take(6).map(|c| format!("{c:06x}")).collect::<Vec<_>>(),
            }),
            Case::Lookup { colors, queries } => serde_json::json!({
                "kind": "lookup", "colors": colors.len(), "queries": queries.len(),
                "head": colors.iter().take(6).map(|c| format!("{c:06x}")).collect::<Vec<_>>(),
            }),
            Case::Quantize {
                w,
                h,
                px,
                crop,
                requested,
                dither,
                bg,
            } => serde_json::json!({
                "kind": "quantize", "w": w, "h": h, "crop": crop, "requested": requested, "dither": dither,
                "bg": bg.map(|b| format!("{b:08x}")),
                "px_head": px.iter().take(6).map(|p| format!("{p:08x}")).collect::<Vec<_>>(),
            }),
        }
    }
}
