//! C19 — serialised forms round-trip, and no JSON document can crash deserialisation
//!
//! (a) Round trips, by equality, through `serde_json::{to_value, from_value}` and through text
//!     `{to_string, from_str}`: `Face` (any RGBA colours, one underline style + any flag set;
//!     also `Display` -> `FromStr`), `Size`, `KeyChord` (chords built from keys the textual
//!     syntax can express, and chords obtained by parsing generated chord text in free spelling),
//!     `Image` (input document written by hand in the 1/3/4-channel layouts, compared pixel for
//!     pixel with an independent expansion; then optionally cropped, serialised, deserialised
//!     and compared with the independently computed crop).
//! (b) Totality: every generated JSON *text* (schema-aware valid documents, field mutations,
//!     extreme numbers, repeated / missing keys, broken base64, deep nesting, ill-typed random
//!     documents) is deserialised as `Image`, `Glyph`, `Text` and as a view tree; any panic is
//!     caught by the runner, aborts / rlimit deaths by the supervisor. Whatever deserialises
//!     and is a view is laid out and rendered under three configurations inside the sentinel
//!     canvas of `viewgen::render_checked`.
use crate::core::{Ctx, Fail, Prop, Tier};
use crate::props::c14::ref_encode;
use crate::props::viewgen::{self, gen_cfg, render_checked, RenderOutcome, RunCfg};
use crate::rng::Rng;
use crate::ensure;
use serde::de::DeserializeSeed;
use serde::{Deserialize, Serialize};
use surf_n_term::{
    view::{Text, View, ViewDeserializer},
    Color, Face, FaceAttrs, Glyph, Image, Key, KeyChord, KeyMod, KeyName, Size, Surface, RGBA,
};

pub struct C19;

#[derive(Clone, Debug, Serialize, Deserialize, PartialEq)]
pub enum NameS {
    /// index into NAMED
    Named(u8),
    Char(char),
    F(usize),
}

#[derive(Clone, Debug, Serialize, Deserialize, PartialEq)]
pub struct KeyS {
    pub name: NameS,
    /// subset of the eight modifiers the syntax knows, bit i = MODS[i]
    pub mods: u8,
}

#[derive(Clone, Copy, Debug, Serialize, Deserialize, PartialEq)]
pub enum DocKind {
    Valid,
    Mutated,
    RepeatedKey,
    Random,
    Deep,
}

#[derive(Clone, Debug, Serialize, Deserialize)]
pub enum Case {
    Face {
        fg: Option<[u8; 4]>,
        bg: Option<[u8; 4]>,
        /// 0 = none, 1..=5 = straight, double, curly, dotted, dashed
        underline: u8,
        /// bit 0..5 = bold, italic, blink, reverse, strike
        flags: u8,
    },
    Size {
        h: usize,
        w: usize,
    },
    ChordKeys {
        keys: Vec<KeyS>,
    },
    ChordText {
        text: String,
    },
    Image {
        h: usize,
        w: usize,
        channels: usize,
        data: Vec<u8>,
        /// rows r0..r1, cols c0..c1 (non-empty, inside the image)
        crop: Option<(usize, usize, usize, usize)>,
        size_as_map: bool,
        /// order of the three keys in the document
        order: u8,
    },
    Doc {
        kind: DocKind,
        text: String,
        cfg: RunCfg,
    },
}

const NAMED: [(KeyName, &str); 14] = [
    (KeyName::Left, "left"),
    (KeyName::Up, "up"),
    (KeyName::Right, "right"),
    (KeyName::Down, "down"),
    (KeyName::PageUp, "pageup"),
    (KeyName::PageDown, "pagedown"),
    (KeyName::End, "end"),
    (KeyName::Home, "home"),
    (KeyName::Tab, "tab"),
    (KeyName::Enter, "enter"),
    (KeyName::Esc, "esc"),
    (KeyName::Backspace, "backspace"),
    (KeyName::Delete, "delete"),
    (KeyName::Insert, "insert"),
];

/// characters the chord syntax can express (`space` is spelled out)
const CHARS: &str = "abcdefghijklmnopqrstuvwxyz0123456789`-=[]\\;,./ ";

const MODS: [(KeyMod, &str); 8] = [
    (KeyMod::SHIFT, "shift"),
    (KeyMod::ALT, "alt"),
    (KeyMod::CTRL, "ctrl"),
    (KeyMod::SUPER, "super"),
    (KeyMod::HYPER, "hyper"),
    (KeyMod::META, "meta"),
    (KeyMod::PRESS, "press"),
    (KeyMod::CAPSLOCK, "capslock"),
];

fn key_of(spec: &KeyS) -> Key {
    let name = match &spec.name {
        NameS::Named(index) => NAMED[*index as usize % NAMED.len()].0,
        NameS::Char(c) => KeyName::Char(*c),
        NameS::F(n) => KeyName::F(*n),
    };
    let mut mode = KeyMod::EMPTY;
    for (bit, (flag, _)) in MODS.iter().enumerate() {
        if spec.mods & (1 << bit) != 0 {
            mode |= *flag;
        }
    }
    Key::new(name, mode)
}

fn gen_key(rng: &mut Rng) -> KeyS {
    let name = match rng.below(10) {
        0..=2 => NameS::Named(rng.below(NAMED.len()) as u8),
        3 => NameS::F(match rng.below(4) {
            0 => rng.range(0, 12),
            1 => rng.range(13, 99),
            2 => *rng.pick(&[0usize, 100, 65535, 4294967295, 4294967296]),
            _ => rng.next_u32() as usize,
        }),
        _ => {
            let chars: Vec<char> = CHARS.chars().collect();
            NameS::Char(*rng.pick(&chars))
        }
    };
    let mods = match rng.below(4) {
        0 => 0,
        1 => 1 << rng.below(8),
        _ => rng.next_u8(),
    };
    KeyS { name, mods }
}

/// chord text in free spelling: any case, modifiers in any order (possibly repeated), `escape`
/// alias, several spaces between keys
fn gen_chord_text(rng: &mut Rng) -> String {
    let mut out = String::new();
    let keys = rng.range(1, 4);
    if rng.chance(1, 5) {
        out.push(' ');
    }
    for index in 0..keys {
        let spec = gen_key(rng);
        let mut parts: Vec<String> = Vec::new();
        for (bit, (_, name)) in MODS.iter().enumerate() {
            if spec.mods & (1 << bit) != 0 {
                parts.push(name.to_string());
                if rng.chance(1, 10) {
                    parts.push(name.to_string());
                }
            }
        }
        let name = match &spec.name {
            NameS::Named(index) => {
                let name = NAMED[*index as usize % NAMED.len()].1;
                if name == "esc" && rng.bool() {
                    "escape".to_string()
                } else {
                    name.to_string()
                }
            }
            NameS::Char(' ') => "space".to_string(),
            NameS::Char(c) => c.to_string(),
            NameS::F(n) => {
                if rng.chance(1, 6) {
                    format!("f0{n}")
                } else {
                    format!("f{n}")
                }
            }
        };
        // the key name anywhere among the modifiers
        let at = rng.range(0, parts.len());
        parts.insert(at, name);
        let mut key = parts.join("+");
        if rng.chance(1, 3) {
            key = key.to_uppercase();
        } else if rng.chance(1, 4) {
            key = key
                .chars()
                .map(|c| if rng.bool() { c.to_ascii_uppercase() } else { c })
                .collect();
        }
        out.push_str(&key);
        if index + 1 < keys {
            out.push_str(if rng.chance(1, 5) { "  " } else { " " });
        }
    }
    if rng.chance(1, 5) {
        out.push(' ');
    }
    out
}

fn face_of(fg: &Option<[u8; 4]>, bg: &Option<[u8; 4]>, underline: u8, flags: u8) -> Face {
    let rgba = |c: &[u8; 4]| RGBA::new(c[0], c[1], c[2], c[3]);
    let mut attrs = match underline % 6 {
        1 => FaceAttrs::UNDERLINE,
        2 => FaceAttrs::UNDERLINE_DOUBLE,
        3 => FaceAttrs::UNDERLINE_CURLY,
        4 => FaceAttrs::UNDERLINE_DOTTED,
        5 => FaceAttrs::UNDERLINE_DASHED,
        _ => FaceAttrs::EMPTY,
    };
    for (bit, flag) in [
        FaceAttrs::BOLD,
        FaceAttrs::ITALIC,
        FaceAttrs::BLINK,
        FaceAttrs::REVERSE,
        FaceAttrs::STRIKE,
    ]
    .iter()
    .enumerate()
    {
        if flags & (1 << bit) != 0 {
            attrs = attrs | *flag;
        }
    }
    Face::new(fg.as_ref().map(rgba), bg.as_ref().map(rgba), attrs)
}

/// value -> to_value -> from_value and value -> to_string -> from_str
fn roundtrip<T>(value: &T, what: &str) -> Result<(T, T), Fail>
where
    T: Serialize + serde::de::DeserializeOwned + std::fmt::Debug,
{
    let as_value = serde_json::to_value(value)
        .map_err(|e| Fail::new(format!("{what}-serialize-error"), format!("{value:?}: {e}")))?;
    let from_value: T = serde_json::from_value(as_value.clone()).map_err(|e| {
        Fail::new(
            format!("{what}-roundtrip:rejected"),
            format!("{value:?} serialised to {as_value} which does not deserialise: {e}"),
        )
    })?;
    let as_text = serde_json::to_string(value)
        .map_err(|e| Fail::new(format!("{what}-serialize-error"), format!("{value:?}: {e}")))?;
    let from_text: T = serde_json::from_str(&as_text).map_err(|e| {
        Fail::new(
            format!("{what}-roundtrip:rejected"),
            format!("{value:?} serialised to {as_text} which does not deserialise: {e}"),
        )
    })?;
    Ok((from_value, from_text))
}

fn expand(channels: usize, data: &[u8]) -> Vec<[u8; 4]> {
    data.chunks(channels)
        .map(|p| match channels {
            1 => [p[0], p[0], p[0], 255],
            3 => [p[0], p[1], p[2], 255],
            _ => [p[0], p[1], p[2], p[3]],
        })
        .collect()
}

fn pixels(image: &Image) -> Vec<[u8; 4]> {
    image.iter().map(|c| c.to_rgba()).collect()
}

fn check_chord(chord: &KeyChord, origin: &str, ctx: &mut Ctx) -> Result<(), Fail> {
    let (a, b) = roundtrip(chord, "chord")?;
    ensure!(
        &a == chord && &b == chord,
        "chord-roundtrip",
        "chord {chord:?} (keys {:?}, from {origin}) came back as {a:?} / {b:?} (keys {:?})",
        chord.keys(),
        a.keys()
    );
    let shown = chord.to_string();
    let parsed: Result<KeyChord, _> = shown.parse();
    ensure!(
        parsed.as_ref().ok() == Some(chord),
        "chord-display-parse",
        "chord with keys {:?} prints as {shown:?} which parses to {parsed:?}",
        chord.keys()
    );
    ctx.feat("chord.roundtrip");
    ctx.feat_if(chord.keys().len() > 1, "chord.multi-key");
    Ok(())
}

fn check_doc(text: &str, cfg: &RunCfg, ctx: &mut Ctx) -> Result<(), Fail> {
    // totality: each of these returns Ok or Err; panics are caught by the runner
    let image = serde_json::from_str::<Image>(text);
    ctx.feat(if image.is_ok() { "image.ok" } else { "image.err" });
    let glyph = serde_json::from_str::<Glyph>(text);
    ctx.feat(if glyph.is_ok() { "glyph.ok" } else { "glyph.err" });
    let text_view = serde_json::from_str::<Text>(text);
    ctx.feat(if text_view.is_ok() { "text.ok" } else { "text.err" });
    let seed = ViewDeserializer::new(None, None);
    let mut de = serde_json::Deserializer::from_str(text);
    let view = seed.deserialize(&mut de);
    ctx.feat(if view.is_ok() { "view.ok" } else { "view.err" });

    if let Ok(image) = &image {
        // a value was returned: it must be internally consistent enough to be read
        let size = image.size();
        let count = image.iter().count();
        ensure!(
            size.height.checked_mul(size.width) == Some(count),
            "image-inconsistent",
            "deserialised image says {size:?} but iterates {count} pixels"
        );
    }

    let mut views: Vec<(&str, &dyn View)> = Vec::new();
    if let Ok(view) = &view {
        views.push(("view", view));
    }
    if let Ok(image) = &image {
        views.push(("image", image));
    }
    if let Ok(glyph) = &glyph {
        views.push(("glyph", glyph));
    }
    if let Ok(text_view) = &text_view {
        views.push(("text", text_view));
    }
    if views.is_empty() || !cfg.valid() {
        return Ok(());
    }
    let cfgs = [
        *cfg,
        RunCfg {
            glyphs: !cfg.glyphs,
            ppc: if cfg.ppc == (0, 0) { (4, 2) } else { cfg.ppc },
            ..*cfg
        },
        RunCfg {
            min: (0, 0),
            max: (1, 1),
            surf: (1, 1),
            ..*cfg
        },
    ];
    for (name, view) in views {
        for cfg in cfgs.iter() {
            match render_checked(view, cfg)? {
                RenderOutcome::Done(_) => ctx.feat(&format!("rendered.{name}")),
                RenderOutcome::ViewError(_) => ctx.feat("view-returned-error"),
            }
        }
    }
    Ok(())
}

impl Prop for C19 {
    type Case = Case;
    const ID: &'static str = "C19";

    fn default_cases(tier: Tier, flavour: &str) -> u64 {
        match (tier, flavour) {
            (_, "miri") | (_, "miri-sb") => tier.pick(200, 1_000),
            (Tier::Quick, _) => 1_200_000,
            (Tier::Thorough, "asan") | (Tier::Thorough, "valgrind") => 10_000_000,
            (Tier::Thorough, _) => 100_000_000,
        }
    }

    fn gen(rng: &mut Rng, _tier: Tier, index: u64) -> Case {
        let color = |rng: &mut Rng| {
            let alpha = match rng.below(4) {
                0 => 255,
                1 => 0,
                2 => *rng.pick(&[1u8, 127, 128, 254]),
                _ => rng.next_u8(),
            };
            let c = match rng.below(5) {
                0 => [0, 0, 0],
                1 => [255, 255, 255],
                _ => [rng.next_u8(), rng.next_u8(), rng.next_u8()],
            };
            [c[0], c[1], c[2], alpha]
        };
        match index % 12 {
            0 => Case::Face {
                fg: rng.chance(2, 3).then(|| color(rng)),
                bg: rng.chance(2, 3).then(|| color(rng)),
                underline: rng.below(6) as u8,
                flags: if rng.chance(1, 4) { 0 } else { rng.below(32) as u8 },
            },
            1 => {
                let dim = |rng: &mut Rng| match rng.below(6) {
                    0 => 0,
                    1 => 1,
                    2 => *rng.pick(&[
                        255usize,
                        65536,
                        1 << 31,
                        1 << 32,
                        (1 << 53) + 1,
                        1 << 63,
                        usize::MAX - 1,
                        usize::MAX,
                    ]),
                    3 => rng.next_u64() as usize,
                    _ => rng.range(0, 300),
                };
                Case::Size {
                    h: dim(rng),
                    w: dim(rng),
                }
            }
            2 => Case::ChordKeys {
                keys: (0..rng.range(1, 4)).map(|_| gen_key(rng)).collect(),
            },
            3 => Case::ChordText {
                text: gen_chord_text(rng),
            },
            4 | 5 => {
                let h = *rng.pick(&[0usize, 1, 1, 2, 3, 5, 8, 13]);
                let w = *rng.pick(&[0usize, 1, 1, 2, 3, 4, 7, 16]);
                let channels = *rng.pick(&[1usize, 3, 4]);
                let data = match rng.below(4) {
                    0 => vec![0u8; h * w * channels],
                    1 => vec![255u8; h * w * channels],
                    _ => rng.bytes(h * w * channels),
                };
                let crop = (h > 0 && w > 0 && rng.bool()).then(|| {
                    let r0 = rng.range(0, h - 1);
                    let r1 = rng.range(r0 + 1, h);
                    let c0 = rng.range(0, w - 1);
                    let c1 = rng.range(c0 + 1, w);
                    (r0, r1, c0, c1)
                });
                Case::Image {
                    h,
                    w,
                    channels,
                    data,
                    crop,
                    size_as_map: rng.chance(1, 4),
                    order: rng.below(6) as u8,
                }
            }
            _ => {
                let cfg = gen_cfg(rng, false);
                let valid = |rng: &mut Rng| match rng.below(8) {
                    0 | 1 => viewgen::gen_image_doc(rng),
                    2 => viewgen::gen_glyph_doc(rng),
                    3 => viewgen::gen_text_doc(rng, 3),
                    _ => {
                        let depth = rng.range(0, 4);
                        viewgen::gen_view_doc(rng, depth)
                    }
                };
                let (kind, text) = match rng.below(20) {
                    0..=2 => (DocKind::Valid, valid(rng).text()),
                    3..=9 => {
                        let mut doc = valid(rng);
                        viewgen::mutate(rng, &mut doc);
                        (DocKind::Mutated, doc.text())
                    }
                    10..=13 => {
                        let mut doc = valid(rng);
                        for _ in 0..rng.range(2, 5) {
                            viewgen::mutate(rng, &mut doc);
                        }
                        (DocKind::Mutated, doc.text())
                    }
                    14 | 15 => {
                        // one key given twice with two valid values
                        let mut doc = valid(rng);
                        let other = valid(rng);
                        if let (viewgen::J::Obj(items), viewgen::J::Obj(more)) = (&mut doc, other) {
                            for (k, v) in more {
                                if rng.bool() {
                                    let at = rng.range(0, items.len());
                                    items.insert(at, (k, v));
                                }
                            }
                        }
                        (DocKind::RepeatedKey, doc.text())
                    }
                    16..=18 => (DocKind::Random, viewgen::random_json(rng, 4).text()),
                    _ => {
                        let levels = *rng.pick(&[10usize, 60, 120, 127, 128, 129, 200, 300]);
                        (DocKind::Deep, viewgen::deep_nest(rng, levels))
                    }
                };
                Case::Doc { kind, text, cfg }
            }
        }
    }

    fn check(case: &Case, ctx: &mut Ctx) -> Result<(), Fail> {
        match case {
            Case::Face {
                fg,
                bg,
                underline,
                flags,
            } => {
                let face = face_of(fg, bg, *underline, *flags);
                let (a, b) = roundtrip(&face, "face")?;
                ensure!(
                    a == face && b == face,
                    "face-roundtrip",
                    "face {face:?} (fg={fg:?} bg={bg:?} underline={underline} flags={flags:#b}) came back as {a:?} / {b:?}; serialised as {:?}",
                    serde_json::to_string(&face)
                );
                let shown = face.to_string();
                let parsed: Result<Face, _> = shown.parse();
                ensure!(
                    parsed.as_ref().ok() == Some(&face),
                    "face-display-parse",
                    "face fg={fg:?} bg={bg:?} underline={underline} flags={flags:#b} prints as {shown:?} which parses to {parsed:?}"
                );
                ctx.feat("face.roundtrip");
                let translucent = |c: &Option<[u8; 4]>| c.map(|c| c[3] < 255).unwrap_or(false);
                ctx.feat_if(translucent(fg) || translucent(bg), "face.alpha<255");
                ctx.feat_if(*underline % 6 != 0 && *flags != 0, "face.underline+flags");
                Ok(())
            }
            Case::Size { h, w } => {
                let size = Size::new(*h, *w);
                let (a, b) = roundtrip(&size, "size")?;
                ensure!(
                    a == size && b == size,
                    "size-roundtrip",
                    "size {size:?} came back as {a:?} / {b:?}"
                );
                ctx.feat("size.roundtrip");
                ctx.feat_if(*h > 1 << 53 || *w > 1 << 53, "size.beyond-f64-integers");
                Ok(())
            }
            Case::ChordKeys { keys } => {
                if keys.is_empty() {
                    // the syntax cannot write an empty chord
                    ctx.nondeciding = true;
                    return Ok(());
                }
                let chord = KeyChord::new(keys.iter().map(key_of).collect());
                check_chord(&chord, "keys", ctx)
            }
            Case::ChordText { text } => match text.parse::<KeyChord>() {
                Ok(chord) => {
                    ctx.feat("chord.parsed-from-text");
                    check_chord(&chord, text, ctx)
                }
                Err(_) => {
                    // not a chord the syntax accepts: outside the domain
                    ctx.feat("chord.text-rejected");
                    ctx.nondeciding = true;
                    Ok(())
                }
            },
            Case::Image {
                h,
                w,
                channels,
                data,
                crop,
                size_as_map,
                order,
            } => {
                if data.len() != h * w * channels || !matches!(channels, 1 | 3 | 4) {
                    ctx.nondeciding = true;
                    return Ok(());
                }
                let size = if *size_as_map {
                    format!("{{\"width\":{w},\"height\":{h}}}")
                } else {
                    format!("[{h},{w}]")
                };
                let mut fields = vec![
                    format!("\"size\":{size}"),
                    format!("\"channels\":{channels}"),
                    format!("\"data\":\"{}\"", String::from_utf8(ref_encode(data)).unwrap()),
                ];
                fields.rotate_left(*order as usize % 3);
                if *order >= 3 {
                    fields.swap(0, 1);
                }
                let doc = format!("{{{}}}", fields.join(","));
                let image: Image = serde_json::from_str(&doc).map_err(|e| {
                    Fail::new(
                        format!("image-valid-document-rejected:c{channels}"),
                        format!("{doc} -> {e}"),
                    )
                })?;
                let expected = expand(*channels, data);
                ensure!(
                    image.size() == Size::new(*h, *w),
                    format!("image-decode:size:c{channels}"),
                    "document {doc} gave size {:?}",
                    image.size()
                );
                ensure!(
                    pixels(&image) == expected,
                    format!("image-decode:pixels:c{channels}"),
                    "document {doc} gave pixels {:?}, expected {:?}",
                    pixels(&image),
                    expected
                );
                ctx.feat(&format!("image.input.c{channels}"));
                let (subject, expected, expected_size) = match crop {
                    None => (image.clone(), expected, Size::new(*h, *w)),
                    Some((r0, r1, c0, c1)) => {
                        if !(r0 < r1 && r1 <= h && c0 < c1 && c1 <= w) {
                            ctx.nondeciding = true;
                            return Ok(());
                        }
                        let mut cropped = Vec::new();
                        for row in *r0..*r1 {
                            for col in *c0..*c1 {
                                cropped.push(expected[row * w + col]);
                            }
                        }
                        ctx.feat("image.cropped-view");
                        (
                            image.crop(*r0..*r1, *c0..*c1),
                            cropped,
                            Size::new(r1 - r0, c1 - c0),
                        )
                    }
                };
                let (a, b) = roundtrip(&subject, "image")?;
                for (back, via) in [(&a, "value"), (&b, "text")] {
                    ensure!(
                        back.size() == expected_size,
                        "image-roundtrip:size",
                        "image {h}x{w} crop={crop:?} came back via {via} with size {:?}, expected {expected_size:?}",
                        back.size()
                    );
                    ensure!(
                        pixels(back) == expected,
                        "image-roundtrip:pixels",
                        "image {h}x{w} crop={crop:?} came back via {via} with pixels {:?}, expected {:?}",
                        pixels(back),
                        expected
                    );
                }
                ctx.feat("image.roundtrip");
                ctx.feat_if(*h == 0 || *w == 0, "image.empty");
                Ok(())
            }
            Case::Doc { kind, text, cfg } => {
                ctx.feat(&format!("doc.{kind:?}"));
                check_doc(text, cfg, ctx)
            }
        }
    }

    fn nontrivial(case: &Case) -> bool {
        match case {
            Case::Doc { text, .. } => text.len() > 2,
            Case::Image { h, w, .. } => h * w > 0,
            _ => true,
        }
    }

    fn shrink(case: &Case) -> Vec<Case> {
        match case {
            Case::ChordKeys { keys } if keys.len() > 1 => keys
                .iter()
                .map(|key| Case::ChordKeys {
                    keys: vec![key.clone()],
                })
                .collect(),
            Case::Image {
                h,
                w,
                channels,
                data,
                crop: Some(_),
                size_as_map,
                order,
            } => vec![Case::Image {
                h: *h,
                w: *w,
                channels: *channels,
                data: data.clone(),
                crop: None,
                size_as_map: *size_as_map,
                order: *order,
            }],
            _ => Vec::new(),
        }
    }

    fn rule() -> &'static str {
        "case = a face / size / chord (as keys or as text) / image (input document + optional crop) for the round trips, or one JSON document text (valid, mutated, repeated keys, random ill-typed, deeply nested) tried as image, glyph, text and view tree plus a render configuration; non-trivial = non-empty image or document longer than 2 bytes; distinct = hash of the whole case"
    }

    fn sample(case: &Case) -> serde_json::Value {
        match case {
            Case::Doc { kind, text, cfg } => serde_json::json!({
                "doc": format!("{kind:?}"),
                "text": text.chars().take(240).collect::<String>(),
                "len": text.len(),
                "cfg": cfg,
            }),
            Case::Image {
                h,
                w,
                channels,
                crop,
                ..
            } => serde_json::json!({"image": [h, w], "channels": channels, "crop": crop}),
            other => serde_json::to_value(other).unwrap_or(serde_json::Value::Null),
        }
    }
}
