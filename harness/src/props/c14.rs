//! C14 — streaming base64 codec follows RFC 4648 and round-trips under any chunking
use crate::core::{shrink_vec, Ctx, Fail, Prop, Tier};
use crate::rng::Rng;
use crate::{ensure, fail};
use serde::{Deserialize, Serialize};
use std::io::{Read, Write};
use surf_n_term::{decoder::Base64Decoder, encoder::Base64Encoder};

pub struct C14;

#[derive(Clone, Debug, Serialize, Deserialize)]
pub enum Mode {
    /// encode under `writes`, decode under `sched`/`dst`, compare with reference + original
    RoundTrip,
    /// decode reference text with `cut` trailing characters removed (len % 4 != 0): must error
    Truncated { cut: usize },
    /// decode arbitrary bytes: must not panic, must terminate
    Garbage,
}

#[derive(Clone, Debug, Serialize, Deserialize)]
pub struct Case {
    pub data: Vec<u8>,
    /// sizes of successive write calls
    pub writes: Vec<usize>,
    /// sizes returned by successive reads of the underlying reader (cycled)
    pub sched: Vec<usize>,
    /// destination buffer size, 0 = read_to_end
    pub dst: usize,
    pub mode: Mode,
    /// `flush()` is called on the encoder after the write calls with these ordinals
    #[serde(default)]
    pub flushes: Vec<usize>,
    /// the underlying writer accepts at most this many bytes per call (0 = everything)
    #[serde(default)]
    pub inner_max: usize,
    /// ordinals of reader calls that fail with `ErrorKind::Interrupted` (nothing consumed)
    #[serde(default)]
    pub interrupts: Vec<usize>,
    /// after this many `read` calls into the `dst`-sized buffer the rest is taken with `read_to_end`
    /// (0 = one entry point only)
    #[serde(default)]
    pub mix: usize,
}

/// Writer that accepts at most `max` bytes per call
struct ShortWriter {
    out: Vec<u8>,
    max: usize,
    flushes: usize,
}

impl Write for ShortWriter {
    fn write(&mut self, buf: &[u8]) -> std::io::Result<usize> {
        let n = if self.max == 0 { buf.len() } else { buf.len().min(self.max) };
        self.out.extend_from_slice(&buf[..n]);
        Ok(n)
    }
    fn flush(&mut self) -> std::io::Result<()> {
        self.flushes += 1;
        Ok(())
    }
}

/// RFC 4648 §4 alphabet, written out independently
const ALPHABET: [u8; 64] = [
    b'A', b'B', b'C', b'D', b'E', b'F', b'G', b'H', b'I', b'J', b'K', b'L', b'M', b'N', b'O', b'P',
    b'Q', b'R', b'S', b'T', b'U', b'V', b'W', b'X', b'Y', b'Z', b'a', b'b', b'c', b'd', b'e', b'f',
    b'g', b'h', b'i', b'j', b'k', b'l', b'm', b'n', b'o', b'p', b'q', b'r', b's', b't', b'u', b'v',
    b'w', b'x', b'y', b'z', b'0', b'1', b'2', b'3', b'4', b'5', b'6', b'7', b'8', b'9', b'+', b'/',
];

pub fn ref_encode(data: &[u8]) -> Vec<u8> {
    let mut out = Vec::with_capacity(data.len().div_ceil(3) * 4);
    for group in data.chunks(3) {
        let n = group.len();
        let b0 = group[0] as u32;
        let b1 = if n > 1 { group[1] as u32 } else { 0 };
        let b2 = if n > 2 { group[2] as u32 } else { 0 };
        let v = (b0 << 16) | (b1 << 8) | b2;
        out.push(ALPHABET[((v >> 18) & 63) as usize]);
        out.push(ALPHABET[((v >> 12) & 63) as usize]);
        out.push(if n > 1 {
            ALPHABET[((v >> 6) & 63) as usize]
        } else {
            b'='
        });
        out.push(if n > 2 {
            ALPHABET[(v & 63) as usize]
        } else {
            b'='
        });
    }
    out
}

/// strict RFC 4648 decoder (reference), None on malformed text
pub fn ref_decode(text: &[u8]) -> Option<Vec<u8>> {
    if text.len() % 4 != 0 {
        return None;
    }
    let val = |c: u8| ALPHABET.iter().position(|a| *a == c).map(|p| p as u32);
    let mut out = Vec::new();
    let groups = text.len() / 4;
    for (gi, g) in text.chunks(4).enumerate() {
        let last = gi + 1 == groups;
        let pad = g.iter().rev().take_while(|c| **c == b'=').count();
        if pad > 2 || (pad > 0 && !last) {
            return None;
        }
        let mut v = 0u32;
        for c in &g[..4 - pad] {
            v = (v << 6) | val(*c)?;
        }
        v <<= 6 * pad as u32;
        out.push((v >> 16) as u8);
        if pad < 2 {
            out.push((v >> 8) as u8);
        }
        if pad < 1 {
            out.push(v as u8);
        }
    }
    Some(out)
}

/// Reader that hands out at most sched[i] bytes per call
struct SchedReader<'a> {
    data: &'a [u8],
    pos: usize,
    sched: &'a [usize],
    calls: usize,
    short_reads: u64,
    interrupts: &'a [usize],
    interrupted: u64,
    sched_skip: usize,
}

impl Read for SchedReader<'_> {
    fn read(&mut self, buf: &mut [u8]) -> std::io::Result<usize> {
        let want = if self.sched.is_empty() {
            usize::MAX
        } else {
            self.sched[(self.calls - self.sched_skip) % self.sched.len()].max(1)
        };
        self.calls += 1;
        if self.interrupts.contains(&(self.calls - 1)) {
            // a signal arrived before any byte was transferred: callers are expected to retry
            self.interrupted += 1;
            // the schedule is indexed by successful calls only
            self.sched_skip += 1;
            return Err(std::io::ErrorKind::Interrupted.into());
        }
        let n = want.min(buf.len()).min(self.data.len() - self.pos);
        if n < buf.len() && self.pos + n < self.data.len() {
            self.short_reads += 1;
        }
        buf[..n].copy_from_slice(&self.data[self.pos..self.pos + n]);
        self.pos += n;
        Ok(n)
    }
}

fn decode_all(
    text: &[u8],
    sched: &[usize],
    dst: usize,
    interrupts: &[usize],
    mix: usize,
    ctx: &mut Ctx,
) -> std::io::Result<Vec<u8>> {
    let reader = SchedReader {
        data: text,
        pos: 0,
        sched,
        calls: 0,
        short_reads: 0,
        interrupts,
        interrupted: 0,
        sched_skip: 0,
    };
    let mut decoder = Base64Decoder::new(reader);
    let mut out = Vec::new();
    if dst == 0 {
        // read_to_end retries `Interrupted` itself, as every std consumer does
        decoder.read_to_end(&mut out)?;
        ctx.feat("decode.read_to_end");
    } else {
        let mut buf = vec![0u8; dst];
        // logical bound: every read either produces bytes or ends the stream
        let mut steps = 0usize;
        let mut retries = 0usize;
        loop {
            let n = match decoder.read(&mut buf) {
                Ok(n) => n,
                // a decoder may hand `Interrupted` on to its caller, who then retries (std convention)
                Err(e) if e.kind() == std::io::ErrorKind::Interrupted && retries < interrupts.len() => {
                    retries += 1;
                    continue;
                }
                Err(e) => return Err(e),
            };
            if n == 0 {
                break;
            }
            if mix > 0 && steps + 1 >= mix {
                // switch entry points in mid-stream: the rest through read_to_end
                if n > dst {
                    return Err(std::io::Error::other("read returned more than buffer"));
                }
                out.extend_from_slice(&buf[..n]);
                decoder.read_to_end(&mut out)?;
                ctx.feat("decode.read-then-read_to_end");
                return Ok(out);
            }
            if n > dst {
                return Err(std::io::Error::other("read returned more than buffer"));
            }
            out.extend_from_slice(&buf[..n]);
            steps += 1;
            if steps > text.len() + 8 {
                return Err(std::io::Error::other("decoder does not terminate"));
            }
        }
        // once exhausted it must stay exhausted
        if decoder.read(&mut buf)? != 0 {
            return Err(std::io::Error::other("data after end of stream"));
        }
    }
    Ok(out)
}

impl Prop for C14 {
    type Case = Case;
    const ID: &'static str = "C14";

    fn default_cases(tier: Tier, flavour: &str) -> u64 {
        match (tier, flavour) {
            (_, "miri") => tier.pick(400, 4_000),
            (Tier::Quick, _) => 120_000,
            (Tier::Thorough, "asan") => 1_000_000,
            (Tier::Thorough, _) => 12_000_000,
        }
    }

    fn gen(rng: &mut Rng, tier: Tier, index: u64) -> Case {
        // every length 0..=200 is visited in turn, then lengths around the 48/64/4096 boundaries
        let special = [
            45, 46, 47, 48, 49, 50, 62, 63, 64, 65, 66, 95, 96, 97, 127, 128, 129, 191, 192, 193,
            255, 256, 257, 4093, 4094, 4095, 4096, 4097, 4098, 4099,
        ];
        // Miri interprets ~10^4 times slower: keep its inputs short
        let tier = if cfg!(miri) { Tier::Quick } else { tier };
        let max_special = if tier.quick() { 257 } else { 5000 };
        let len = match index % 4 {
            0 | 1 => (index / 4 % 201) as usize,
            2 => {
                let l = special[rng.below(special.len())];
                if l > max_special {
                    rng.range(0, 300)
                } else {
                    l
                }
            }
            _ => rng.range(0, if tier.quick() { 300 } else { 1500 }),
        };
        let data = match rng.below(6) {
            0 => vec![0u8; len],
            1 => vec![0xffu8; len],
            _ => rng.bytes(len),
        };
        let writes = match rng.below(5) {
            0 => vec![len],
            1 => vec![1; len],
            2 => vec![3; len.div_ceil(3)],
            _ => rng.partition(len),
        };
        let sched = match rng.below(8) {
            0 => vec![],
            1 => vec![1],
            2 => vec![2],
            3 => vec![3],
            4 => vec![4],
            5 => vec![5],
            6 => vec![*rng.pick(&[63usize, 64, 65])],
            _ => (0..rng.range(1, 6)).map(|_| rng.range(1, 9)).collect(),
        };
        let dst = match rng.below(6) {
            0 => 0,
            1 => 1,
            2 => rng.range(2, 5),
            3 => *rng.pick(&[47usize, 48, 49, 63, 64, 65]),
            _ => rng.range(1, 200),
        };
        let mode = match rng.below(10) {
            0 if len > 0 => Mode::Truncated {
                cut: rng.range(1, 3),
            },
            1 => Mode::Garbage,
            _ => Mode::RoundTrip,
        };
        // "arbitrary bytes" that stay close to the grammar: alphabet characters and padding in every
        // position (uniform random bytes almost never form an aligned group made of '=' only)
        let data = if matches!(mode, Mode::Garbage) && rng.chance(2, 3) {
            let groups = len.div_ceil(4).max(1);
            let mut text = Vec::with_capacity(groups * 4);
            for _ in 0..groups {
                let group: [u8; 4] = match rng.below(8) {
                    0 => *b"====",
                    1 => *b"A===",
                    2 => *b"=AAA",
                    3 => *b"AA=A",
                    4 => *b"AA==",
                    5 => *b"AAA=",
                    _ => [
                        ALPHABET[rng.below(64)],
                        ALPHABET[rng.below(64)],
                        if rng.chance(1, 6) { b'=' } else { ALPHABET[rng.below(64)] },
                        if rng.chance(1, 4) { b'=' } else { ALPHABET[rng.below(64)] },
                    ],
                };
                text.extend_from_slice(&group);
            }
            if rng.chance(1, 4) {
                text.truncate(text.len() - rng.range(1, 3));
            }
            if rng.chance(1, 6) && !text.is_empty() {
                let at = rng.below(text.len());
                text[at] = *rng.pick(&[b'-', b'_', b' ', b'\n', 0u8, 0xffu8]);
            }
            text
        } else {
            data
        };
        // flush() between write calls, a writer that takes few bytes per call, and a reader that is
        // interrupted by signals: all legitimate behaviours of the io traits the codec is written against
        let flushes = match rng.below(4) {
            0 => (0..rng.range(1, 4)).map(|_| rng.below(writes.len().max(1))).collect(),
            1 if rng.bool() => (0..writes.len()).collect(),
            _ => vec![],
        };
        let inner_max = match rng.below(5) {
            0 => 1,
            1 => rng.range(2, 7),
            _ => 0,
        };
        let text_len = len.div_ceil(3) * 4;
        let interrupts = match rng.below(4) {
            0 => (0..rng.range(1, 4)).map(|_| rng.below(text_len.max(1) + 2)).collect(),
            1 => (0..rng.range(1, 6)).map(|_| rng.below(12)).collect(),
            _ => vec![],
        };
        Case {
            data,
            writes,
            sched,
            dst,
            mode,
            flushes,
            inner_max,
            interrupts,
            mix: if dst != 0 && rng.chance(1, 4) { rng.range(1, 4) } else { 0 },
        }
    }

    fn check(case: &Case, ctx: &mut Ctx) -> Result<(), Fail> {
        match case.mode {
            Mode::RoundTrip => {
                let expected = ref_encode(&case.data);
                // encode under the write partition
                let mut enc = Base64Encoder::new(ShortWriter {
                    out: Vec::new(),
                    max: case.inner_max,
                    flushes: 0,
                });
                let mut pos = 0;
                let mut mid_group_flush = false;
                for (ordinal, w) in case.writes.iter().enumerate() {
                    let end = (pos + w).min(case.data.len());
                    let mut chunk = &case.data[pos..end];
                    // honour the Write contract: short writes are retried
                    let mut guard = 0;
                    while !chunk.is_empty() {
                        let n = enc
                            .write(chunk)
                            .map_err(|e| Fail::new("enc-io-error", format!("{e}")))?;
                        ensure!(n <= chunk.len(), "enc-write-overreport", "write returned {n} > {}", chunk.len());
                        ensure!(n > 0, "enc-write-zero", "write of {} bytes accepted 0", chunk.len());
                        chunk = &chunk[n..];
                        guard += 1;
                        ensure!(guard <= case.data.len() + 1, "enc-no-progress", "encoder write loop");
                    }
                    pos = end;
                    if case.flushes.contains(&ordinal) {
                        enc.flush()
                            .map_err(|e| Fail::new("enc-io-error", format!("flush: {e}")))?;
                        mid_group_flush |= pos % 3 != 0 && pos < case.data.len();
                    }
                }
                if pos < case.data.len() {
                    enc.write_all(&case.data[pos..])
                        .map_err(|e| Fail::new("enc-io-error", format!("{e}")))?;
                }
                let got = enc
                    .finish()
                    .map_err(|e| Fail::new("enc-io-error", format!("{e}")))?
                    .out;
                ctx.feat_if(mid_group_flush, "enc.flush-inside-group");
                ctx.feat_if(case.inner_max > 0 && !case.data.is_empty(), "enc.inner-short-writes");
                ensure!(
                    got == expected,
                    format!("enc-mismatch:len%3={}", case.data.len() % 3),
                    "encoder output differs from RFC 4648: data_len={} writes={:?} flushes={:?} inner_max={} got={:?} expected={:?}",
                    case.data.len(),
                    &case.writes[..case.writes.len().min(12)],
                    &case.flushes[..case.flushes.len().min(12)],
                    case.inner_max,
                    String::from_utf8_lossy(&got[got.len().saturating_sub(12)..]),
                    String::from_utf8_lossy(&expected[expected.len().saturating_sub(12)..])
                );
                ctx.feat(&format!("enc.len%3={}", case.data.len() % 3));
                ctx.feat_if(case.writes.len() > 1, "enc.multi-write");
                // decode the *reference* text so a wrong encoder cannot mask a wrong decoder
                let back = decode_all(&expected, &case.sched, case.dst, &case.interrupts, case.mix, ctx).map_err(|e| {
                    Fail::new(
                        "dec-error-on-valid",
                        format!(
                            "decoder reported error on valid text: {e}; text_len={} sched={:?} dst={} interrupts={:?}",
                            expected.len(),
                            case.sched,
                            case.dst,
                            case.interrupts
                        ),
                    )
                })?;
                ensure!(
                    back == case.data,
                    "dec-mismatch",
                    "decoded bytes differ: text_len={} sched={:?} dst={} interrupts={:?} got_len={} want_len={}",
                    expected.len(),
                    case.sched,
                    case.dst,
                    case.interrupts,
                    back.len(),
                    case.data.len()
                );
                let short = case.sched.iter().any(|s| *s < 4);
                ctx.feat_if(short && !case.data.is_empty(), "dec.short-reads");
                ctx.feat_if(case.dst == 1, "dec.dst=1");
                // an interruption right after a short read that ended inside a 4-character group
                ctx.feat_if(
                    short && case.interrupts.iter().any(|i| *i > 0 && *i < expected.len()),
                    "dec.interrupted-inside-group",
                );
                ctx.feat_if(case.data.len() > 48, "dec.beyond-internal-buffer");
                Ok(())
            }
            Mode::Truncated { cut } => {
                let mut text = ref_encode(&case.data);
                if text.is_empty() {
                    return Ok(());
                }
                let cut = cut.clamp(1, 3);
                text.truncate(text.len() - cut);
                debug_assert!(text.len() % 4 != 0);
                ctx.feat("dec.truncated");
                match decode_all(&text, &case.sched, case.dst, &case.interrupts, case.mix, ctx) {
                    Err(_) => Ok(()),
                    Ok(out) => fail!(
                        "dec-truncated-accepted",
                        "text of length {} (not a multiple of 4) decoded without error to {} bytes; sched={:?} dst={}",
                        text.len(),
                        out.len(),
                        case.sched,
                        case.dst
                    ),
                }
            }
            Mode::Garbage => {
                ctx.feat("dec.garbage");
                // totality only: Ok or Err, termination bounded inside decode_all
                match decode_all(&case.data, &case.sched, case.dst, &case.interrupts, case.mix, ctx) {
                    Ok(out) => {
                        ensure!(
                            out.len() <= case.data.len() / 4 * 3 + 3,
                            "dec-garbage-too-long",
                            "decoded {} bytes from {} input bytes",
                            out.len(),
                            case.data.len()
                        );
                        if case.data.len() % 4 != 0 {
                            fail!(
                                "dec-truncated-accepted",
                                "arbitrary text of length {} (not a multiple of 4) decoded without error",
                                case.data.len()
                            )
                        }
                        // where the strict reference accepts, results must agree
                        if let Some(reference) = ref_decode(&case.data) {
                            ensure!(out == reference, "dec-mismatch", "valid text decoded differently");
                        }
                        Ok(())
                    }
                    Err(e) => {
                        let msg = e.to_string();
                        ensure!(
                            !msg.contains("does not terminate") && !msg.contains("more than buffer") && !msg.contains("after end"),
                            "dec-protocol",
                            "{msg}"
                        );
                        Ok(())
                    }
                }
            }
        }
    }

    fn nontrivial(case: &Case) -> bool {
        !case.data.is_empty()
    }

    fn shrink(case: &Case) -> Vec<Case> {
        let mut out = Vec::new();
        for data in shrink_vec(&case.data) {
            out.push(Case {
                writes: vec![data.len()],
                data,
                ..case.clone()
            });
        }
        if case.writes.len() > 1 {
            out.push(Case {
                writes: vec![case.data.len()],
                ..case.clone()
            });
        }
        if !case.flushes.is_empty() {
            out.push(Case { flushes: vec![], ..case.clone() });
            for f in case.flushes.iter() {
                out.push(Case { flushes: vec![*f], ..case.clone() });
            }
        }
        if case.inner_max != 0 {
            out.push(Case { inner_max: 0, ..case.clone() });
        }
        if !case.interrupts.is_empty() {
            out.push(Case { interrupts: vec![], ..case.clone() });
            for i in case.interrupts.iter() {
                out.push(Case { interrupts: vec![*i], ..case.clone() });
            }
        }
        if case.sched.len() > 1 {
            for s in case.sched.iter() {
                out.push(Case {
                    sched: vec![*s],
                    ..case.clone()
                });
            }
        }
        if case.data.iter().any(|b| *b != 0) {
            out.push(Case {
                data: vec![0; case.data.len()],
                ..case.clone()
            });
        }
        out
    }

    fn rule() -> &'static str {
        "case = (bytes, write partition, flush points, inner-writer acceptance limit, reader read-size schedule, reader interruption points, destination buffer size, mode); lengths 0..=200 visited round-robin plus 48/64/4096 boundaries; non-trivial = non-empty data; distinct = hash of the whole case"
    }

    fn sample(case: &Case) -> serde_json::Value {
        serde_json::json!({
            "data_len": case.data.len(),
            "data_head": &case.data[..case.data.len().min(8)],
            "writes": &case.writes[..case.writes.len().min(10)],
            "sched": case.sched,
            "dst": case.dst,
            "flushes": &case.flushes[..case.flushes.len().min(10)],
            "inner_max": case.inner_max,
            "interrupts": &case.interrupts[..case.interrupts.len().min(10)],
            "mix": case.mix,
            "mode": format!("{:?}", case.mode),
        })
    }
}
