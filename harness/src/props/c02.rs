//! C02 — input decoding is total and yields well-formed events
use super::dec_common::*;
use crate::core::{shrink_vec, Ctx, Fail, Prop, Tier};
use crate::rng::Rng;
use crate::{ensure, fail};
use serde::{Deserialize, Serialize};
use surf_n_term::{
    terminal::Mouse, Color, DecMode, DecModeStatus, Key, KeyName, TerminalColor, TerminalCommand, TerminalEvent,
};

pub struct C02;

/// A single protocol sequence whose decimal parameters the monitor knows as text, used for
/// the "numeric fields never wrap around or underflow" clause
#[derive(Clone, Debug, Serialize, Deserialize, Hash)]
pub enum Probe {
    Cpr { r: String, c: String },
    Mouse { b: String, x: String, y: String, press: bool },
    Size { ch: String, cw: String, ph: String, pw: String },
    KbdLevel { n: String },
    KittyImage { i: String, p: Option<String> },
    Da1 { attrs: Vec<String> },
    /// role 38/48/58; form 0 = `;`, 1 = `:`, 2 = `:` with empty colour-space id
    SgrRgb { role: u8, form: u8, r: String, g: String, b: String },
    SgrIdx { role: u8, colon: bool, n: String },
    Osc4 { n: String },
    KittyKey { code: String, mods: Option<String> },
    DecRpm { mode: String, status: String },
}

#[derive(Clone, Debug, Serialize, Deserialize, Hash)]
pub struct Case {
    pub target: Target,
    pub input: Vec<u8>,
    pub cuts: Vec<usize>,
    pub probe: Option<Probe>,
}

fn parse_big(s: &str) -> Option<u128> {
    if s.is_empty() || s.len() > 38 {
        // leading zeros can make a small number long
        let t = s.trim_start_matches('0');
        if s.is_empty() {
            return None;
        }
        if t.len() > 38 {
            return Some(u128::MAX);
        }
        return Some(t.parse().unwrap_or(0));
    }
    s.parse().ok()
}

/// Is `field` an acceptable rendering of decimal text `param`: exact, or clamped to the type's
/// range (saturated at `max`, floored at 0 for one-based coordinates)
fn acceptable(field: u128, param: &str, one_based: bool, max: u128) -> bool {
    let Some(v) = parse_big(param) else {
        return true; // empty parameter: the meaning is left open
    };
    if v > max {
        // out of range: clamped; for one-based coordinates the clamp may happen before or
        // after the conversion to zero-based
        return field == max || (one_based && field == max - 1);
    }
    let exact = if one_based { v.saturating_sub(1) } else { v };
    field == exact
}

impl Probe {
    fn gen(rng: &mut Rng) -> Probe {
        let n = |rng: &mut Rng| hostile_number(rng);
        match rng.below(11) {
            0 => Probe::Cpr { r: n(rng), c: n(rng) },
            1 => Probe::Mouse {
                b: if rng.bool() { small_number(rng) } else { n(rng) },
                x: n(rng),
                y: n(rng),
                press: rng.bool(),
            },
            2 => Probe::Size { ch: n(rng), cw: n(rng), ph: n(rng), pw: n(rng) },
            3 => Probe::KbdLevel { n: n(rng) },
            4 => Probe::KittyImage {
                i: n(rng),
                p: if rng.bool() { Some(n(rng)) } else { None },
            },
            5 => Probe::Da1 {
                attrs: (0..rng.range(1, 4)).map(|_| n(rng)).collect(),
            },
            6 => Probe::SgrRgb {
                role: *rng.pick(&[38u8, 48, 58]),
                form: rng.below(3) as u8,
                r: n(rng),
                g: n(rng),
                b: n(rng),
            },
            7 => Probe::SgrIdx {
                role: *rng.pick(&[38u8, 48, 58]),
                colon: rng.bool(),
                n: n(rng),
            },
            8 => Probe::Osc4 { n: n(rng) },
            9 => Probe::KittyKey {
                code: match rng.below(4) {
                    0 => n(rng),
                    1 => rng.range(0xd7f0, 0xe010).to_string(),
                    2 => rng.range(0x10fff0, 0x110010).to_string(),
                    _ => rng.range(0, 0x20000).to_string(),
                },
                mods: if rng.bool() { Some(small_number(rng)) } else { None },
            },
            _ => Probe::DecRpm {
                mode: if rng.bool() {
                    rng.pick_str(&["25", "7", "80", "1000", "1003", "1006", "1049", "2026", "2004"]).to_string()
                } else {
                    n(rng)
                },
                status: if rng.bool() { rng.below(6).to_string() } else { n(rng) },
            },
        }
    }

    fn bytes(&self) -> Vec<u8> {
        match self {
            Probe::Cpr { r, c } => format!("\x1b[{r};{c}R"),
            Probe::Mouse { b, x, y, press } => {
                format!("\x1b[<{b};{x};{y}{}", if *press { 'M' } else { 'm' })
            }
            Probe::Size { ch, cw, ph, pw } => format!("\x1b[8;{ch};{cw}t\x1b[4;{ph};{pw}t"),
            Probe::KbdLevel { n } => format!("\x1b[?{n}u"),
            Probe::KittyImage { i, p } => match p {
                Some(p) => format!("\x1b_Gi={i},p={p};OK\x1b\\"),
                None => format!("\x1b_Gi={i};OK\x1b\\"),
            },
            Probe::Da1 { attrs } => format!("\x1b[?{}c", attrs.join(";")),
            Probe::SgrRgb { role, form, r, g, b } => match form {
                0 => format!("\x1b[{role};2;{r};{g};{b}m"),
                1 => format!("\x1b[{role}:2:{r}:{g}:{b}m"),
                _ => format!("\x1b[{role}:2::{r}:{g}:{b}m"),
            },
            Probe::SgrIdx { role, colon, n } => {
                if *colon {
                    format!("\x1b[{role}:5:{n}m")
                } else {
                    format!("\x1b[{role};5;{n}m")
                }
            }
            Probe::Osc4 { n } => format!("\x1b]4;{n};rgb:12/34/56\x1b\\"),
            Probe::KittyKey { code, mods } => match mods {
                Some(m) => format!("\x1b[{code};{m}u"),
                None => format!("\x1b[{code}u"),
            },
            Probe::DecRpm { mode, status } => format!("\x1b[?{mode};{status}$y"),
        }
        .into_bytes()
    }

    fn family(&self) -> &'static str {
        match self {
            Probe::Cpr { .. } => "cpr",
            Probe::Mouse { .. } => "mouse",
            Probe::Size { .. } => "size",
            Probe::KbdLevel { .. } => "kbdlevel",
            Probe::KittyImage { .. } => "kitty-image",
            Probe::Da1 { .. } => "da1",
            Probe::SgrRgb { .. } => "sgr-rgb",
            Probe::SgrIdx { .. } => "sgr-idx",
            Probe::Osc4 { .. } => "osc4",
            Probe::KittyKey { .. } => "kitty-key",
            Probe::DecRpm { .. } => "decrpm",
        }
    }

    /// Check the numeric fields of every event of this family against the transmitted text
    fn verify(&self, events: &[TerminalEvent], ctx: &mut Ctx) -> Result<(), Fail> {
        let umax = usize::MAX as u128;
        let fam = self.family();
        let mut seen = false;
        for ev in events {
            match (self, ev) {
                (Probe::Cpr { r, c }, TerminalEvent::CursorPosition(pos)) => {
                    seen = true;
                    ensure!(
                        acceptable(pos.row as u128, r, true, umax) && acceptable(pos.col as u128, c, true, umax),
                        "wrap:cpr",
                        "CSI {r};{c}R decoded to row={} col={} (neither the transmitted value minus one nor a clamp)",
                        pos.row,
                        pos.col
                    );
                }
                (Probe::Mouse { x, y, .. }, TerminalEvent::Mouse(Mouse { pos, .. })) => {
                    seen = true;
                    ensure!(
                        acceptable(pos.row as u128, y, true, umax) && acceptable(pos.col as u128, x, true, umax),
                        "wrap:mouse",
                        "SGR mouse x={x} y={y} decoded to row={} col={}",
                        pos.row,
                        pos.col
                    );
                }
                (Probe::Size { ch, cw, ph, pw }, TerminalEvent::Size(size)) => {
                    seen = true;
                    ensure!(
                        acceptable(size.cells.height as u128, ch, false, umax)
                            && acceptable(size.cells.width as u128, cw, false, umax)
                            && acceptable(size.pixels.height as u128, ph, false, umax)
                            && acceptable(size.pixels.width as u128, pw, false, umax),
                        "wrap:size",
                        "size report {ch};{cw} / {ph};{pw} decoded to {size:?}"
                    );
                }
                (Probe::KbdLevel { n }, TerminalEvent::KeyboardLevel(level)) => {
                    seen = true;
                    ensure!(
                        acceptable(*level as u128, n, false, umax),
                        "wrap:kbdlevel",
                        "CSI ?{n}u decoded to level {level}"
                    );
                }
                (Probe::KittyImage { i, p }, TerminalEvent::KittyImage { id, placement, .. }) => {
                    seen = true;
                    ensure!(
                        acceptable(*id as u128, i, false, u64::MAX as u128),
                        "wrap:kitty-image",
                        "kitty response i={i} decoded to id {id}"
                    );
                    if let (Some(p), Some(pl)) = (p, placement) {
                        ensure!(
                            acceptable(*pl as u128, p, false, u64::MAX as u128),
                            "wrap:kitty-image",
                            "kitty response p={p} decoded to placement {pl}"
                        );
                    }
                }
                (Probe::Da1 { attrs }, TerminalEvent::DeviceAttrs(set)) => {
                    seen = true;
                    for e in set {
                        ensure!(
                            attrs.iter().any(|a| !a.is_empty() && acceptable(*e as u128, a, false, umax)),
                            "wrap:da1",
                            "DA1 attributes {attrs:?} decoded to a set containing {e}"
                        );
                    }
                }
                (Probe::SgrRgb { role, r, g, b, .. }, TerminalEvent::Command(TerminalCommand::FaceModify(m))) => {
                    seen = true;
                    let col = match role {
                        38 => m.fg,
                        48 => m.bg,
                        _ => m.underline_color,
                    };
                    if let Some(col) = col {
                        let [cr, cg, cb, ca] = col.to_rgba();
                        ensure!(
                            acceptable(cr as u128, r, false, 255)
                                && acceptable(cg as u128, g, false, 255)
                                && acceptable(cb as u128, b, false, 255)
                                && ca == 255,
                            "wrap:sgr-rgb",
                            "SGR {role};2;{r};{g};{b} decoded to colour {cr},{cg},{cb},{ca}"
                        );
                    }
                }
                (Probe::SgrIdx { role, n, .. }, TerminalEvent::Command(TerminalCommand::FaceModify(m))) => {
                    seen = true;
                    let col = match role {
                        38 => m.fg,
                        48 => m.bg,
                        _ => m.underline_color,
                    };
                    if let (Some(col), Some(v)) = (col, parse_big(n)) {
                        let idx = v.min(255) as usize;
                        let want = crate::models::palette::xterm256(idx);
                        let [cr, cg, cb, _] = col.to_rgba();
                        ensure!(
                            [cr, cg, cb] == want,
                            "wrap:sgr-idx",
                            "SGR {role};5;{n} decoded to {cr},{cg},{cb}, palette entry {idx} is {want:?}"
                        );
                    }
                }
                (Probe::Osc4 { n }, TerminalEvent::Color { name: TerminalColor::Palette(idx), .. }) => {
                    seen = true;
                    ensure!(
                        acceptable(*idx as u128, n, false, umax),
                        "wrap:osc4",
                        "OSC 4;{n} decoded to palette index {idx}"
                    );
                }
                (Probe::KittyKey { code, .. }, TerminalEvent::Key(Key { name, .. })) => {
                    seen = true;
                    let Some(v) = parse_big(code) else { continue };
                    let ok = match name {
                        KeyName::Char(c) => *c as u32 as u128 == v,
                        KeyName::Esc => v == 27,
                        KeyName::Enter => v == 13,
                        KeyName::Tab => v == 9,
                        KeyName::Backspace => v == 127,
                        KeyName::F(k) => (57376..=57398).contains(&v) && *k as u128 == v - 57376 + 13,
                        _ => true,
                    };
                    ensure!(ok, "wrap:kitty-key", "CSI {code} u decoded to key {name:?}");
                }
                (Probe::DecRpm { mode, status }, TerminalEvent::DecMode { mode: m, status: s }) => {
                    seen = true;
                    let m: DecMode = *m;
                    let s: DecModeStatus = *s;
                    ensure!(
                        parse_big(mode) == Some(m as usize as u128) && parse_big(status) == Some(s as usize as u128),
                        "wrap:decrpm",
                        "DECRPM ?{mode};{status}$y decoded to {m:?}/{s:?}"
                    );
                }
                _ => {}
            }
        }
        ctx.feat(&format!("probe.{fam}.{}", if seen { "decoded" } else { "not-recognised" }));
        Ok(())
    }
}

fn valid_char(c: char) -> bool {
    let u = std::hint::black_box(c as u32);
    u < 0xd800 || (0xe000..=0x10ffff).contains(&u)
}

/// Well-formedness of the event list with respect to the input
fn well_formed_events(input: &[u8], events: &[TerminalEvent], ctx: &mut Ctx) -> Result<(), Fail> {
    let mut cursor = 0usize;
    for ev in events {
        match ev {
            TerminalEvent::Key(Key { name: KeyName::Char(c), .. }) => {
                ensure!(valid_char(*c), "invalid-char:event", "key event carries invalid char U+{:X}", *c as u32);
            }
            TerminalEvent::Command(TerminalCommand::Char(c)) => {
                ensure!(valid_char(*c), "invalid-char:event", "command event carries invalid char U+{:X}", *c as u32);
            }
            TerminalEvent::Raw(raw) => {
                ensure!(!raw.is_empty(), "raw:empty", "empty Raw event");
                let found = find_from(input, raw, cursor);
                match found {
                    Some(pos) => cursor = pos + raw.len(),
                    None => fail!(
                        "raw:not-in-input-order",
                        "Raw({}) does not occur in the input at or after offset {cursor}; input={}",
                        esc(raw),
                        esc(input)
                    ),
                }
                ctx.feat("event.raw");
            }
            TerminalEvent::Paste(text) => {
                ensure!(text.chars().all(valid_char), "invalid-char:paste", "paste text has invalid char");
                ctx.feat("event.paste");
            }
            _ => {}
        }
    }
    Ok(())
}

fn find_from(hay: &[u8], needle: &[u8], from: usize) -> Option<usize> {
    if needle.len() > hay.len() {
        return None;
    }
    (from..=hay.len() - needle.len()).find(|i| &hay[*i..*i + needle.len()] == needle)
}

impl Prop for C02 {
    type Case = Case;
    const ID: &'static str = "C02";

    fn default_cases(tier: Tier, flavour: &str) -> u64 {
        match (tier, flavour) {
            (_, "miri") => tier.pick(64, 2_000),
            (Tier::Quick, _) => 600_000,
            (Tier::Thorough, "asan") => 3_000_000,
            (Tier::Thorough, _) => 40_000_000,
        }
    }

    fn gen(rng: &mut Rng, tier: Tier, _index: u64) -> Case {
        if cfg!(miri) {
            // the event automaton is out of Miri's reach (30+ min to build): Utf8Decoder only
            let mut input = Vec::new();
            for _ in 0..rng.range(1, 6) {
                input.extend(hostile_utf8(rng));
            }
            let cuts = rng.partition(input.len());
            return Case { target: Target::Utf8, input, cuts, probe: None };
        }
        let max_len = if tier.quick() {
            64
        } else {
            *rng.pick(&[16usize, 64, 64, 256, 4096])
        };
        if rng.chance(1, 4) {
            let probe = Probe::gen(rng);
            let mut input = Vec::new();
            // surrounding keys would be mistaken for the probe's own Key event
            let plain = !matches!(probe, Probe::KittyKey { .. });
            if plain && rng.chance(1, 3) {
                input.extend_from_slice(rng.pick_str(&["a", "xy", "\u{e9}"]).as_bytes());
            }
            input.extend(probe.bytes());
            if plain && rng.chance(1, 3) {
                input.push(b'z');
            }
            let cuts = match rng.below(3) {
                0 => vec![],
                1 => vec![1; input.len()],
                _ => rng.partition(input.len()),
            };
            return Case { target: Target::Event, input, cuts, probe: Some(probe) };
        }
        // very long string sequences (beyond 64 KiB) with non-ASCII and malformed payload bytes
        if rng.chance(1, 1500) {
            let mut input: Vec<u8> = Vec::new();
            input.extend_from_slice(*rng.pick(&[&b"\x1b]52;"[..], b"\x1b[200~", b"\x1bP1+r", b"\x1b_G"]));
            let want = *rng.pick(&[65_530usize, 65_536, 65_537, 66_000, 70_000]);
            while input.len() < want {
                let unit = hostile_utf8(rng);
                if !unit.contains(&0x1b) {
                    input.extend(unit);
                }
            }
            if rng.chance(3, 4) {
                input.extend_from_slice(*rng.pick(&[&b"\x1b\\"[..], b"\x07", b"\x1b[201~"]));
            }
            input.extend_from_slice(b"z");
            let cuts = if rng.bool() { vec![] } else { vec![4096; input.len() / 4096 + 1] };
            return Case { target: Target::Event, input, cuts, probe: None };
        }
        let target = match rng.below(6) {
            0 => Target::Utf8,
            1 | 2 => Target::Command,
            _ => Target::Event,
        };
        let input = if target == Target::Utf8 {
            let mut v = Vec::new();
            let n = rng.range(1, 24);
            for _ in 0..n {
                if rng.chance(1, 6) {
                    v.push(rng.next_u8());
                } else {
                    v.extend(hostile_utf8(rng));
                }
            }
            v
        } else {
            hostile_stream(rng, max_len)
        };
        let cuts = match rng.below(4) {
            0 => vec![],
            1 => vec![1; input.len()],
            _ => rng.partition(input.len()),
        };
        Case { target, input, cuts, probe: None }
    }

    fn check(case: &Case, ctx: &mut Ctx) -> Result<(), Fail> {
        ctx.feat_if(case.cuts.len() > 1, "chunked");
        ctx.feat_if(case.cuts.iter().any(|c| *c == 0), "empty-read");
        match case.target {
            Target::Event => {
                let events = run_event(&case.input, &case.cuts)?;
                ctx.feat_n("events", events.len() as u64);
                well_formed_events(&case.input, &events, ctx)?;
                if let Some(probe) = &case.probe {
                    probe.verify(&events, ctx)?;
                }
            }
            Target::Command => {
                let cmds = run_command(&case.input, &case.cuts)?;
                ctx.feat_n("commands", cmds.len() as u64);
                let mut cursor = 0;
                for cmd in &cmds {
                    match cmd {
                        TerminalCommand::Char(c) => {
                            ensure!(valid_char(*c), "invalid-char:command", "command decoder produced invalid char U+{:X}", *c as u32)
                        }
                        TerminalCommand::Raw(raw) => {
                            ensure!(!raw.is_empty(), "raw:empty", "empty Raw command");
                            match find_from(&case.input, raw, cursor) {
                                Some(pos) => cursor = pos + raw.len(),
                                None => fail!(
                                    "raw:not-in-input-order",
                                    "Raw({}) does not occur in the input at or after offset {cursor}",
                                    esc(raw)
                                ),
                            }
                        }
                        _ => {}
                    }
                }
            }
            Target::Utf8 => {
                let chars = run_utf8(&case.input, &case.cuts)?;
                for c in chars.iter().flatten() {
                    ensure!(valid_char(*c), "invalid-char:utf8", "Utf8Decoder produced invalid char U+{:X}", *c as u32);
                }
                ctx.feat_n("utf8.errors", chars.iter().filter(|c| c.is_err()).count() as u64);
                ctx.feat_n("utf8.chars", chars.iter().filter(|c| c.is_ok()).count() as u64);
            }
        }
        Ok(())
    }

    fn nontrivial(case: &Case) -> bool {
        case.input.len() >= 2
    }

    fn case_hash(case: &Case) -> u64 {
        use std::hash::{Hash, Hasher};
        let mut h = std::collections::hash_map::DefaultHasher::new();
        case.hash(&mut h);
        h.finish()
    }

    fn shrink(case: &Case) -> Vec<Case> {
        let mut out = Vec::new();
        if case.probe.is_some() {
            let probe = case.probe.clone().unwrap();
            out.push(Case { input: probe.bytes(), cuts: vec![], ..case.clone() });
            return out;
        }
        if !case.cuts.is_empty() {
            out.push(Case { cuts: vec![], ..case.clone() });
        }
        for input in shrink_vec(&case.input) {
            out.push(Case { input, cuts: vec![], ..case.clone() });
        }
        out
    }

    fn rule() -> &'static str {
        "case = (decoder, byte string, read partition[, probe with decimal parameters as text]); streams mix uniform bytes, protocol-fragment soup and grammar-aware sequences with hostile parameters; non-trivial = at least 2 input bytes; distinct = hash of the whole case"
    }

    fn sample(case: &Case) -> serde_json::Value {
        serde_json::json!({
            "target": format!("{:?}", case.target),
            "input": esc(&case.input),
            "cuts": &case.cuts[..case.cuts.len().min(12)],
            "probe": case.probe.as_ref().map(|p| format!("{p:?}")),
        })
    }
}
