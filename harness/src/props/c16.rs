//! C16 — terminal output is delivered in order, exactly once, and frames are never torn
//!
//! (queue)    IOQueue public methods against a byte-deque model
//! (terminal) the real SystemTerminal on a pseudo-terminal whose master side is drained by a
//!            scripted peer; the received bytes are parsed by chunk headers
use super::pty::{find, Drain, Peer, Pty};
use crate::core::{shrink_vec, Ctx, Fail, Prop, Tier};
use crate::rng::Rng;
use crate::{ensure, fail};
use serde::{Deserialize, Serialize};
use std::{
    collections::VecDeque,
    io::{BufRead, Read, Write},
    time::Duration,
};
use surf_n_term::{
    common::IOQueue,
    encoder::{Encoder, TTYEncoder},
    unix_verif::{self, IoEvent},
    Position, SystemTerminal, Terminal, TerminalCommand,
};

pub struct C16;

/// set by `setup` for the slow instrumented flavours: only terminal sessions are generated
static TERM_ONLY: std::sync::atomic::AtomicBool = std::sync::atomic::AtomicBool::new(false);

#[derive(Clone, Debug, PartialEq, Eq, Hash, Serialize, Deserialize)]
pub enum QOp {
    Write(usize),
    Flush,
    Read(usize),
    /// consume(min(k, |as_slice|))
    Consume(usize),
    ConsumeWith(usize),
    FillBufConsume(usize),
    ClearButLast,
}

#[derive(Clone, Debug, PartialEq, Eq, Hash, Serialize, Deserialize)]
pub enum Part {
    Payload(usize),
    CursorTo(usize, usize),
    EraseChars(usize),
    Title(usize),
    /// `execute(TerminalCommand::Raw(bytes))` with this many bytes
    Raw(usize),
}

#[derive(Clone, Debug, PartialEq, Eq, Hash, Serialize, Deserialize)]
pub enum SOp {
    /// one flush-delimited chunk: header + parts, ended by flush (poll_ms = None) or by a poll
    Chunk { parts: Vec<Part>, poll_ms: Option<u64> },
    Poll(u64),
    FramesDrop,
    /// let the peer drain for a while (logical: until its buffer is idle for `us`)
    Pause(u64),
    /// the application drops the terminal here, with whatever is still queued (ends the script)
    DropTerminal,
    /// this many 64 KiB frames are written and flushed without a poll in between (a terminal that is
    /// far behind: nothing may be discarded on the library's own initiative)
    Backlog(usize),
}

#[derive(Clone, Debug, PartialEq, Eq, Hash, Serialize, Deserialize)]
pub enum DrainSpec {
    Fast,
    Slow { max_read: usize, pause_us: u64 },
    Bursty { burst: usize, pause_us: u64 },
}

#[derive(Clone, Debug, Hash, Serialize, Deserialize)]
pub enum Case {
    Queue { ops: Vec<QOp> },
    Term { script: Vec<SOp>, drain: DrainSpec, seed: u64 },
}

// ---------------------------------------------------------------------------
// queue model

#[derive(Default)]
struct QModel {
    chunks: VecDeque<Vec<u8>>,
    offset: usize,
    next: u8,
}

impl QModel {
    fn front(&self) -> &[u8] {
        match self.chunks.front() {
            Some(c) => &c[self.offset..],
            None => &[],
        }
    }
    fn remaining(&self) -> usize {
        self.chunks.iter().map(|c| c.len()).sum::<usize>() - self.offset
    }
    fn bytes(&self) -> Vec<u8> {
        let mut out = Vec::new();
        for (i, c) in self.chunks.iter().enumerate() {
            out.extend_from_slice(if i == 0 { &c[self.offset..] } else { c });
        }
        out
    }
    fn consume(&mut self, amt: usize) {
        let flen = self.chunks.front().map(|c| c.len()).unwrap_or(0);
        if flen > self.offset + amt {
            self.offset += amt;
        } else {
            self.chunks.pop_front();
            self.offset = 0;
        }
    }
}

fn run_queue(ops: &[QOp], ctx: &mut Ctx, upto: usize) -> Result<(IOQueue, QModel), Fail> {
    let mut q = IOQueue::new();
    let mut m = QModel::default();
    for (i, op) in ops.iter().take(upto).enumerate() {
        match op {
            QOp::Write(n) => {
                let data: Vec<u8> = (0..*n)
                    .map(|_| {
                        m.next = m.next.wrapping_add(1);
                        m.next
                    })
                    .collect();
                let w = q.write(&data).map_err(|e| Fail::new("queue:io", format!("{e}")))?;
                ensure!(w == data.len(), "queue:short-write", "write accepted {w} of {} bytes", data.len());
                if m.chunks.is_empty() {
                    m.chunks.push_back(Vec::new());
                }
                m.chunks.back_mut().unwrap().extend_from_slice(&data);
            }
            QOp::Flush => {
                q.flush().map_err(|e| Fail::new("queue:io", format!("{e}")))?;
                if !m.front().is_empty() {
                    m.chunks.push_back(Vec::new());
                }
            }
            QOp::Read(k) => {
                let mut buf = vec![0u8; *k];
                let n = q.read(&mut buf).map_err(|e| Fail::new("queue:io", format!("{e}")))?;
                let want: Vec<u8> = m.front().iter().take(*k).copied().collect();
                ensure!(
                    buf[..n] == want[..],
                    "queue:read-content",
                    "op #{i} read({k}) returned {:?}, the model's front chunk holds {:?}",
                    &buf[..n.min(16)],
                    &want[..want.len().min(16)]
                );
                m.consume(want.len());
            }
            QOp::Consume(k) => {
                let amt = (*k).min(q.as_slice().len());
                IOQueue::consume(&mut q, amt);
                let mamt = (*k).min(m.front().len());
                m.consume(mamt);
            }
            QOp::ConsumeWith(k) => {
                let k = *k;
                let r: Result<usize, ()> = q.consume_with(|slice| Ok(k.min(slice.len())));
                let mamt = k.min(m.front().len());
                ensure!(r == Ok(mamt), "queue:consume-with", "op #{i} consume_with took {r:?}, model {mamt}");
                m.consume(mamt);
            }
            QOp::FillBufConsume(k) => {
                let avail = q.fill_buf().map_err(|e| Fail::new("queue:io", format!("{e}")))?.to_vec();
                ensure!(
                    avail == m.front(),
                    "queue:fill-buf",
                    "op #{i} fill_buf shows {} bytes, model front chunk has {}",
                    avail.len(),
                    m.front().len()
                );
                let amt = (*k).min(avail.len());
                BufRead::consume(&mut q, amt);
                m.consume(amt);
            }
            QOp::ClearButLast => {
                ctx.feat_if(m.chunks.front().is_some_and(|c| c.len() > (1 << 20)), "queue.clear_but_last.front-frame>1MiB");
                q.clear_but_last();
                while m.chunks.len() > 1 {
                    m.chunks.pop_back();
                }
                ctx.feat("queue.clear_but_last");
            }
        }
        // after every operation
        ensure!(
            q.len() == m.remaining(),
            "queue:len",
            "after op #{i} {:?}: len() = {} but {} bytes can still be read",
            op,
            q.len(),
            m.remaining()
        );
        ensure!(
            q.as_slice() == m.front(),
            "queue:front-slice",
            "after op #{i} {:?}: as_slice has {} bytes, model front has {}",
            op,
            q.as_slice().len(),
            m.front().len()
        );
        if q.is_empty() {
            ensure!(m.remaining() == 0, "queue:empty-but-readable", "after op #{i}: is_empty() with {} bytes pending", m.remaining());
        }
    }
    Ok((q, m))
}

fn drain(q: &mut IOQueue, bound: usize) -> Result<Vec<u8>, Fail> {
    let mut out = Vec::new();
    // odd small reads, larger ones once the queue holds a lot
    let mut buf = vec![0u8; if q.len() > 100_000 { 65_537 } else { 7 }];
    let mut steps = 0;
    while !q.is_empty() {
        let n = q.read(&mut buf).map_err(|e| Fail::new("queue:io", format!("{e}")))?;
        out.extend_from_slice(&buf[..n]);
        steps += 1;
        ensure!(steps <= bound, "queue:drain-no-progress", "draining did not finish in {bound} reads");
    }
    Ok(out)
}

fn check_queue(ops: &[QOp], ctx: &mut Ctx) -> Result<(), Fail> {
    ctx.feat("queue.histories");
    ctx.feat_n("queue.ops", ops.len() as u64);
    // drain at a few prefixes (history is replayed; the queue is not clonable)
    let mut points = vec![ops.len()];
    if ops.len() > 2 {
        points.push(ops.len() / 2);
    }
    for upto in points {
        let (mut q, m) = run_queue(ops, ctx, upto)?;
        let reported = q.len();
        let expect = m.bytes();
        let got = drain(&mut q, expect.len() + m.chunks.len() + 8)?;
        ensure!(
            got.len() == reported,
            "queue:len",
            "after {upto} ops len() reported {reported} but {} bytes were read by draining",
            got.len()
        );
        ensure!(
            got == expect,
            "queue:drain-content",
            "after {upto} ops draining gave {} bytes, the model holds {} (first difference at {:?})",
            got.len(),
            expect.len(),
            got.iter().zip(expect.iter()).position(|(a, b)| a != b)
        );
        ensure!(q.len() == 0, "queue:len", "len() = {} after draining everything", q.len());
    }
    Ok(())
}

// ---------------------------------------------------------------------------
// terminal on a pty

fn payload(id: usize, len: usize) -> Vec<u8> {
    // printable, no ESC, no '<' so headers cannot be faked
    (0..len).map(|i| b'a' + ((id * 7 + i * 13 + i / 251) % 26) as u8).collect()
}

fn part_cmd(p: &Part) -> Option<TerminalCommand> {
    Some(match p {
        Part::Payload(_) => return None,
        Part::CursorTo(r, c) => TerminalCommand::CursorTo(Position::new(*r, *c)),
        Part::EraseChars(n) => TerminalCommand::EraseChars(*n),
        Part::Title(n) => TerminalCommand::Title("t".repeat(*n)),
        Part::Raw(n) => TerminalCommand::Raw((0..*n).map(|i| b'A' + (i % 26) as u8).collect()),
    })
}

pub fn drain_of(spec: &DrainSpec) -> Drain {
    match spec {
        DrainSpec::Fast => Drain::Fast,
        DrainSpec::Slow { max_read, pause_us } => Drain::Slow { max_read: *max_read, pause_us: *pause_us },
        DrainSpec::Bursty { burst, pause_us } => Drain::Bursty { burst: *burst, pause_us: *pause_us },
    }
}

struct ChunkRec {
    body: Vec<u8>,
    /// a frames_drop happened after this chunk was written
    droppable: bool,
}

fn header(id: usize, len: usize) -> Vec<u8> {
    format!("<<{id}:{len}>>").into_bytes()
}

fn check_term(script: &[SOp], drain: &DrainSpec, seed: u64, ctx: &mut Ctx) -> Result<(), Fail> {
    std::env::set_var("TERM", "xterm-256color");
    let pty = Pty::open(24, 80, 24 * 16, 80 * 8).map_err(|e| Fail::new("rig:openpt", format!("{e}")))?;
    let peer = Peer::start(pty.master, drain_of(drain), seed);
    let _ = unix_verif::take_log();
    let mut term = match SystemTerminal::open(&pty.slave_path) {
        Ok(t) => t,
        Err(e) => {
            ctx.nondeciding = true;
            ctx.feat("rig.open-failed");
            return Err(Fail::new("rig:open", format!("SystemTerminal::open failed: {e:?}")));
        }
    };
    let mut encoder = TTYEncoder::new(term.capabilities().clone());
    let mut chunks: Vec<ChunkRec> = Vec::new();
    let mut last_drop_at: Option<usize> = None;
    let mut dropped_early = false;

    let mut emit = |term: &mut SystemTerminal, parts: &[Part], chunks: &mut Vec<ChunkRec>| -> Result<(), Fail> {
        let id = chunks.len();
        // expected body from an independent encoder instance
        let mut body = Vec::new();
        for p in parts {
            match p {
                Part::Payload(n) => body.extend(payload(id, *n)),
                other => {
                    let cmd = part_cmd(other).unwrap();
                    encoder
                        .encode(&mut body, cmd)
                        .map_err(|e| Fail::new("rig:encode", format!("{e:?}")))?;
                }
            }
        }
        let head = header(id, body.len());
        term.write_all(&head).map_err(|e| Fail::new("term:write-error", format!("{e}")))?;
        // odd chunks hand runs of commands over in one `execute_many` call
        let batch = id % 2 == 1;
        let mut pending: Vec<TerminalCommand> = Vec::new();
        for p in parts {
            match p {
                Part::Payload(n) => {
                    if !pending.is_empty() {
                        term.execute_many(std::mem::take(&mut pending))
                            .map_err(|e| Fail::new("term:execute-error", format!("{e:?}")))?;
                    }
                    let data = payload(id, *n);
                    // split large payloads into several write calls
                    for piece in data.chunks(60_000) {
                        term.write_all(piece).map_err(|e| Fail::new("term:write-error", format!("{e}")))?;
                    }
                }
                other if batch => pending.push(part_cmd(other).unwrap()),
                other => term
                    .execute(part_cmd(other).unwrap())
                    .map_err(|e| Fail::new("term:execute-error", format!("{e:?}")))?,
            }
        }
        if !pending.is_empty() {
            term.execute_many(pending)
                .map_err(|e| Fail::new("term:execute-error", format!("{e:?}")))?;
        }
        let mut full = head;
        full.extend_from_slice(&body);
        chunks.push(ChunkRec { body: full, droppable: false });
        Ok(())
    };

    for op in script {
        match op {
            SOp::Chunk { parts, poll_ms } => {
                emit(&mut term, parts, &mut chunks)?;
                match poll_ms {
                    None => {
                        term.flush().map_err(|e| Fail::new("term:flush-error", format!("{e}")))?;
                        ctx.feat("term.flush");
                    }
                    Some(ms) => {
                        term.poll(Some(Duration::from_millis(*ms)))
                            .map_err(|e| Fail::new("term:poll-error", format!("{e:?}")))?;
                        ctx.feat("term.poll");
                    }
                }
            }
            SOp::Poll(ms) => {
                term.poll(Some(Duration::from_millis(*ms)))
                    .map_err(|e| Fail::new("term:poll-error", format!("{e:?}")))?;
                ctx.feat("term.poll");
            }
            SOp::FramesDrop => {
                let pending = term.frames_pending();
                term.frames_drop();
                for c in chunks.iter_mut() {
                    c.droppable = true;
                }
                last_drop_at = Some(chunks.len());
                ctx.feat("term.frames_drop");
                ctx.feat_if(pending > 1, "term.frames_drop.with-pending-chunks");
            }
            SOp::Pause(us) => {
                std::thread::sleep(Duration::from_micros(*us));
            }
            SOp::DropTerminal => {
                dropped_early = true;
                break;
            }
            SOp::Backlog(frames) => {
                for _ in 0..*frames {
                    emit(&mut term, &[Part::Payload(65_536)], &mut chunks)?;
                    term.flush().map_err(|e| Fail::new("term:flush-error", format!("{e}")))?;
                }
                ctx.feat("term.backlog-of-megabytes");
            }
        }
    }
    let mut arrived = false;
    let mut end_marker: Option<usize> = None;
    if dropped_early {
        // dispose drops the frames that have not started transmission: every chunk may be missing,
        // none may be torn
        let pending = term.frames_pending();
        for c in chunks.iter_mut() {
            c.droppable = true;
        }
        last_drop_at = Some(chunks.len());
        ctx.feat("term.dropped-with-output-pending.sessions");
        ctx.feat_if(pending > 0, "term.dropped-with-output-pending");
        ctx.feat_if(pending > 1, "term.dropped-with-several-chunks-pending");
    } else {
        // end marker: written after the last drop, must arrive
        let end_id = chunks.len();
        end_marker = Some(end_id);
        emit(&mut term, &[Part::Payload(5)], &mut chunks)?;
        term.flush().map_err(|e| Fail::new("term:flush-error", format!("{e}")))?;
        // push everything out: poll until the queue is empty (logical bound on iterations)
        let mut rounds = 0;
        while term.frames_pending() > 0 {
            term.poll(Some(Duration::from_millis(50)))
                .map_err(|e| Fail::new("term:poll-error", format!("{e:?}")))?;
            rounds += 1;
            if rounds > 4000 {
                ctx.nondeciding = true;
                ctx.feat("term.drain-watchdog");
                return Ok(());
            }
        }
        let end_body = chunks[end_id].body.clone();
        arrived = peer.wait_for(|rec| find(rec, &end_body, 0).is_some(), Duration::from_secs(3));
    }

    // coverage from the IO log
    let log = unix_verif::take_log();
    let mut short = 0u64;
    let mut eagain = 0u64;
    let mut writes = 0u64;
    for ev in &log {
        if let IoEvent::TtyWrite { requested, written } = ev {
            writes += 1;
            if *written == 0 {
                eagain += 1;
            } else if written < requested {
                short += 1;
            }
        }
    }
    ctx.feat_n("io.tty-writes", writes);
    ctx.feat_n("io.short-writes", short);
    ctx.feat_n("io.eagain", eagain);

    let received = if dropped_early {
        // dispose writes what it keeps plus the closing sequence; take the stream once it is quiet
        drop(term);
        peer.wait_for(|_| false, Duration::from_millis(300));
        peer.received()
    } else {
        let received = peer.received();
        drop(term);
        received
    };
    drop(peer);

    if chunks.is_empty() {
        // the session wrote nothing before the terminal went away
        ctx.feat("term.session-without-chunks");
        return Ok(());
    }
    // parse the received stream by chunk headers
    let start = match find(&received, b"<<0:", 0) {
        Some(p) => p,
        None => {
            if chunks[0].droppable {
                // even the first chunk may have been dropped; find the first header at all
                match find(&received, b"<<", 0) {
                    Some(p) => p,
                    None => fail!("term:nothing-delivered", "no chunk reached the terminal ({} bytes received)", received.len()),
                }
            } else {
                fail!("term:missing-chunk", "chunk 0 never reached the terminal ({} bytes received)", received.len())
            }
        }
    };
    let mut pos = start;
    let mut next_id = 0usize;
    let mut delivered = vec![false; chunks.len()];
    loop {
        if pos >= received.len() {
            break;
        }
        // epilogue of dispose or anything else that is not a header ends the parse
        if !received[pos..].starts_with(b"<<") {
            break;
        }
        let close = match find(&received, b">>", pos) {
            Some(c) if c - pos < 40 => c,
            _ => fail!("term:torn-header", "malformed chunk header at offset {pos}"),
        };
        let text = String::from_utf8_lossy(&received[pos + 2..close]).to_string();
        let mut it = text.split(':');
        let id: usize = it.next().and_then(|s| s.parse().ok()).ok_or_else(|| Fail::new("term:torn-header", format!("bad header {text:?}")))?;
        let len: usize = it.next().and_then(|s| s.parse().ok()).ok_or_else(|| Fail::new("term:torn-header", format!("bad header {text:?}")))?;
        ensure!(id < chunks.len(), "term:unknown-chunk", "received header of chunk {id} that was never written");
        ensure!(
            id >= next_id,
            "term:reordered-or-duplicated",
            "chunk {id} received after chunk {} (order or exactly-once broken)",
            next_id as isize - 1
        );
        let want = &chunks[id].body;
        ensure!(want.len() == close + 2 - pos + len, "term:header-length", "chunk {id} header says {len}, written {}", want.len());
        let end = pos + want.len();
        if dropped_early && end > received.len() && received[pos..] == want[..received.len() - pos] {
            // the stream stops inside the chunk and nothing follows it: dispose gave up waiting for
            // a slow terminal (it waits a bounded time); not a torn frame followed by other output
            ctx.feat("term.stream-ends-inside-chunk-after-drop");
            break;
        }
        if end > received.len() || &received[pos..end] != want.as_slice() {
            let got_len = received.len().saturating_sub(pos).min(want.len());
            let diff = received[pos..pos + got_len]
                .iter()
                .zip(want.iter())
                .position(|(a, b)| a != b)
                .unwrap_or(got_len);
            fail!(
                "term:torn-chunk",
                "chunk {id} ({} bytes) is partially present: first {} bytes match, then the stream continues with something else (received {} bytes total)",
                want.len(),
                diff,
                received.len()
            );
        }
        // chunks skipped over must have been written before a frames_drop
        for skipped in next_id..id {
            ensure!(
                chunks[skipped].droppable,
                "term:missing-chunk",
                "chunk {skipped} was never dropped but did not reach the terminal"
            );
            ctx.feat("term.chunk-dropped");
        }
        delivered[id] = true;
        ctx.feat("term.chunk-delivered");
        ctx.feat_n("term.bytes-delivered", want.len() as u64);
        next_id = id + 1;
        pos = end;
    }
    for id in next_id..chunks.len() {
        ensure!(
            chunks[id].droppable,
            "term:missing-chunk",
            "chunk {id} (written after the last frames_drop at chunk {:?}) did not reach the terminal; end marker arrived: {arrived}",
            last_drop_at
        );
    }
    if let Some(end_id) = end_marker {
        ensure!(delivered[end_id], "term:missing-chunk", "end marker chunk did not arrive");
    }
    ctx.feat("term.sessions");
    Ok(())
}

// ---------------------------------------------------------------------------

impl Prop for C16 {
    type Case = Case;
    const ID: &'static str = "C16";

    fn default_cases(tier: Tier, flavour: &str) -> u64 {
        // queue cases are cheap, terminal sessions take 10-300 ms: see gen() for the mix
        match (tier, flavour) {
            (_, "miri") => tier.pick(400, 4_000),
            (_, "valgrind") | (_, "tsan") => tier.pick(8, 96),
            (Tier::Quick, _) => 48_000,
            (Tier::Thorough, _) => 1_600_000,
        }
    }

    fn gen(rng: &mut Rng, tier: Tier, _index: u64) -> Case {
        let term_share = if cfg!(miri) { 0 } else { 400 };
        let term_only = TERM_ONLY.load(std::sync::atomic::Ordering::Relaxed);
        if term_share > 0 && (term_only || rng.below(term_share) == 0) {
            // terminal session
            let big = if tier.quick() { 120_000 } else { 300_000 };
            let n = rng.range(2, 10);
            let mut script = Vec::new();
            for _ in 0..n {
                match rng.below(10) {
                    0 | 1 => script.push(SOp::Poll(*rng.pick(&[0u64, 0, 1, 3]))),
                    2 | 3 => script.push(SOp::FramesDrop),
                    4 => script.push(SOp::Pause(rng.range(100, 3000) as u64)),
                    _ => {
                        let mut parts = Vec::new();
                        // now and then a chunk is a run of commands with a repeated cursor position
                        if rng.chance(1, 4) {
                            let (r, c) = (rng.below(50), rng.below(200));
                            parts.push(Part::CursorTo(r, c));
                            parts.push(Part::EraseChars(rng.range(1, 99)));
                            parts.push(Part::CursorTo(r, c));
                            parts.push(Part::Title(rng.range(0, 20)));
                        }
                        for _ in 0..rng.range(1, 3) {
                            parts.push(match rng.below(8) {
                                0 => Part::CursorTo(rng.below(50), rng.below(200)),
                                1 => Part::EraseChars(rng.range(1, 99)),
                                2 if rng.bool() => Part::Raw(*rng.pick(&[1usize, 100, 4095, 4096, 4097, 20_000, 70_000])),
                                2 => Part::Title(rng.range(0, 20)),
                                3 | 4 => Part::Payload(rng.range(40_000, big)),
                                _ => Part::Payload(rng.range(0, 5000)),
                            });
                        }
                        let poll_ms = match rng.below(3) {
                            0 => Some(0),
                            1 => Some(*rng.pick(&[1u64, 2, 5])),
                            _ => None,
                        };
                        script.push(SOp::Chunk { parts, poll_ms });
                    }
                }
            }
            // one session in forty queues 9..12 MiB behind a chunk that is partly sent
            if rng.chance(1, 40) {
                script.push(SOp::Chunk { parts: vec![Part::Payload(500_000)], poll_ms: Some(0) });
                script.push(SOp::Backlog(rng.range(140, 190)));
            }
            // one session in three ends by dropping the terminal while output is still queued,
            // usually right after a large chunk was handed over
            if rng.chance(1, 3) {
                if rng.chance(2, 3) {
                    script.push(SOp::Chunk {
                        parts: vec![Part::Payload(rng.range(40_000, big))],
                        poll_ms: *rng.pick(&[None, Some(0), Some(1)]),
                    });
                    if rng.bool() {
                        script.push(SOp::Chunk { parts: vec![Part::Payload(rng.range(0, 5000))], poll_ms: None });
                    }
                }
                script.push(SOp::DropTerminal);
            }
            let drain = match rng.below(4) {
                0 => DrainSpec::Fast,
                1 => DrainSpec::Slow { max_read: rng.range(64, 2048), pause_us: rng.range(0, 300) as u64 },
                2 => DrainSpec::Slow { max_read: 4096, pause_us: rng.range(50, 800) as u64 },
                _ => DrainSpec::Bursty { burst: rng.range(256, 8192), pause_us: rng.range(200, 3000) as u64 },
            };
            return Case::Term { script, drain, seed: rng.next_u64() };
        }
        let n = rng.range(1, if tier.quick() { 40 } else { 60 });
        // one history in 24 builds frames of megabytes out of several writes (no chunk may end
        // anywhere but at a flush, however large it grows)
        let big = rng.chance(1, 24) && !cfg!(miri);
        let ops = (0..n)
            .map(|_| match rng.below(12) {
                0 if big => QOp::Write(*rng.pick(&[65_536usize, 300_000, 524_288, 700_000, 1_048_575, 1_048_576, 1_048_577])),
                6..=9 if big => QOp::Read(*rng.pick(&[65_536usize, 1 << 20, 3 << 20])),
                0..=3 => QOp::Write(*rng.pick(&[0usize, 1, 2, 3, 5, 8, 13, 64])),
                4 | 5 => QOp::Flush,
                6 => QOp::Read(rng.range(0, 9)),
                7 => QOp::Consume(rng.range(0, 9)),
                8 => QOp::ConsumeWith(rng.range(0, 9)),
                9 => QOp::FillBufConsume(rng.range(0, 9)),
                10 => QOp::ClearButLast,
                _ => QOp::Read(64),
            })
            .collect();
        Case::Queue { ops }
    }

    fn setup(ctx: &mut Ctx) {
        if matches!(ctx.flavour.as_str(), "valgrind" | "tsan") {
            TERM_ONLY.store(true, std::sync::atomic::Ordering::Relaxed);
        }
    }

    fn check(case: &Case, ctx: &mut Ctx) -> Result<(), Fail> {
        match case {
            Case::Queue { ops } => check_queue(ops, ctx),
            Case::Term { script, drain, seed } => check_term(script, drain, *seed, ctx),
        }
    }

    fn nontrivial(case: &Case) -> bool {
        match case {
            Case::Queue { ops } => ops.len() >= 2,
            Case::Term { .. } => true,
        }
    }

    fn case_hash(case: &Case) -> u64 {
        use std::hash::{Hash, Hasher};
        let mut h = std::collections::hash_map::DefaultHasher::new();
        case.hash(&mut h);
        h.finish()
    }

    fn shrink(case: &Case) -> Vec<Case> {
        match case {
            Case::Queue { ops } => shrink_vec(ops).into_iter().filter(|o| !o.is_empty()).map(|ops| Case::Queue { ops }).collect(),
            Case::Term { script, drain, seed } => shrink_vec(script)
                .into_iter()
                .filter(|s| !s.is_empty())
                .take(6)
                .map(|script| Case::Term { script, drain: drain.clone(), seed: *seed })
                .collect(),
        }
    }

    fn rule() -> &'static str {
        "case = Queue(history of write/flush/read/consume/consume_with/fill_buf/clear_but_last) | Term(script of flush-delimited chunks with unique headers and 0..300 KB payloads, polls, frames_drop, pauses; peer drain schedule); about 1 in 400 cases is a terminal session; non-trivial = queue history of >= 2 ops or any session; distinct = hash of the case"
    }

    fn sample(case: &Case) -> serde_json::Value {
        let text = format!("{case:?}");
        serde_json::json!(text.chars().take(400).collect::<String>())
    }
}
