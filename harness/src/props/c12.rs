//! C12 — sixel output decodes to the quantised image, exact when the colours fit the palette
//!
//! The real `SixelImageHandler::draw` output is decoded by the independent interpreter in
//! `models::sixel`. Checked, as the statement says: one well-formed sequence; declared raster
//! = (width, floor(h/6)*6); every pixel inside painted, nothing painted outside; every register
//! used is defined and numbered <= 255; for images whose colours fit (and that are not
//! subsampled) the decoded picture equals the source at 0..=100 channel resolution, alpha
//! composited over the configured background; a second draw emits identical bytes.
//!
//! Exact class, decided without the library: let k(c) = round(c*100/255) per channel. The source
//! at sixel resolution is k(composite(pixel)) where composite(pixel) is the pixel itself for
//! alpha 255, the background for alpha 0 and `bg.blend_over(pixel)` otherwise (`blend_over`
//! comes from the `rasterize` crate and is trusted; opaque and fully transparent pixels do
//! not depend on it). The class is "that picture has <= 256 distinct colours and
//! w*h6/(256*100) < 2" (the sampling rule of `ColorPalette::from_image`); backgrounds with
//! alpha < 255 only enter it when the image is fully opaque.
//! A background of `None` is mirrored from the unchanged tree as opaque black.
use crate::core::{fnv, Ctx, Fail, Prop, Tier};
use crate::models::sixel::{self, Picture};
use crate::rng::Rng;
use crate::{ensure, fail};
use serde::{Deserialize, Serialize};
use std::collections::BTreeSet;
use surf_n_term::{
    Color, Image, ImageHandler, Position, SixelImageHandler, Size, Surface, SurfaceOwned, RGBA,
};

pub struct C12;

#[derive(Clone, Debug, Serialize, Deserialize)]
pub struct Case {
    pub w: usize,
    pub h: usize,
    /// w*h pixels 0xRRGGBBAA
    pub px: Vec<u32>,
    /// rows r0..r1, cols c0..c1 of the buffer are the image
    pub crop: Option<(usize, usize, usize, usize)>,
    /// background handed to the handler (0xRRGGBBAA)
    pub bg: Option<u32>,
    /// other same-sized crops of the same buffer (window shifted by these offsets) that are drawn
    /// on the handler first; they must not influence what the image under test decodes to
    #[serde(default)]
    pub warm: Vec<(i8, i8)>,
}

fn rgba(px: u32) -> RGBA {
    RGBA::new((px >> 24) as u8, (px >> 16) as u8, (px >> 8) as u8, px as u8)
}

/// channel value at sixel resolution: round(c * 100 / 255); c*100/255 is never at .5
pub fn k_of(c: u8) -> u8 {
    ((c as u32 * 200 + 255) / 510) as u8
}

fn k3(rgb: [u8; 3]) -> [u8; 3] {
    [k_of(rgb[0]), k_of(rgb[1]), k_of(rgb[2])]
}

/// all 8-bit values that map to sixel level k
fn preimages(k: u8) -> Vec<u8> {
    (0..=255u8).filter(|c| k_of(*c) == k).collect()
}

impl Case {
    fn window(&self) -> (usize, usize, usize, usize) {
        self.crop.unwrap_or((0, self.h, 0, self.w))
    }
    fn pixel(&self, row: usize, col: usize) -> u32 {
        let (r0, _, c0, _) = self.window();
        self.px[(r0 + row) * self.w + c0 + col]
    }
}

fn gen_layout(rng: &mut Rng, w: usize, h: usize, ncolors: usize) -> Vec<usize> {
    // index image over 0..ncolors; every colour appears when there is room
    let mut idx = vec![0usize; w * h];
    if w >= 900 {
        // wide images: within a 6-row band all rows agree, so that identical sixels repeat over
        // segments of 1..5 or of about a thousand columns (4-digit repeat counts and gaps)
        for band in 0..h.div_ceil(6) {
            let mut col = 0;
            let mut colour = rng.below(ncolors);
            while col < w {
                let seg = match rng.below(4) {
                    0 => rng.range(1, 5),
                    1 => *rng.pick(&[998usize, 999, 1000, 1001, 1023, 1024, 1100]),
                    _ => rng.range(900, 1400),
                };
                for c in col..(col + seg).min(w) {
                    for row in band * 6..(band * 6 + 6).min(h) {
                        idx[row * w + c] = colour;
                    }
                }
                col += seg;
                colour = (colour + 1 + rng.below(ncolors.max(2) - 1)) % ncolors;
            }
        }
        // a few single pixels of other colours (their registers see long blank gaps)
        for _ in 0..rng.range(0, 3) {
            let at = rng.below(idx.len());
            idx[at] = rng.below(ncolors);
        }
        return idx;
    }
    match rng.below(6) {
        // independent pixels
        0 | 1 => {
            for v in idx.iter_mut() {
                *v = rng.below(ncolors);
            }
        }
        // horizontal runs
        2 => {
            let mut i = 0;
            while i < idx.len() {
                let run = rng.range(1, 14);
                let c = rng.below(ncolors);
                for v in idx.iter_mut().skip(i).take(run) {
                    *v = c;
                }
                i += run;
            }
        }
        // 6-row bands of vertical stripes (identical sixel codes in a row of sixels)
        3 => {
            let stripe = rng.range(1, 9);
            for row in 0..h {
                for col in 0..w {
                    let band = row / 6;
                    idx[row * w + col] = (band * 7 + col / stripe) % ncolors;
                }
            }
        }
        // rows repeated from above with some noise
        4 => {
            for col in 0..w {
                idx[col] = rng.below(ncolors);
            }
            for row in 1..h {
                for col in 0..w {
                    idx[row * w + col] = if rng.chance(1, 12) {
                        rng.below(ncolors)
                    } else {
                        idx[(row - 1) * w + col]
                    };
                }
            }
        }
        // mostly one colour with sparse others (long blank runs for the other colours)
        _ => {
            let main = rng.below(ncolors);
            for v in idx.iter_mut() {
                *v = if rng.chance(1, 15) { rng.below(ncolors) } else { main };
            }
        }
    }
    // make every colour appear at least once if it fits
    if ncolors <= idx.len() {
        let mut slots: Vec<usize> = (0..idx.len()).collect();
        rng.shuffle(&mut slots);
        for (c, slot) in slots.into_iter().take(ncolors).enumerate() {
            idx[slot] = c;
        }
    }
    idx
}

impl Prop for C12 {
    type Case = Case;
    const ID: &'static str = "C12";

    fn default_cases(tier: Tier, flavour: &str) -> u64 {
        match (tier, flavour) {
            (_, "miri") | (_, "miri-sb") => tier.pick(20, 100),
            (Tier::Quick, _) => 16_000,
            (Tier::Thorough, "asan") | (Tier::Thorough, "valgrind") => 30_000,
            (Tier::Thorough, _) => 800_000,
        }
    }

    fn gen(rng: &mut Rng, tier: Tier, index: u64) -> Case {
        // image size (after cropping)
        // NB: moduli on `index` are odd so that they stay uniform under 2^k-way sharding
        let (iw, ih) = match index % 15 {
            0 => (1, rng.range(6, 13)),
            1 => (rng.range(1, 80), 6),
            2 => (rng.range(1, 80), *rng.pick(&[7usize, 11, 12, 13, 17, 18, 59, 60])),
            3 if !tier.quick() && index % 315 == 3 => (256, 204), // subsampled palette extraction
            _ => (rng.range(1, 80), rng.range(6, 60)),
        };
        // every 41st case sits on the edge of the exact class: 256 opaque colours plus
        // transparent pixels over a background that equals one of them at sixel resolution
        let edge = index % 41 == 7;
        let (iw, ih) = if edge {
            (rng.range(30, 80), 6 * rng.range(2, 10))
        } else {
            (iw, ih)
        };
        // every 45th case is a wide strip: repeat counts and blank gaps of four digits
        let wide = !edge && index % 45 == 4 && !cfg!(miri);
        let (iw, ih) = if wide {
            (*rng.pick(&[1000usize, 1001, 1024, 1100, 1234, 2050]), *rng.pick(&[6usize, 6, 7, 12]))
        } else {
            (iw, ih)
        };
        let crop = rng.chance(1, 4);
        let (w, h, window) = if crop {
            let top = rng.range(0, 5);
            let left = rng.range(0, 5);
            let w = iw + left + rng.range(0, 5);
            let h = ih + top + rng.range(0, 5);
            (w, h, Some((top, top + ih, left, left + iw)))
        } else {
            (iw, ih, None)
        };
        // palette of distinct colours at sixel resolution
        let room = iw * (ih / 6 * 6);
        let ncolors = match rng.below(12) {
            0 => 1,
            1 => 2,
            2 => rng.range(3, 16),
            3 => *rng.pick(&[254usize, 255, 256, 256]),
            4 => *rng.pick(&[257usize, 258, 300, 600]),
            5 => 0, // arbitrary 24-bit pixels
            _ => rng.range(1, 256),
        };
        let ncolors = if edge {
            256
        } else if wide {
            rng.range(1, 4)
        } else {
            ncolors
        };
        let style = if edge { 6 } else { rng.below(10) }; // 0..=5 opaque, 6,7 with holes, 8,9 partial alpha
        let mut set: BTreeSet<[u8; 3]> = BTreeSet::new();
        let clustered = rng.chance(1, 3);
        let centre = [rng.below(101) as i32, rng.below(101) as i32, rng.below(101) as i32];
        let mut guard = 0;
        while set.len() < ncolors && guard < 100_000 {
            guard += 1;
            let k = if clustered {
                let spread = 4 + (ncolors as i32) / 40;
                [
                    (centre[0] + rng.range_i64(-spread as i64, spread as i64) as i32).clamp(0, 100) as u8,
                    (centre[1] + rng.range_i64(-spread as i64, spread as i64) as i32).clamp(0, 100) as u8,
                    (centre[2] + rng.range_i64(-spread as i64, spread as i64) as i32).clamp(0, 100) as u8,
                ]
            } else {
                [rng.below(101) as u8, rng.below(101) as u8, rng.below(101) as u8]
            };
            set.insert(k);
        }
        let palette: Vec<[u8; 3]> = set.into_iter().collect();
        let bg = match if edge { 4 } else { rng.below(8) } {
            0 | 1 => None,
            2 => Some(0x0000_00ff),
            3 => Some(0xffff_ffff),
            // exactly one of the palette colours at sixel resolution, possibly off the 8-bit grid
            4 | 5 if !palette.is_empty() => {
                let k = *rng.pick(&palette);
                let c: Vec<u8> = k.iter().map(|k| *rng.pick(&preimages(*k))).collect();
                Some(u32::from_be_bytes([c[0], c[1], c[2], 255]))
            }
            _ => Some(rng.next_u32() | 0xff),
        };
        let mut px = vec![0u32; w * h];
        // outside of the window: arbitrary
        for v in px.iter_mut() {
            *v = rng.next_u32();
        }
        let layout = if palette.is_empty() {
            Vec::new()
        } else {
            gen_layout(rng, iw, ih, palette.len())
        };
        // first occurrence of every colour stays opaque in the edge cases
        let mut first = vec![false; layout.len()];
        if edge {
            let mut seen = BTreeSet::new();
            for (n, c) in layout.iter().enumerate() {
                first[n] = seen.insert(*c);
            }
        }
        let alphas = [1u8, 64, 127, 128, 254];
        let _ = room;
        for row in 0..ih {
            for col in 0..iw {
                let (top, left) = window.map(|(t, _, l, _)| (t, l)).unwrap_or((0, 0));
                let slot = &mut px[(top + row) * w + left + col];
                if palette.is_empty() {
                    let a = match style {
                        6 | 7 if rng.chance(1, 8) => 0,
                        8 | 9 if rng.chance(1, 8) => rng.next_u8(),
                        _ => 255,
                    };
                    *slot = (rng.next_u32() & 0xffff_ff00) | a as u32;
                    continue;
                }
                let k = palette[layout[row * iw + col]];
                // any 8-bit value that reduces to k
                let c: Vec<u8> = k.iter().map(|k| *rng.pick(&preimages(*k))).collect();
                let a = match style {
                    _ if edge && first[row * iw + col] => 255,
                    6 | 7 if rng.chance(1, 10) => 0,
                    8 | 9 if rng.chance(1, 10) => *rng.pick(&alphas),
                    8 if rng.chance(1, 20) => 0,
                    _ => 255,
                };
                *slot = u32::from_be_bytes([c[0], c[1], c[2], a]);
            }
        }
        let warm = if window.is_some() {
            (0..rng.range(0, 2))
                .map(|_| (rng.range(0, 12) as i8 - 6, rng.range(0, 8) as i8 - 4))
                .collect()
        } else {
            Vec::new()
        };
        Case {
            w,
            h,
            px,
            crop: window,
            bg,
            warm,
        }
    }

    fn check(case: &Case, ctx: &mut Ctx) -> Result<(), Fail> {
        let (r0, r1, c0, c1) = case.window();
        if case.px.len() != case.w * case.h || r1 > case.h || c1 > case.w || r1 < r0 + 6 || c1 <= c0 {
            // the property speaks about images of height >= 6
            ctx.nondeciding = true;
            return Ok(());
        }
        let (ih, iw) = (r1 - r0, c1 - c0);
        let h6 = ih / 6 * 6;
        // one case in four holds the pixels column-major and hands the handler the transposed view
        // of them (an image whose rows are not contiguous in memory); the picture is the same
        let strided = (case.w + case.h + case.px.len()) % 4 == 3;
        let base = if strided {
            let columns = SurfaceOwned::new_with(
                Size {
                    height: case.w,
                    width: case.h,
                },
                |pos| rgba(case.px[pos.col * case.w + pos.row]),
            );
            ctx.feat("image.column-major-storage");
            Image::new(columns.transpose())
        } else {
            Image::from(SurfaceOwned::new_with(
                Size {
                    height: case.h,
                    width: case.w,
                },
                |pos| rgba(case.px[pos.row * case.w + pos.col]),
            ))
        };
        let img = match case.crop {
            Some(_) => base.crop(r0..r1, c0..c1),
            None => base.clone(),
        };
        ensure!(
            img.height() == ih && img.width() == iw,
            "setup:image-dimensions",
            "crop {:?} gives {}x{}",
            case.crop,
            img.width(),
            img.height()
        );
        ctx.feat("cases");
        let bg = case.bg.map(rgba);
        let mut concrete = SixelImageHandler::new(bg);
        let mut boxed: Box<dyn ImageHandler> = Box::new(SixelImageHandler::new(bg));
        let use_boxed = (case.w + case.h) % 2 == 1;
        ctx.feat_if(use_boxed, "handler.boxed-trait-object");
        let handler: &mut dyn ImageHandler = if use_boxed { &mut boxed } else { &mut concrete };
        // other windows of the same buffer drawn first on the same handler
        for (dr, dc) in case.warm.iter() {
            let (nr0, nc0) = (r0 as isize + *dr as isize, c0 as isize + *dc as isize);
            if (*dr, *dc) == (0, 0) || nr0 < 0 || nc0 < 0 {
                continue;
            }
            let (nr0, nc0) = (nr0 as usize, nc0 as usize);
            if nr0 + ih > case.h || nc0 + iw > case.w {
                continue;
            }
            let other = base.crop(nr0..nr0 + ih, nc0..nc0 + iw);
            let mut sink: Vec<u8> = Vec::new();
            handler
                .draw(&mut sink, &other, Position::new(1, 1))
                .map_err(|e| Fail::new("draw:error", format!("draw returned {e}")))?;
            ctx.feat("handler.other-crop-of-same-buffer-drawn-first");
        }
        // one case in three: the output fails under a first attempt to draw (tty gone for a moment);
        // the draw that is judged comes after it and must not carry anything of it along
        if (case.w + 2 * case.h) % 3 == 0 {
            struct Failing(usize);
            impl std::io::Write for Failing {
                fn write(&mut self, buf: &[u8]) -> std::io::Result<usize> {
                    if self.0 == 0 && !buf.is_empty() {
                        return Err(std::io::Error::other("injected write failure"));
                    }
                    let n = buf.len().min(self.0);
                    self.0 -= n;
                    Ok(n)
                }
                fn flush(&mut self) -> std::io::Result<()> {
                    Ok(())
                }
            }
            let victim = if case.h % 2 == 0 { &base } else { &img };
            let result = handler.draw(&mut Failing(case.w * 3), victim, Position::new(0, 0));
            ctx.feat_if(result.is_err(), "handler.earlier-draw-failed-on-its-writer");
        }
        let mut out: Vec<u8> = Vec::new();
        handler
            .draw(&mut out, &img, Position::new(0, 0))
            .map_err(|e| Fail::new("draw:error", format!("draw returned {e}")))?;

        // ---- one well-formed sequence
        let pic: Picture = match sixel::interpret(&out) {
            Ok(pic) => pic,
            Err(e) if e.sig == "colour-definition-hls" => {
                ctx.nondeciding = true;
                return Ok(());
            }
            Err(e) => fail!(
                format!("malformed:{}", e.sig),
                "{}x{} image: {}; output starts {:?}",
                iw,
                ih,
                e.what,
                String::from_utf8_lossy(&out[..out.len().min(60)])
            ),
        };

        // ---- declared size
        match pic.raster {
            Some([_, _, ph, pv]) => ensure!(
                ph as usize == iw && pv as usize == h6,
                "raster:declared-size",
                "raster attributes declare {ph}x{pv}, image is {iw}x{ih} (expected {iw}x{h6})"
            ),
            None => fail!("raster:not-declared", "no raster attributes in the output for a {iw}x{ih} image"),
        }

        // ---- registers
        if let Some(reg) = pic.used_undefined {
            fail!(
                "register:used-undefined",
                "register {reg} paints pixels but was not defined before ({} defined)",
                pic.registers.len()
            );
        }
        let max_reg = pic.registers.keys().chain(pic.used.iter()).max().copied().unwrap_or(0);
        ensure!(
            max_reg <= 255 && pic.registers.len() <= 256,
            "register:above-255",
            "register {max_reg} used/defined, {} registers defined",
            pic.registers.len()
        );

        // ---- every pixel inside painted, none outside
        for (y, row) in pic.rows.iter().enumerate() {
            for (x, p) in row.iter().enumerate() {
                if p.count > 0 && (x >= iw || y >= h6) {
                    fail!(
                        "paint:outside-raster",
                        "pixel ({x},{y}) painted by register {} but the raster is {iw}x{h6}",
                        p.register
                    );
                }
            }
        }
        let mut conflicts = 0u64;
        for y in 0..h6 {
            for x in 0..iw {
                let p = pic.pixel(x, y);
                ensure!(
                    p.count > 0,
                    "paint:pixel-unpainted",
                    "pixel ({x},{y}) of the {iw}x{h6} raster is never painted"
                );
                if p.conflict {
                    conflicts += 1;
                }
            }
        }
        // not covered by the statement: observed, never alarmed
        ctx.feat_n("observed.double-paints", pic.double_paints);
        ctx.feat_n("observed.pixels-painted-by-two-colours", conflicts);
        ctx.feat_if(pic.redefined_after_use, "observed.register-redefined-after-use");

        // ---- exact class
        let bg_used = bg.unwrap_or(RGBA::new(0, 0, 0, 255));
        let bg_opaque = bg_used.to_rgba()[3] == 255;
        // the source at sixel resolution: composite, then k()
        let mut source: Vec<[u8; 3]> = Vec::with_capacity(iw * h6);
        let mut any_transparent = false;
        let mut any_partial = false;
        for row in 0..h6 {
            for col in 0..iw {
                let [r, g, b, a] = case.pixel(row, col).to_be_bytes();
                source.push(match a {
                    255 => k3([r, g, b]),
                    0 => {
                        any_transparent = true;
                        k3(bg_used.to_rgb())
                    }
                    _ => {
                        any_partial = true;
                        k3(bg_used.blend_over(RGBA::new(r, g, b, a)).to_rgb())
                    }
                });
            }
        }
        let not_sampled = iw * h6 / (256 * 100) < 2;
        let distinct = source.iter().collect::<BTreeSet<_>>().len();
        let opaque_distinct = (0..iw * h6)
            .filter(|n| case.pixel(n / iw, n % iw) & 0xff == 0xff)
            .map(|n| source[n])
            .collect::<BTreeSet<_>>()
            .len();
        let exact = distinct <= 256 && not_sampled && (bg_opaque || !(any_partial || any_transparent));
        if exact {
            for row in 0..h6 {
                for col in 0..iw {
                    let [r, g, b, a] = case.pixel(row, col).to_be_bytes();
                    let got = pic.pixel(col, row).color.unwrap_or([255; 3]);
                    let want = source[row * iw + col];
                    if got != want {
                        let sig = match a {
                            0 => "exact:transparent-pixel-differs",
                            255 if any_transparent || any_partial => "exact:opaque-pixel-differs:image-has-alpha",
                            255 => "exact:opaque-pixel-differs",
                            _ => "exact:translucent-pixel-differs",
                        };
                        fail!(
                            sig,
                            "pixel ({col},{row}) = {:?} alpha {a} over bg {:?}: decoded {:?} expected {:?} at 0-100 resolution; {distinct} distinct colours, {} registers",
                            [r, g, b],
                            case.bg.map(|b| b.to_be_bytes()),
                            got,
                            want,
                            pic.registers.len()
                        );
                    }
                }
            }
            ctx.feat("class.exact");
            ctx.feat_if(distinct >= 250, "class.exact.250-256-colours");
            ctx.feat_if(any_transparent, "class.exact.transparent-pixels");
            ctx.feat_if(any_partial, "class.exact.translucent-pixels");
            ctx.feat_if(
                any_transparent && distinct == 256 && opaque_distinct == 256,
                "class.exact.256-colours-incl-background",
            );
        } else {
            ctx.feat("class.well-formed-only");
            ctx.feat_if(!not_sampled, "class.subsampled");
        }

        // ---- drawing the same image again emits identical bytes (also after it was erased)
        if (case.w + case.px.len()) % 2 == 1 {
            let mut erased: Vec<u8> = Vec::new();
            let pos = if case.h % 2 == 0 { Some(Position::new(3, 5)) } else { None };
            handler
                .erase(&mut erased, &img, pos)
                .map_err(|e| Fail::new("erase:error", format!("erase returned {e}")))?;
            ctx.feat("redraw.after-erase");
        }
        let mut again: Vec<u8> = Vec::new();
        handler
            .draw(&mut again, &img, Position::new(3, 5))
            .map_err(|e| Fail::new("draw:error", format!("second draw returned {e}")))?;
        ensure!(
            again == out,
            "redraw:bytes-differ",
            "second draw of the same {iw}x{ih} image wrote {} bytes, the first {} (first difference at {:?})",
            again.len(),
            out.len(),
            again.iter().zip(out.iter()).position(|(a, b)| a != b)
        );

        ctx.feat_n("sixel.repeat-introducers", pic.repeats);
        ctx.feat_n("sixel.blank-repeats", pic.blank_repeats);
        ctx.feat_if(pic.max_repeat >= 1000, "sixel.repeat-count>=1000");
        ctx.feat_if(pic.max_blank_repeat >= 1000, "sixel.blank-gap>=1000");
        ctx.feat_n("sixel.carriage-returns", pic.carriage_returns);
        ctx.feat_n("sixel.bands", pic.newlines);
        ctx.feat_if(ih % 6 != 0, "image.height-not-multiple-of-6");
        ctx.feat_if(case.crop.is_some(), "image.cropped");
        ctx.feat_if(pic.registers.len() == 256, "registers.256");
        ctx.feat_if(pic.registers.len() == 1, "registers.1");
        Ok(())
    }

    fn finish(ctx: &mut Ctx) -> Option<String> {
        let seen = |name: &str| ctx.feats.get(name).copied().unwrap_or(0);
        if seen("cases") < 300 {
            return None;
        }
        for name in [
            "class.exact",
            "class.exact.250-256-colours",
            "class.exact.transparent-pixels",
            "class.well-formed-only",
            "sixel.repeat-introducers",
            "sixel.blank-repeats",
            "image.height-not-multiple-of-6",
        ] {
            if seen(name) == 0 {
                return Some(format!("feature {name} never observed in {} cases", seen("cases")));
            }
        }
        None
    }

    fn nontrivial(case: &Case) -> bool {
        let (r0, r1, c0, c1) = case.window();
        r1 >= r0 + 6 && c1 > c0
    }

    fn case_hash(case: &Case) -> u64 {
        let mut bytes: Vec<u8> = Vec::with_capacity(case.px.len() * 4 + 64);
        bytes.extend_from_slice(format!("{} {} {:?} {:?}", case.w, case.h, case.crop, case.bg).as_bytes());
        for p in case.px.iter() {
            bytes.extend_from_slice(&p.to_le_bytes());
        }
        fnv(&bytes)
    }

    fn shrink(case: &Case) -> Vec<Case> {
        let mut out = Vec::new();
        let (r0, r1, c0, c1) = case.window();
        // materialise the crop
        if case.crop.is_some() {
            let mut px = Vec::new();
            for row in r0..r1 {
                for col in c0..c1 {
                    px.push(case.px[row * case.w + col]);
                }
            }
            out.push(Case {
                w: c1 - c0,
                h: r1 - r0,
                px,
                crop: None,
                bg: case.bg,
                warm: Vec::new(),
            });
            return out;
        }
        // fewer rows (keep >= 6), fewer columns
        if case.h > 6 {
            for h in [6, case.h - 6, case.h - 1] {
                if h >= 6 && h < case.h {
                    out.push(Case {
                        h,
                        px: case.px[..h * case.w].to_vec(),
                        ..case.clone()
                    });
                    out.push(Case {
                        h,
                        px: case.px[(case.h - h) * case.w..].to_vec(),
                        ..case.clone()
                    });
                }
            }
        }
        if case.w > 1 {
            for w in [case.w / 2, case.w - 1] {
                if w >= 1 && w < case.w {
                    for off in [0, case.w - w] {
                        let mut px = Vec::new();
                        for row in 0..case.h {
                            px.extend_from_slice(&case.px[row * case.w + off..row * case.w + off + w]);
                        }
                        out.push(Case { w, px, ..case.clone() });
                    }
                }
            }
        }
        out
    }

    fn rule() -> &'static str {
        "case = (pixel buffer, optional crop window, background); image widths 1-80, heights 6-60 incl. non-multiples of 6 (rarely 256x204 to reach palette subsampling); palettes of 1..=256 distinct colours at 0-100 resolution (exact class) or more / arbitrary pixels (well-formedness class); non-trivial = height >= 6 and width >= 1; distinct = hash of buffer+window+background"
    }

    fn sample(case: &Case) -> serde_json::Value {
        serde_json::json!({
            "w": case.w, "h": case.h, "crop": case.crop, "bg": case.bg.map(|b| format!("{b:08x}")),
            "px_head": case.px.iter().take(6).map(|p| format!("{p:08x}")).collect::<Vec<_>>(),
        })
    }
}
