//! C07 — surface views are exact, non-aliasing windows onto their parent surface
//!
//! Matrix model: the parent storage is a flat vector of unique ids, the window is a list of rows
//! of storage offsets. `view*` slices that list of lists with the reference slice resolver of
//! C08, `transpose` transposes it. The same chain is applied to the real surface types and every
//! access operation is compared with the model, including the addresses handed out by the
//! mutable iterator and the whole parent storage (cells outside the window keep their ids).
use super::c08::{ref_resolve, Form};
use crate::core::{shrink_vec, Ctx, Fail, Prop, Tier};
use crate::rng::Rng;
use crate::{ensure, fail};
use serde::{Deserialize, Serialize};
use std::hash::{Hash, Hasher};
use std::sync::Arc;
use surf_n_term::surface::ViewBounds;
use surf_n_term::{Position, Shape, Size, Surface, SurfaceMut, SurfaceMutView, SurfaceOwned};

pub struct C07;

// ---------------------------------------------------------------------------
// case description

/// integer type a selector is written in (C08 covers the full type matrix)
#[derive(Clone, Copy, Debug, PartialEq, Eq, Hash, Serialize, Deserialize)]
pub enum Ty {
    I32,
    I64,
    Usize,
}

/// one row or column selector
#[derive(Clone, Copy, Debug, PartialEq, Eq, Hash, Serialize, Deserialize)]
pub struct Sel {
    pub form: Form,
    /// start bound / index (0 if unused)
    pub a: i64,
    /// end bound (0 if unused)
    pub b: i64,
    pub ty: Ty,
}

impl Sel {
    pub const FULL: Sel = Sel {
        form: Form::Full,
        a: 0,
        b: 0,
        ty: Ty::I32,
    };

    fn representable(&self) -> bool {
        let ok = |v: i64| match self.ty {
            Ty::I32 => i32::try_from(v).is_ok(),
            Ty::I64 => true,
            Ty::Usize => v >= 0,
        };
        (!self.form.uses_a() || ok(self.a)) && (!self.form.uses_b() || ok(self.b))
    }

    fn reference(&self, n: usize) -> Option<(usize, usize)> {
        let a = if self.form.uses_a() { self.a } else { 0 };
        let b = if self.form.uses_b() { self.b } else { 0 };
        ref_resolve(self.form, a as i128, b as i128, n as u64).map(|(s, e)| (s as usize, e as usize))
    }

    fn render(&self) -> String {
        self.form.render(self.a as i128, self.b as i128)
    }
}

/// hands the selector to the library's own `ViewBounds` implementation of the written type
impl ViewBounds for Sel {
    fn view_bounds(self, size: usize) -> Option<(usize, usize)> {
        macro_rules! go {
            ($t:ty) => {{
                let a = self.a as $t;
                let b = self.b as $t;
                match self.form {
                    Form::Index => a.view_bounds(size),
                    Form::Range => (a..b).view_bounds(size),
                    Form::From => (a..).view_bounds(size),
                    Form::To => (..b).view_bounds(size),
                    Form::Incl => (a..=b).view_bounds(size),
                    Form::ToIncl => (..=b).view_bounds(size),
                    Form::Full => (..).view_bounds(size),
                }
            }};
        }
        match self.ty {
            Ty::I32 => go!(i32),
            Ty::I64 => go!(i64),
            Ty::Usize => go!(usize),
        }
    }
}

/// one step of the chain; the comment gives the real expression (`s` = current surface)
#[derive(Clone, Copy, Debug, PartialEq, Eq, Hash, Serialize, Deserialize)]
pub enum Op {
    /// `s.view(rows, cols)` -> SurfaceView (the chain is immutable from here on)
    View { rows: Sel, cols: Sel },
    /// `s.view_mut(rows, cols)` -> SurfaceMutView
    ViewMut { rows: Sel, cols: Sel },
    /// `s.view_owned(rows, cols)` -> SurfaceOwnedView<S>
    ViewOwned { rows: Sel, cols: Sel },
    /// `s.transpose()` -> SurfaceOwnedView<S>
    Transpose,
    /// `Box::new(s)`
    Boxed,
    /// `Arc::new(s)` (immutable from here on)
    Arced,
    /// `&mut s`
    RefMut,
    /// `&s` (immutable from here on)
    Shared,
    /// `s.as_mut()` -> SurfaceMutView
    AsMut,
    /// `s.as_ref()` -> SurfaceView (immutable from here on)
    AsRef,
}

impl Op {
    fn name(&self) -> &'static str {
        match self {
            Op::View { .. } => "op.view",
            Op::ViewMut { .. } => "op.view_mut",
            Op::ViewOwned { .. } => "op.view_owned",
            Op::Transpose => "op.transpose",
            Op::Boxed => "op.box",
            Op::Arced => "op.arc",
            Op::RefMut => "op.ref-mut",
            Op::Shared => "op.ref",
            Op::AsMut => "op.as_mut",
            Op::AsRef => "op.as_ref",
        }
    }
    fn needs_mut(&self) -> bool {
        matches!(self, Op::ViewMut { .. } | Op::RefMut | Op::AsMut)
    }
    fn makes_immutable(&self) -> bool {
        matches!(self, Op::View { .. } | Op::Arced | Op::Shared | Op::AsRef)
    }
    fn selectors(&self) -> Option<(Sel, Sel)> {
        match *self {
            Op::View { rows, cols } | Op::ViewMut { rows, cols } | Op::ViewOwned { rows, cols } => {
                Some((rows, cols))
            }
            _ => None,
        }
    }
}

/// what the chain starts from
#[derive(Clone, Copy, Debug, PartialEq, Eq, Hash, Serialize, Deserialize)]
pub enum Base {
    /// `&mut SurfaceOwned`
    Owned { h: usize, w: usize },
    /// `SurfaceOwned` by value: up to two leading view_owned/transpose ops consume it (and then
    /// each other), giving a nested `SurfaceOwnedView<SurfaceOwnedView<SurfaceOwned>>`
    ByValue { h: usize, w: usize },
    /// the same with `Box<SurfaceOwned>`
    BoxedByValue { h: usize, w: usize },
    /// `&SurfaceOwned` (immutable chain)
    SharedRef { h: usize, w: usize },
    /// `Arc<SurfaceOwned>` (immutable chain)
    Arc { h: usize, w: usize },
    /// `SurfaceMutView::new(Shape{..}, &mut data[..len])` with hand-chosen start and strides
    Strided {
        h: usize,
        w: usize,
        start: usize,
        row_stride: usize,
        col_stride: usize,
        len: usize,
    },
}

impl Base {
    fn dims(&self) -> (usize, usize) {
        match *self {
            Base::Owned { h, w }
            | Base::ByValue { h, w }
            | Base::BoxedByValue { h, w }
            | Base::SharedRef { h, w }
            | Base::Arc { h, w }
            | Base::Strided { h, w, .. } => (h, w),
        }
    }
    fn name(&self) -> &'static str {
        match self {
            Base::Owned { .. } => "base.owned-ref-mut",
            Base::ByValue { .. } => "base.owned-by-value",
            Base::BoxedByValue { .. } => "base.box-by-value",
            Base::SharedRef { .. } => "base.shared-ref",
            Base::Arc { .. } => "base.arc",
            Base::Strided { .. } => "base.strided-mut-view",
        }
    }
    fn immutable(&self) -> bool {
        matches!(self, Base::SharedRef { .. } | Base::Arc { .. })
    }
}

/// access operations performed on the final view
#[derive(Clone, Debug, PartialEq, Eq, Hash, Serialize, Deserialize)]
pub enum Access {
    /// collect `iter_mut()` (optionally `.with_position()`), keep every `&mut` alive, check
    /// addresses, write through all of them
    IterMut { with_pos: bool },
    /// `iter_mut()` driven by `nth(k)` calls, all returned references kept alive and written
    IterMutNth { ks: Vec<usize> },
    /// `iter()` driven by `nth(k)` calls
    IterNth { ks: Vec<usize> },
    /// `get_mut(pos)`: present iff inside, write through it
    GetMut { row: usize, col: usize },
    /// `set(pos, id)` (only for positions inside the window: outside is a documented debug_assert)
    Set { row: usize, col: usize },
    Fill,
    Clear,
    FillWith,
    /// `insert(pos, count fresh ids)` (pos inside the window)
    Insert { row: usize, col: usize, count: usize },
    Map,
    ToOwned,
}

impl Access {
    fn name(&self) -> &'static str {
        match self {
            Access::IterMut { with_pos: false } => "acc.iter_mut",
            Access::IterMut { with_pos: true } => "acc.iter_mut.with_position",
            Access::IterMutNth { .. } => "acc.iter_mut.nth",
            Access::IterNth { .. } => "acc.iter.nth",
            Access::GetMut { .. } => "acc.get_mut",
            Access::Set { .. } => "acc.set",
            Access::Fill => "acc.fill",
            Access::Clear => "acc.clear",
            Access::FillWith => "acc.fill_with",
            Access::Insert { .. } => "acc.insert",
            Access::Map => "acc.map",
            Access::ToOwned => "acc.to_owned_surf",
        }
    }
    fn mutates(&self) -> bool {
        !matches!(self, Access::IterNth { .. } | Access::Map | Access::ToOwned)
    }
}

#[derive(Clone, Debug, PartialEq, Eq, Hash, Serialize, Deserialize)]
pub struct Case {
    pub base: Base,
    pub ops: Vec<Op>,
    pub acc: Vec<Access>,
}

// ---------------------------------------------------------------------------
// matrix model

#[derive(Clone, Debug)]
struct Model {
    /// content of the parent storage
    cells: Vec<u32>,
    /// the window: `h` rows of `w` storage offsets
    win: Vec<Vec<usize>>,
    h: usize,
    w: usize,
    /// false once a view selected nothing: the statement does not say which extents an empty
    /// window reports, only that it is empty
    exact_dims: bool,
}

impl Model {
    fn new(cells: Vec<u32>, h: usize, w: usize, offset: impl Fn(usize, usize) -> usize) -> Self {
        let win = (0..h)
            .map(|r| (0..w).map(|c| offset(r, c)).collect())
            .collect();
        Model {
            cells,
            win,
            h,
            w,
            exact_dims: true,
        }
    }

    fn is_empty(&self) -> bool {
        self.h == 0 || self.w == 0
    }

    /// plain list-of-lists slicing
    fn view(&mut self, rows: Sel, cols: Sel) {
        match (rows.reference(self.h), cols.reference(self.w)) {
            (Some((r0, r1)), Some((c0, c1))) => {
                self.win = self.win[r0..r1]
                    .iter()
                    .map(|row| row[c0..c1].to_vec())
                    .collect();
                self.h = r1 - r0;
                self.w = c1 - c0;
            }
            _ => {
                self.win = Vec::new();
                self.h = 0;
                self.w = 0;
                self.exact_dims = false;
            }
        }
    }

    fn transpose(&mut self) {
        let win = (0..self.w)
            .map(|c| (0..self.h).map(|r| self.win[r][c]).collect())
            .collect();
        self.win = win;
        std::mem::swap(&mut self.h, &mut self.w);
    }

    /// storage offsets of the window in row-major order
    fn linear(&self) -> Vec<usize> {
        if self.is_empty() {
            return Vec::new();
        }
        self.win.iter().flatten().copied().collect()
    }

    fn at(&self, row: usize, col: usize) -> Option<usize> {
        if row < self.h && col < self.w {
            Some(self.win[row][col])
        } else {
            None
        }
    }
}

// ---------------------------------------------------------------------------
// environment of one execution

struct Env<'a> {
    ctx: &'a mut Ctx,
    acc: &'a [Access],
    /// address of storage element 0
    base_addr: usize,
    next_id: u32,
    /// the case left the deciding domain (ill-typed chain, selector resolved differently from the
    /// reference — that is C08's subject)
    nondeciding: bool,
}

impl Env<'_> {
    fn fresh(&mut self) -> u32 {
        self.next_id += 1;
        self.next_id
    }

    fn addr(&self, offset: usize) -> usize {
        self.base_addr + offset * std::mem::size_of::<u32>()
    }

    fn leave_domain(&mut self, why: &str) {
        self.nondeciding = true;
        self.ctx.nondeciding = true;
        self.ctx.feat(why);
    }

    /// apply a view selection to the model; false = case is non-deciding
    fn select(&mut self, m: &mut Model, rows: Sel, cols: Sel) -> Result<bool, Fail> {
        if !rows.representable() || !cols.representable() {
            self.leave_domain("nondeciding.selector-not-representable");
            return Ok(false);
        }
        if !m.is_empty() {
            // The window a sub-view denotes is the one the same selectors pick on a plain matrix.
            // (While the repository's selector defects were open this was left to C08 alone; they
            // are repaired, and a view built from a mis-resolved selector is the wrong window.)
            for (axis, sel, n) in [("rows", rows, m.h), ("cols", cols, m.w)] {
                let (got, want) = (sel.view_bounds(n), sel.reference(n));
                if got != want {
                    return Err(Fail::new(
                        format!("view:selector-window:{:?}", sel.form),
                        format!(
                            "{axis} selector {} ({:?}) on an axis of {n} resolves to {got:?}, the matrix slice is {want:?}",
                            sel.render(),
                            sel.ty
                        ),
                    ));
                }
            }
        }
        for sel in [rows, cols] {
            self.ctx.feat(match sel.form {
                Form::Index => "sel.index",
                Form::Range => "sel.range",
                Form::From => "sel.from",
                Form::To => "sel.to",
                Form::Incl => "sel.incl",
                Form::ToIncl => "sel.to-incl",
                Form::Full => "sel.full",
            });
            let negative = (sel.form.uses_a() && sel.a < 0) || (sel.form.uses_b() && sel.b < 0);
            self.ctx.feat_if(negative, "sel.negative-bound");
        }
        m.view(rows, cols);
        self.ctx.feat_if(m.is_empty(), "view.selected-nothing");
        Ok(true)
    }
}

type DynM<'a> = dyn SurfaceMut<Item = u32> + 'a;
type DynS<'a> = dyn Surface<Item = u32> + 'a;

fn pos_str(p: Position) -> String {
    format!("({},{})", p.row, p.col)
}

/// extents and emptiness reported by a surface
fn check_dims<S: Surface<Item = u32> + ?Sized>(s: &S, m: &Model, at: &str) -> Result<(), Fail> {
    let (h, w) = (s.height(), s.width());
    let size = s.size();
    ensure!(
        size.height == h && size.width == w,
        "dims:size-inconsistent",
        "{at}: size()={}x{} but height()={h} width()={w}",
        size.height,
        size.width
    );
    if m.exact_dims {
        ensure!(
            h == m.h && w == m.w,
            "dims:wrong-extent",
            "{at}: reports {h}x{w}, the matrix model has {}x{}",
            m.h,
            m.w
        );
    } else {
        ensure!(
            h == 0 || w == 0,
            "dims:empty-window-has-extent",
            "{at}: reports {h}x{w} for a window that selects nothing"
        );
    }
    ensure!(
        s.is_empty() == m.is_empty(),
        "dims:is_empty",
        "{at}: is_empty()={} for a {}x{} window",
        s.is_empty(),
        m.h,
        m.w
    );
    Ok(())
}

/// whole parent storage as seen through `data()` and every window cell as seen through `get`
fn verify<S: Surface<Item = u32>>(s: &S, m: &Model, env: &Env, after: &str) -> Result<(), Fail> {
    let data = s.data();
    if data.len() == m.cells.len() {
        compare_storage(data, m, after)?;
    }
    for row in 0..m.h {
        for col in 0..m.w {
            let off = m.win[row][col];
            match s.get(Position::new(row, col)) {
                Some(v) => {
                    ensure!(
                        *v == m.cells[off],
                        format!("{after}:window-cell-wrong"),
                        "after {after}: get({row},{col}) = {v}, model has {}",
                        m.cells[off]
                    );
                    ensure!(
                        v as *const u32 as usize == env.addr(off),
                        format!("{after}:window-cell-address"),
                        "after {after}: get({row},{col}) is not the model-predicted parent cell {off}"
                    );
                }
                None => fail!(
                    "get:absent-inside-window",
                    "after {after}: get({row},{col}) is None inside a {}x{} window",
                    m.h,
                    m.w
                ),
            }
        }
    }
    Ok(())
}

fn compare_storage(data: &[u32], m: &Model, after: &str) -> Result<(), Fail> {
    ensure!(
        data.len() == m.cells.len(),
        format!("{after}:storage-length"),
        "after {after}: parent storage has {} cells, expected {}",
        data.len(),
        m.cells.len()
    );
    if data == m.cells.as_slice() {
        return Ok(());
    }
    let inside: std::collections::HashSet<usize> = m.linear().into_iter().collect();
    for (off, (got, want)) in data.iter().zip(m.cells.iter()).enumerate() {
        if got != want {
            let place = if inside.contains(&off) {
                "inside-window"
            } else {
                "outside-window"
            };
            fail!(
                format!("{after}:parent-cell-{place}-differs"),
                "after {after}: parent storage cell {off} ({place}) holds {got}, the model expects {want}; window {}x{} = offsets {:?}",
                m.h,
                m.w,
                &m.linear()[..m.linear().len().min(24)]
            );
        }
    }
    Ok(())
}

/// all read-only observations of a view
fn read_checks<S: Surface<Item = u32>>(s: &S, m: &Model, env: &mut Env) -> Result<(), Fail> {
    check_dims(s, m, "final view")?;
    let (h, w) = (s.height(), s.width());
    env.ctx.feat(match m.h * m.w {
        0 => "window.empty",
        1 => "window.one-cell",
        _ => "window.many-cells",
    });
    // get on [0,h+1] x [0,w+1]
    for row in 0..=h + 1 {
        for col in 0..=w + 1 {
            let got = s.get(Position::new(row, col));
            match (got, m.at(row, col)) {
                (None, None) => {}
                (Some(v), None) => fail!(
                    "get:present-outside-window",
                    "get({row},{col}) = Some({v}) outside a {}x{} window",
                    m.h,
                    m.w
                ),
                (None, Some(_)) => fail!(
                    "get:absent-inside-window",
                    "get({row},{col}) is None inside a {}x{} window",
                    m.h,
                    m.w
                ),
                (Some(v), Some(off)) => {
                    ensure!(
                        *v == m.cells[off] && v as *const u32 as usize == env.addr(off),
                        "get:wrong-cell",
                        "get({row},{col}) = {v} at storage offset {:?}, model: {} at offset {off}",
                        (v as *const u32 as usize).checked_sub(env.base_addr).map(|d| d / 4),
                        m.cells[off]
                    );
                }
            }
        }
    }
    env.ctx.feat_n("get.probed-outside", ((h + 2) * (w + 2) - m.h * m.w) as u64);
    // iter: row-major, exactly h*w items
    let lin = m.linear();
    // (bounded: a broken iterator must not run away)
    let items: Vec<&u32> = s.iter().take(lin.len() + 1).collect();
    ensure!(
        items.len() == lin.len(),
        "iter:count",
        "iter() yields {} items for a {}x{} window",
        items.len(),
        m.h,
        m.w
    );
    for (i, (item, off)) in items.iter().zip(lin.iter()).enumerate() {
        ensure!(
            **item == m.cells[*off] && *item as *const u32 as usize == env.addr(*off),
            "iter:order",
            "iter() item {i} is {} (storage offset {:?}), row-major model: {} at offset {off}",
            **item,
            (*item as *const u32 as usize).checked_sub(env.base_addr).map(|d| d / 4),
            m.cells[*off]
        );
    }
    // the iterator's own account of where it is: position()/index() before every item and at the end
    {
        let mut it = s.iter();
        for i in 0..=lin.len() {
            let want = if i < lin.len() {
                Position::new(i / m.w, i % m.w)
            } else {
                Position::new(m.h, 0)
            };
            ensure!(
                it.index() == i && (m.h * m.w == 0 || it.position() == want),
                "iter:position-accessor",
                "before item {i} of {}: index() = {}, position() = {}, expected {i} and {}",
                lin.len(),
                it.index(),
                pos_str(it.position()),
                pos_str(want)
            );
            if it.next().is_none() {
                break;
            }
        }
    }
    // content hash: a function of the window (size and cells in row-major order), not of the buffer
    // it lives in - an owned copy and a surface built cell by cell from the model hash the same
    {
        let own = s.to_owned_surf().hash();
        let fresh = SurfaceOwned::new_with(Size::new(m.h, m.w), |pos| m.cells[m.at(pos.row, pos.col).unwrap()]).hash();
        ensure!(
            s.hash() == own && (m.h * m.w == 0 || own == fresh),
            "hash:depends-on-more-than-the-window",
            "hash() of the {}x{} window = {:#x}, of its owned copy = {:#x}, of an equal surface built from scratch = {:#x}",
            m.h,
            m.w,
            s.hash(),
            own,
            fresh
        );
    }
    // with_position
    let mut count = 0;
    for (i, (pos, item)) in s.iter().with_position().take(lin.len() + 1).enumerate() {
        ensure!(i < lin.len(), "iter:count", "with_position() yields more than {} items", lin.len());
        let want = Position::new(i / m.w, i % m.w);
        ensure!(
            pos == want,
            "iter:position",
            "with_position() item {i} reports {} instead of {}",
            pos_str(pos),
            pos_str(want)
        );
        ensure!(
            *item == m.cells[lin[i]],
            "iter:order",
            "with_position() item {i} is {item}, model {}",
            m.cells[lin[i]]
        );
        count += 1;
    }
    ensure!(
        count == lin.len(),
        "iter:count",
        "with_position() yields {count} items for a {}x{} window",
        m.h,
        m.w
    );
    // the adaptors of std drive the iterator through `nth`: skipping must keep item and position paired
    if !lin.is_empty() {
        for step in [2usize, 3] {
            for (j, (pos, item)) in s.iter().with_position().step_by(step).take(lin.len() + 1).enumerate() {
                let i = j * step;
                ensure!(
                    i < lin.len() && pos == Position::new(i / m.w, i % m.w) && *item == m.cells[lin[i]],
                    "iter:position-after-skip",
                    "iter().with_position().step_by({step}) item {j} is {item} at {}, expected element {i} at {}",
                    pos_str(pos),
                    pos_str(Position::new(i / m.w.max(1), i % m.w.max(1)))
                );
            }
        }
        // positions are attached to an iterator that has already been advanced
        for k in [1usize, lin.len() / 2] {
            if k == 0 || k >= lin.len() {
                continue;
            }
            let mut it = s.iter();
            let _ = it.nth(k - 1);
            for (j, (pos, item)) in it.with_position().take(lin.len() + 1).enumerate() {
                let i = k + j;
                ensure!(
                    i < lin.len() && pos == Position::new(i / m.w, i % m.w) && *item == m.cells[lin[i]],
                    "iter:position-after-skip",
                    "iter() advanced by {k}, then with_position(): item {j} is {item} at {}, expected element {i} at {}",
                    pos_str(pos),
                    pos_str(Position::new(i / m.w.max(1), i % m.w.max(1)))
                );
            }
        }
        for k in [0usize, 1, lin.len() / 2, lin.len() - 1, lin.len()] {
            let got = s.iter().with_position().nth(k).map(|(p, v)| (p, *v));
            let want = (k < lin.len()).then(|| (Position::new(k / m.w, k % m.w), m.cells[lin[k]]));
            ensure!(
                got == want,
                "iter:position-after-skip",
                "iter().with_position().nth({k}) = {got:?}, expected {want:?}"
            );
        }
    }
    env.ctx.feat_n("iter.items", lin.len() as u64);
    Ok(())
}

/// accesses that need only `Surface`
fn access_ref<S: Surface<Item = u32>>(
    s: &S,
    acc: &Access,
    m: &Model,
    env: &mut Env,
) -> Result<(), Fail> {
    let lin = m.linear();
    match acc {
        Access::IterNth { ks } => {
            let mut it = s.iter();
            let mut idx = 0usize;
            for k in ks {
                let got = it.nth(*k);
                idx += k + 1;
                match (got, lin.get(idx - 1)) {
                    (None, None) => {}
                    (Some(v), Some(off)) => ensure!(
                        *v == m.cells[*off] && v as *const u32 as usize == env.addr(*off),
                        "iter:nth-wrong-item",
                        "iter().nth sequence {ks:?}: element {} should be {} (offset {off}), got {v}",
                        idx - 1,
                        m.cells[*off]
                    ),
                    (got, want) => fail!(
                        "iter:nth-presence",
                        "iter().nth sequence {ks:?}: element {} of {}: got {:?}, model offset {:?}",
                        idx - 1,
                        lin.len(),
                        got,
                        want
                    ),
                }
            }
        }
        Access::Map => {
            let mut calls: Vec<(Position, u32)> = Vec::new();
            let out = s.map(|pos, v| {
                calls.push((pos, *v));
                ((pos.row as u64) << 48) | ((pos.col as u64) << 32) | *v as u64
            });
            let mut want_calls: Vec<(usize, usize, u32)> = Vec::new();
            for r in 0..m.h {
                for c in 0..m.w {
                    want_calls.push((r, c, m.cells[m.win[r][c]]));
                }
            }
            let mut got_calls: Vec<(usize, usize, u32)> =
                calls.iter().map(|(p, v)| (p.row, p.col, *v)).collect();
            got_calls.sort();
            // the statement demands each cell once, not an order of the calls
            ensure!(
                got_calls == want_calls,
                "map:calls",
                "map() called the function on {:?}, window cells are {:?}",
                &got_calls[..got_calls.len().min(12)],
                &want_calls[..want_calls.len().min(12)]
            );
            if m.is_empty() {
                ensure!(
                    out.height() == 0 || out.width() == 0,
                    "map:result-extent",
                    "map() of an empty window is {}x{}",
                    out.height(),
                    out.width()
                );
            } else {
                ensure!(
                    out.height() == m.h && out.width() == m.w,
                    "map:result-extent",
                    "map() of a {}x{} window is {}x{}",
                    m.h,
                    m.w,
                    out.height(),
                    out.width()
                );
            }
            for r in 0..m.h {
                for c in 0..m.w {
                    let want = ((r as u64) << 48) | ((c as u64) << 32) | m.cells[m.win[r][c]] as u64;
                    let got = out.get(Position::new(r, c)).copied();
                    ensure!(
                        got == Some(want),
                        "map:result-cell",
                        "map() result at ({r},{c}) is {got:?}, expected {want}"
                    );
                }
            }
            ensure!(
                out.iter().take(lin.len() + 1).count() == lin.len(),
                "map:result-extent",
                "map() result has {} cells, window has {}",
                out.iter().take(lin.len() + 1).count(),
                lin.len()
            );
        }
        Access::ToOwned => {
            let out = s.to_owned_surf();
            if m.is_empty() {
                ensure!(
                    out.height() == 0 || out.width() == 0,
                    "to_owned:extent",
                    "to_owned_surf() of an empty window is {}x{}",
                    out.height(),
                    out.width()
                );
            } else {
                ensure!(
                    out.height() == m.h && out.width() == m.w,
                    "to_owned:extent",
                    "to_owned_surf() of a {}x{} window is {}x{}",
                    m.h,
                    m.w,
                    out.height(),
                    out.width()
                );
            }
            let got: Vec<u32> = out.iter().take(lin.len() + 1).copied().collect();
            let want: Vec<u32> = lin.iter().map(|o| m.cells[*o]).collect();
            ensure!(
                got == want,
                "to_owned:cells",
                "to_owned_surf() = {:?}, window = {:?}",
                &got[..got.len().min(16)],
                &want[..want.len().min(16)]
            );
            // the owned representation answers for itself (its own `get`/`get_mut`/`set`, not the
            // forwarding impls of `&S`/`&mut S` the rest of this harness goes through)
            if !m.is_empty() {
                let mut own = out.clone();
                for row in 0..=m.h + 1 {
                    for col in 0..=m.w + 1 {
                        let pos = Position::new(row, col);
                        let want = m.at(row, col).map(|off| m.cells[off]);
                        let got = own.get(pos).copied();
                        let got_mut = own.get_mut(pos).map(|v| *v);
                        ensure!(
                            got == want && got_mut == want,
                            "owned:get-outside-or-wrong",
                            "owned copy of a {}x{} window: get({row},{col}) = {got:?}, get_mut = {got_mut:?}, expected {want:?}",
                            m.h,
                            m.w
                        );
                    }
                }
                env.ctx.feat("owned.get-probed-directly");
            }
            // it is a copy: none of its cells lives in the parent storage
            let lo = env.base_addr;
            let hi = env.addr(m.cells.len());
            for v in out.iter().take(lin.len() + 1) {
                let a = v as *const u32 as usize;
                ensure!(
                    m.cells.is_empty() || a < lo || a >= hi,
                    "to_owned:aliases-parent",
                    "to_owned_surf() cell lives inside the parent storage"
                );
            }
        }
        _ => {}
    }
    Ok(())
}

/// accesses that mutate through the view; the model is updated alongside
fn access_mut<S: SurfaceMut<Item = u32>>(
    s: &mut S,
    acc: &Access,
    m: &mut Model,
    env: &mut Env,
) -> Result<(), Fail> {
    let lin = m.linear();
    match acc {
        Access::IterMut { with_pos } => {
            let mut refs: Vec<&mut u32> = Vec::new();
            if *with_pos {
                for (i, (pos, r)) in s.iter_mut().with_position().take(lin.len() + 1).enumerate() {
                    ensure!(
                        i < lin.len(),
                        "iter_mut:count",
                        "iter_mut().with_position() yields more than {} items",
                        lin.len()
                    );
                    let want = Position::new(i / m.w, i % m.w);
                    ensure!(
                        pos == want,
                        "iter_mut:position",
                        "iter_mut().with_position() item {i} reports {} instead of {}",
                        pos_str(pos),
                        pos_str(want)
                    );
                    refs.push(r);
                }
            } else {
                let mut it = s.iter_mut();
                // bounded: a broken iterator must not run away
                while refs.len() <= lin.len() {
                    match it.next() {
                        Some(r) => refs.push(r),
                        None => break,
                    }
                }
            }
            if *with_pos && !lin.is_empty() {
                drop(refs);
                for step in [2usize, 3] {
                    for (j, (pos, item)) in s.iter_mut().with_position().step_by(step).take(lin.len() + 1).enumerate() {
                        let i = j * step;
                        ensure!(
                            i < lin.len() && pos == Position::new(i / m.w, i % m.w) && *item == m.cells[lin[i]],
                            "iter_mut:position-after-skip",
                            "iter_mut().with_position().step_by({step}) item {j} is {item} at {}, expected element {i}",
                            pos_str(pos)
                        );
                    }
                }
                for k in [1usize, lin.len() / 2] {
                    if k == 0 || k >= lin.len() {
                        continue;
                    }
                    let mut it = s.iter_mut();
                    let _ = it.nth(k - 1);
                    for (j, (pos, item)) in it.with_position().take(lin.len() + 1).enumerate() {
                        let i = k + j;
                        ensure!(
                            i < lin.len() && pos == Position::new(i / m.w, i % m.w) && *item == m.cells[lin[i]],
                            "iter_mut:position-after-skip",
                            "iter_mut() advanced by {k}, then with_position(): item {j} is {item} at {}, expected element {i}",
                            pos_str(pos)
                        );
                    }
                }
                for k in [0usize, 1, lin.len() / 2, lin.len() - 1, lin.len()] {
                    let got = s.iter_mut().with_position().nth(k).map(|(p, v)| (p, *v));
                    let want = (k < lin.len()).then(|| (Position::new(k / m.w, k % m.w), m.cells[lin[k]]));
                    ensure!(
                        got == want,
                        "iter_mut:position-after-skip",
                        "iter_mut().with_position().nth({k}) = {got:?}, expected {want:?}"
                    );
                }
                refs = s.iter_mut().take(lin.len() + 1).collect();
            }
            ensure!(
                refs.len() == lin.len(),
                "iter_mut:count",
                "iter_mut() yields {}{} items for a {}x{} window",
                refs.len(),
                if refs.len() > lin.len() { "+" } else { "" },
                m.h,
                m.w
            );
            let addrs: Vec<usize> = refs.iter().map(|r| &**r as *const u32 as usize).collect();
            let mut sorted = addrs.clone();
            sorted.sort_unstable();
            sorted.dedup();
            ensure!(
                sorted.len() == addrs.len(),
                "iter_mut:aliasing",
                "iter_mut() handed out two live &mut to the same cell: offsets {:?}",
                addrs
                    .iter()
                    .map(|a| a.wrapping_sub(env.base_addr) / 4)
                    .collect::<Vec<_>>()
            );
            for (i, (a, off)) in addrs.iter().zip(lin.iter()).enumerate() {
                ensure!(
                    *a == env.addr(*off),
                    "iter_mut:wrong-address",
                    "iter_mut() item {i} points at storage offset {}, the model predicts {off}",
                    a.wrapping_sub(env.base_addr) / 4
                );
                ensure!(
                    *refs[i] == m.cells[*off],
                    "iter_mut:wrong-value",
                    "iter_mut() item {i} reads {}, the model has {}",
                    *refs[i],
                    m.cells[*off]
                );
            }
            // write through all of them while all are alive: back to front, then read front to back
            let ids: Vec<u32> = (0..refs.len()).map(|_| env.fresh()).collect();
            for (r, id) in refs.iter_mut().zip(ids.iter()).rev() {
                **r = *id;
            }
            for (i, (r, id)) in refs.iter().zip(ids.iter()).enumerate() {
                ensure!(
                    **r == *id,
                    "iter_mut:aliasing",
                    "value written through iter_mut() item {i} was overwritten through another item"
                );
            }
            drop(refs);
            for (off, id) in lin.iter().zip(ids.iter()) {
                m.cells[*off] = *id;
            }
            env.ctx.feat_n("iter_mut.live-refs", lin.len() as u64);
        }
        Access::IterMutNth { ks } => {
            let mut it = s.iter_mut();
            let mut idx = 0usize;
            let mut kept: Vec<(&mut u32, u32, usize)> = Vec::new();
            for k in ks {
                let got = it.nth(*k);
                idx += k + 1;
                match (got, lin.get(idx - 1)) {
                    (None, None) => {}
                    (Some(r), Some(off)) => {
                        ensure!(
                            &*r as *const u32 as usize == env.addr(*off) && *r == m.cells[*off],
                            "iter_mut:nth-wrong-item",
                            "iter_mut().nth sequence {ks:?}: element {} should be offset {off}, got offset {}",
                            idx - 1,
                            (&*r as *const u32 as usize).wrapping_sub(env.base_addr) / 4
                        );
                        let id = env.fresh();
                        *r = id;
                        kept.push((r, id, *off));
                    }
                    (got, want) => fail!(
                        "iter_mut:nth-presence",
                        "iter_mut().nth sequence {ks:?}: element {} of {}: got {:?}, model offset {:?}",
                        idx - 1,
                        lin.len(),
                        got.map(|r| *r),
                        want
                    ),
                }
            }
            for (r, id, _) in kept.iter() {
                ensure!(
                    **r == *id,
                    "iter_mut:aliasing",
                    "value written through an iter_mut().nth item was overwritten through another item"
                );
            }
            let written: Vec<(u32, usize)> = kept.iter().map(|(_, id, off)| (*id, *off)).collect();
            drop(kept);
            for (id, off) in written {
                m.cells[off] = id;
            }
        }
        Access::GetMut { row, col } => {
            let id = env.fresh();
            let want = m.at(*row, *col);
            match (s.get_mut(Position::new(*row, *col)), want) {
                (None, None) => {}
                (Some(r), Some(off)) => {
                    ensure!(
                        &*r as *const u32 as usize == env.addr(off),
                        "get_mut:wrong-cell",
                        "get_mut({row},{col}) points at storage offset {}, model {off}",
                        (&*r as *const u32 as usize).wrapping_sub(env.base_addr) / 4
                    );
                    *r = id;
                    m.cells[off] = id;
                }
                (Some(_), None) => fail!(
                    "get_mut:present-outside-window",
                    "get_mut({row},{col}) is Some outside a {}x{} window",
                    m.h,
                    m.w
                ),
                (None, Some(_)) => fail!(
                    "get_mut:absent-inside-window",
                    "get_mut({row},{col}) is None inside a {}x{} window",
                    m.h,
                    m.w
                ),
            }
        }
        Access::Set { row, col } => match m.at(*row, *col) {
            None => env.ctx.feat("acc.skipped.position-outside"),
            Some(off) => {
                let id = env.fresh();
                let old = s.set(Position::new(*row, *col), id);
                ensure!(
                    old == m.cells[off],
                    "set:returned-value",
                    "set({row},{col}) returned {old}, the cell held {}",
                    m.cells[off]
                );
                m.cells[off] = id;
            }
        },
        Access::Fill => {
            let id = env.fresh();
            s.fill(id);
            for off in lin.iter() {
                m.cells[*off] = id;
            }
        }
        Access::Clear => {
            s.clear();
            for off in lin.iter() {
                m.cells[*off] = 0;
            }
        }
        Access::FillWith => {
            let base = env.next_id;
            env.next_id += lin.len() as u32 + 1;
            let mut calls: Vec<(Position, u32)> = Vec::new();
            s.fill_with(|pos, old| {
                calls.push((pos, old));
                base + calls.len() as u32
            });
            ensure!(
                calls.len() == lin.len(),
                "fill_with:call-count",
                "fill_with() called the function {} times for a {}x{} window",
                calls.len(),
                m.h,
                m.w
            );
            for (i, (pos, old)) in calls.iter().enumerate() {
                let want = Position::new(i / m.w, i % m.w);
                ensure!(
                    *pos == want && *old == m.cells[lin[i]],
                    "fill_with:call-order",
                    "fill_with() call {i} got ({}, {old}), row-major model: ({}, {})",
                    pos_str(*pos),
                    pos_str(want),
                    m.cells[lin[i]]
                );
            }
            for (i, off) in lin.iter().enumerate() {
                m.cells[*off] = base + i as u32 + 1;
            }
        }
        Access::Insert { row, col, count } => match m.at(*row, *col) {
            None => env.ctx.feat("acc.skipped.position-outside"),
            Some(_) => {
                let ids: Vec<u32> = (0..*count).map(|_| env.fresh()).collect();
                s.insert(Position::new(*row, *col), ids.iter().copied());
                let first = row * m.w + col;
                for (off, id) in lin[first..].iter().zip(ids.iter()) {
                    m.cells[*off] = *id;
                }
                env.ctx.feat_if(first + count > lin.len(), "insert.truncated-at-window-end");
            }
        },
        Access::IterNth { .. } | Access::Map | Access::ToOwned => {}
    }
    Ok(())
}

fn final_ref<S: Surface<Item = u32>>(s: &S, m: &mut Model, env: &mut Env) -> Result<(), Fail> {
    read_checks(s, m, env)?;
    let accesses = env.acc;
    for acc in accesses {
        if acc.mutates() {
            env.ctx.feat("acc.skipped.immutable-chain");
            continue;
        }
        env.ctx.feat(acc.name());
        access_ref(s, acc, m, env)?;
    }
    verify(s, m, env, "read-only-accesses")?;
    env.ctx.feat("final.immutable");
    Ok(())
}

fn final_mut<S: SurfaceMut<Item = u32>>(s: &mut S, m: &mut Model, env: &mut Env) -> Result<(), Fail> {
    read_checks(s, m, env)?;
    let accesses = env.acc;
    for acc in accesses {
        env.ctx.feat(acc.name());
        if acc.mutates() {
            access_mut(s, acc, m, env)?;
        } else {
            access_ref(s, acc, m, env)?;
        }
        let after = &acc.name()[4..];
        verify(s, m, env, after)?;
    }
    // what the view shows after all of it
    read_checks(s, m, env)?;
    env.ctx.feat("final.mutable");
    Ok(())
}

// ---------------------------------------------------------------------------
// chain interpreters

fn chain_ref(s: &DynS<'_>, ops: &[Op], m: &mut Model, env: &mut Env) -> Result<(), Fail> {
    check_dims(s, m, "intermediate view")?;
    let Some((op, rest)) = ops.split_first() else {
        return final_ref(&s, m, env);
    };
    if op.needs_mut() {
        env.leave_domain("nondeciding.ill-typed-chain");
        return Ok(());
    }
    env.ctx.feat(op.name());
    match *op {
        Op::View { rows, cols } => {
            if !env.select(m, rows, cols)? {
                return Ok(());
            }
            let v = Surface::view(&s, rows, cols);
            chain_ref(&v, rest, m, env)
        }
        Op::ViewOwned { rows, cols } => {
            if !env.select(m, rows, cols)? {
                return Ok(());
            }
            let v = Surface::view_owned(s, rows, cols);
            chain_ref(&v, rest, m, env)
        }
        Op::Transpose => {
            m.transpose();
            let v = Surface::transpose(s);
            chain_ref(&v, rest, m, env)
        }
        Op::Boxed => {
            let v = Box::new(s);
            chain_ref(&v, rest, m, env)
        }
        Op::Arced => {
            let v = Arc::new(s);
            chain_ref(&v, rest, m, env)
        }
        Op::Shared => {
            let r = &s;
            chain_ref(&r, rest, m, env)
        }
        Op::AsRef => {
            let v = Surface::as_ref(s);
            chain_ref(&v, rest, m, env)
        }
        Op::ViewMut { .. } | Op::RefMut | Op::AsMut => unreachable!(),
    }
}

fn chain_mut(s: &mut DynM<'_>, ops: &[Op], m: &mut Model, env: &mut Env) -> Result<(), Fail> {
    let mut s = s;
    check_dims(&*s, m, "intermediate view")?;
    let Some((op, rest)) = ops.split_first() else {
        return final_mut(&mut s, m, env);
    };
    env.ctx.feat(op.name());
    match *op {
        Op::View { rows, cols } => {
            if !env.select(m, rows, cols)? {
                return Ok(());
            }
            let v = Surface::view(&s, rows, cols);
            chain_ref(&v, rest, m, env)
        }
        Op::ViewMut { rows, cols } => {
            if !env.select(m, rows, cols)? {
                return Ok(());
            }
            let mut v = SurfaceMut::view_mut(&mut s, rows, cols);
            chain_mut(&mut v, rest, m, env)
        }
        Op::ViewOwned { rows, cols } => {
            if !env.select(m, rows, cols)? {
                return Ok(());
            }
            let mut v = Surface::view_owned(s, rows, cols);
            chain_mut(&mut v, rest, m, env)
        }
        Op::Transpose => {
            m.transpose();
            let mut v = Surface::transpose(s);
            chain_mut(&mut v, rest, m, env)
        }
        Op::Boxed => {
            let mut v = Box::new(s);
            chain_mut(&mut v, rest, m, env)
        }
        Op::Arced => {
            let v = Arc::new(s);
            chain_ref(&v, rest, m, env)
        }
        Op::RefMut => {
            let mut r = &mut s;
            chain_mut(&mut r, rest, m, env)
        }
        Op::Shared => {
            let r = &s;
            chain_ref(&r, rest, m, env)
        }
        Op::AsMut => {
            let mut v = SurfaceMut::as_mut(s);
            chain_mut(&mut v, rest, m, env)
        }
        Op::AsRef => {
            let v = Surface::as_ref(&*s);
            chain_ref(&v, rest, m, env)
        }
    }
}

/// by-value nesting: leading view_owned/transpose ops consume the surface itself
fn by_value_0<S: SurfaceMut<Item = u32>>(
    s: S,
    ops: &[Op],
    m: &mut Model,
    env: &mut Env,
) -> Result<(), Fail> {
    match ops.split_first() {
        Some((Op::ViewOwned { rows, cols }, rest)) => {
            env.ctx.feat("op.view_owned");
            if !env.select(m, *rows, *cols)? {
                return Ok(());
            }
            by_value_1(s.view_owned(*rows, *cols), rest, m, env)
        }
        Some((Op::Transpose, rest)) => {
            env.ctx.feat("op.transpose");
            m.transpose();
            by_value_1(s.transpose(), rest, m, env)
        }
        _ => by_value_end(s, ops, m, env),
    }
}

fn by_value_1<S: SurfaceMut<Item = u32>>(
    s: S,
    ops: &[Op],
    m: &mut Model,
    env: &mut Env,
) -> Result<(), Fail> {
    check_dims(&s, m, "owned view")?;
    match ops.split_first() {
        Some((Op::ViewOwned { rows, cols }, rest)) => {
            env.ctx.feat("op.view_owned");
            if !env.select(m, *rows, *cols)? {
                return Ok(());
            }
            env.ctx.feat("nested-owned-view-by-value");
            by_value_end(s.view_owned(*rows, *cols), rest, m, env)
        }
        Some((Op::Transpose, rest)) => {
            env.ctx.feat("op.transpose");
            m.transpose();
            env.ctx.feat("nested-owned-view-by-value");
            by_value_end(s.transpose(), rest, m, env)
        }
        _ => by_value_end(s, ops, m, env),
    }
}

fn by_value_end<S: SurfaceMut<Item = u32>>(
    s: S,
    ops: &[Op],
    m: &mut Model,
    env: &mut Env,
) -> Result<(), Fail> {
    let mut s = s;
    chain_mut(&mut s, ops, m, env)?;
    if !env.nondeciding {
        // the owned view still holds the parent: its storage must equal the model's
        compare_storage(s.data(), m, "chain")?;
    }
    Ok(())
}

// ---------------------------------------------------------------------------

fn initial_cells(len: usize) -> Vec<u32> {
    (0..len).map(|o| o as u32 + 1).collect()
}

fn run_case(case: &Case, ctx: &mut Ctx) -> Result<(), Fail> {
    ctx.feat(case.base.name());
    let (h, w) = case.base.dims();
    if h > 64 || w > 64 || case.ops.len() > 32 || case.acc.len() > 64 {
        ctx.nondeciding = true;
        return Ok(());
    }
    match case.base {
        Base::Strided {
            h,
            w,
            start,
            row_stride,
            col_stride,
            len,
        } => {
            // the hand-built shape must address h*w distinct cells inside the slice
            let off = |r: usize, c: usize| start + r * row_stride + c * col_stride;
            let mut seen = std::collections::HashSet::new();
            let mut valid = len <= 1 << 16 && start <= len;
            for r in 0..h {
                for c in 0..w {
                    let o = off(r, c);
                    valid &= o < len && seen.insert(o);
                }
            }
            if !valid {
                ctx.nondeciding = true;
                ctx.feat("nondeciding.invalid-hand-built-shape");
                return Ok(());
            }
            let mut data = initial_cells(len);
            let mut m = Model::new(data.clone(), h, w, off);
            let end = if h * w > 0 {
                off(h - 1, w - 1) + 1
            } else {
                start
            };
            let shape = Shape {
                start,
                end,
                width: w,
                height: h,
                row_stride,
                col_stride,
            };
            let mut env = Env {
                ctx,
                acc: &case.acc,
                base_addr: data.as_ptr() as usize,
                next_id: 1_000_000,
                nondeciding: false,
            };
            {
                let mut view = SurfaceMutView::new(shape, &mut data[..]);
                chain_mut(&mut view, &case.ops, &mut m, &mut env)?;
            }
            if !env.nondeciding {
                compare_storage(&data, &m, "chain")?;
            }
            Ok(())
        }
        _ => {
            let mut owned = SurfaceOwned::new_with(Size::new(h, w), |p| (p.row * w + p.col) as u32 + 1);
            let mut m = Model::new(initial_cells(h * w), h, w, |r, c| r * w + c);
            let mut env = Env {
                ctx,
                acc: &case.acc,
                base_addr: owned.data().as_ptr() as usize,
                next_id: 1_000_000,
                nondeciding: false,
            };
            check_dims(&owned, &m, "parent")?;
            match case.base {
                Base::Owned { .. } => {
                    chain_mut(&mut owned, &case.ops, &mut m, &mut env)?;
                    if !env.nondeciding {
                        compare_storage(owned.data(), &m, "chain")?;
                    }
                    Ok(())
                }
                Base::ByValue { .. } => by_value_0(owned, &case.ops, &mut m, &mut env),
                Base::BoxedByValue { .. } => by_value_0(Box::new(owned), &case.ops, &mut m, &mut env),
                Base::SharedRef { .. } => {
                    chain_ref(&owned, &case.ops, &mut m, &mut env)?;
                    if !env.nondeciding {
                        compare_storage(owned.data(), &m, "chain")?;
                    }
                    Ok(())
                }
                Base::Arc { .. } => {
                    let shared = Arc::new(owned);
                    chain_ref(&shared, &case.ops, &mut m, &mut env)?;
                    if !env.nondeciding {
                        compare_storage(shared.data(), &m, "chain")?;
                    }
                    Ok(())
                }
                Base::Strided { .. } => unreachable!(),
            }
        }
    }
}

// ---------------------------------------------------------------------------
// generator

fn gen_sel(rng: &mut Rng, n: usize) -> Sel {
    let form = match rng.below(16) {
        0..=3 => Form::Full,
        4..=6 => Form::Range,
        7..=8 => Form::From,
        9..=10 => Form::To,
        11..=12 => Form::Incl,
        13 => Form::ToIncl,
        _ => Form::Index,
    };
    let n = n as i64;
    let (mut a, mut b);
    if rng.chance(3, 4) && n > 0 {
        // a selection that is likely non-empty, written with positive or from-the-end bounds
        let lo = rng.range_i64(0, n - 1);
        let hi = rng.range_i64(lo, n - 1);
        a = lo;
        // exclusive forms end one past
        b = if matches!(form, Form::Incl | Form::ToIncl) {
            hi
        } else {
            hi + 1
        };
        if rng.chance(1, 3) {
            a -= n;
        }
        if rng.chance(1, 3) && b < n {
            b -= n;
        }
    } else {
        // anything within twice the axis length
        a = rng.range_i64(-2 * n - 1, 2 * n + 1);
        b = rng.range_i64(-2 * n - 1, 2 * n + 1);
    }
    // now and then a bound at the edge of the 64-bit range (far outside any axis)
    if rng.chance(1, 40) {
        let extreme = *rng.pick(&[i64::MAX, i64::MAX - 1, i64::MIN, i64::MIN + 1, u32::MAX as i64 + 1, i32::MIN as i64 - 1]);
        if rng.bool() {
            a = extreme;
        } else {
            b = extreme;
        }
    }
    if !form.uses_a() {
        a = 0;
    }
    if !form.uses_b() {
        b = 0;
    }
    let ty = if a >= 0 && b >= 0 && rng.chance(1, 2) {
        Ty::Usize
    } else if rng.bool() {
        Ty::I32
    } else {
        Ty::I64
    };
    Sel { form, a, b, ty }
}

fn gen_extent(rng: &mut Rng, max: usize) -> usize {
    match rng.below(16) {
        0 => 0,
        1 => 1,
        _ => rng.range(1, max),
    }
}

impl Prop for C07 {
    type Case = Case;
    const ID: &'static str = "C07";

    fn default_cases(tier: Tier, flavour: &str) -> u64 {
        match (tier, flavour) {
            (_, "miri") | (_, "miri-sb") => tier.pick(320, 20_000),
            (Tier::Quick, _) => 2_000_000,
            (Tier::Thorough, "asan") | (Tier::Thorough, "valgrind") => 1_000_000,
            (Tier::Thorough, _) => 20_000_000,
        }
    }

    fn gen(rng: &mut Rng, _tier: Tier, index: u64) -> Case {
        let small = cfg!(miri);
        let max = if small { 4 } else { 9 };
        let (h, w) = (gen_extent(rng, max), gen_extent(rng, max));
        // bases round-robin so that every kind is exercised even in tiny (Miri) runs
        let base = match index % 8 {
            0 | 1 => Base::Owned { h, w },
            2 => Base::ByValue { h, w },
            3 => Base::BoxedByValue { h, w },
            4 => Base::SharedRef { h, w },
            5 if rng.chance(1, 2) => Base::Arc { h, w },
            _ => {
                let start = rng.range(0, 3);
                let inner = rng.range(1, 3);
                let pad = rng.range(0, 2);
                let (row_stride, col_stride) = if rng.bool() {
                    ((w.max(1) - 1) * inner + 1 + pad, inner)
                } else {
                    (inner, (h.max(1) - 1) * inner + 1 + pad)
                };
                let used = if h * w > 0 {
                    (h - 1) * row_stride + (w - 1) * col_stride + 1
                } else {
                    0
                };
                Base::Strided {
                    h,
                    w,
                    start,
                    row_stride,
                    col_stride,
                    len: start + used + rng.range(0, 3),
                }
            }
        };
        // ops, tracking mutability and the model extents so that bounds stay within ±2n
        let mut mutable = !base.immutable();
        let (mut mh, mut mw) = (h, w);
        let nops = match rng.below(10) {
            0 => 0,
            1 => 1,
            _ => rng.range(1, 6),
        };
        let mut ops = Vec::new();
        for _ in 0..nops {
            if mh * mw == 0 && rng.chance(3, 4) {
                // nothing left to select from: mostly stop here
                break;
            }
            let op = loop {
                let op = match rng.below(20) {
                    0..=5 => Op::ViewMut {
                        rows: gen_sel(rng, mh),
                        cols: gen_sel(rng, mw),
                    },
                    6..=8 => Op::ViewOwned {
                        rows: gen_sel(rng, mh),
                        cols: gen_sel(rng, mw),
                    },
                    9..=10 => Op::View {
                        rows: gen_sel(rng, mh),
                        cols: gen_sel(rng, mw),
                    },
                    11..=13 => Op::Transpose,
                    14 => Op::Boxed,
                    15 => Op::RefMut,
                    16 => Op::AsMut,
                    17 => Op::Shared,
                    18 => Op::AsRef,
                    _ => Op::Arced,
                };
                if !mutable && op.needs_mut() {
                    // same selection through the immutable method
                    if let Op::ViewMut { rows, cols } = op {
                        break Op::View { rows, cols };
                    }
                    continue;
                }
                // keep most chains mutable to the end: that is where the unsafe code is
                if mutable && op.makes_immutable() && rng.chance(2, 3) {
                    continue;
                }
                break op;
            };
            if op.makes_immutable() {
                mutable = false;
            }
            if let Some((rows, cols)) = op.selectors() {
                match (rows.reference(mh), cols.reference(mw)) {
                    (Some((r0, r1)), Some((c0, c1))) => {
                        mh = r1 - r0;
                        mw = c1 - c0;
                    }
                    _ => {
                        mh = 0;
                        mw = 0;
                    }
                }
            }
            if op == Op::Transpose {
                std::mem::swap(&mut mh, &mut mw);
            }
            ops.push(op);
        }
        // accesses
        let nacc = if small { rng.range(1, 2) } else { rng.range(1, 4) };
        let cells = mh * mw;
        let gen_ks = |rng: &mut Rng| -> Vec<usize> {
            (0..rng.range(1, 5))
                .map(|_| match rng.below(4) {
                    0 => 0,
                    1 => rng.range(0, mw + 1),
                    _ => rng.range(0, cells / 2 + 2),
                })
                .collect()
        };
        let mut acc = Vec::new();
        for _ in 0..nacc {
            let pick = if mutable { rng.below(14) } else { 11 + rng.below(3) };
            acc.push(match pick {
                0..=1 => Access::IterMut { with_pos: false },
                2 => Access::IterMut { with_pos: true },
                3..=4 => Access::IterMutNth { ks: gen_ks(rng) },
                5 => Access::GetMut {
                    row: rng.range(0, mh + 1),
                    col: rng.range(0, mw + 1),
                },
                6 => Access::Set {
                    row: rng.range(0, mh.max(1) - 1),
                    col: rng.range(0, mw.max(1) - 1),
                },
                7 => Access::Fill,
                8 => Access::Clear,
                9 => Access::FillWith,
                10 => Access::Insert {
                    row: rng.range(0, mh.max(1) - 1),
                    col: rng.range(0, mw.max(1) - 1),
                    count: rng.range(0, cells + 2),
                },
                11 => Access::IterNth { ks: gen_ks(rng) },
                12 => Access::Map,
                _ => Access::ToOwned,
            });
        }
        Case { base, ops, acc }
    }

    fn check(case: &Case, ctx: &mut Ctx) -> Result<(), Fail> {
        run_case(case, ctx)?;
        if !ctx.nondeciding {
            let views = case.ops.iter().filter(|o| o.selectors().is_some()).count();
            let transposes = case.ops.iter().filter(|o| **o == Op::Transpose).count();
            ctx.feat(&format!("chain.view-ops={}", views.min(5)));
            ctx.feat_if(transposes > 0 && views > 0, "chain.view+transpose");
            ctx.feat_if(transposes % 2 == 1, "chain.transposed");
            let (h, w) = case.base.dims();
            ctx.feat_if(h == 0 || w == 0, "parent.zero-extent");
        }
        Ok(())
    }

    fn nontrivial(case: &Case) -> bool {
        let (h, w) = case.base.dims();
        h * w > 1 && case.ops.iter().any(|o| o.selectors().is_some() || *o == Op::Transpose)
    }

    fn case_hash(case: &Case) -> u64 {
        let mut hasher = std::collections::hash_map::DefaultHasher::new();
        case.hash(&mut hasher);
        hasher.finish()
    }

    fn shrink(case: &Case) -> Vec<Case> {
        let mut out = Vec::new();
        for ops in shrink_vec(&case.ops) {
            out.push(Case {
                ops,
                ..case.clone()
            });
        }
        for acc in shrink_vec(&case.acc) {
            out.push(Case {
                acc,
                ..case.clone()
            });
        }
        let (h, w) = case.base.dims();
        if !matches!(case.base, Base::Owned { .. }) {
            out.push(Case {
                base: Base::Owned { h, w },
                ..case.clone()
            });
        }
        // plainer selectors
        for (i, op) in case.ops.iter().enumerate() {
            if let Some((rows, cols)) = op.selectors() {
                for (r, c) in [(Sel::FULL, cols), (rows, Sel::FULL)] {
                    if (r, c) != (rows, cols) {
                        let mut ops = case.ops.clone();
                        ops[i] = match op {
                            Op::View { .. } => Op::View { rows: r, cols: c },
                            Op::ViewMut { .. } => Op::ViewMut { rows: r, cols: c },
                            _ => Op::ViewOwned { rows: r, cols: c },
                        };
                        out.push(Case {
                            ops,
                            ..case.clone()
                        });
                    }
                }
            }
        }
        out
    }

    fn rule() -> &'static str {
        "case = (base surface kind and extents 0..9 x 0..9 incl. hand-built strided shapes, chain of 0-6 view/view_mut/view_owned/transpose/Box/Arc/&/&mut/as_ref/as_mut steps with selectors of all seven forms in i32/i64/usize within ±2n, 1-4 access operations); non-trivial = parent has more than one cell and the chain has a view or transpose; distinct = hash of the whole case"
    }

    fn sample(case: &Case) -> serde_json::Value {
        let ops: Vec<String> = case
            .ops
            .iter()
            .map(|op| match op.selectors() {
                Some((r, c)) => format!("{}({}, {})", &op.name()[3..], r.render(), c.render()),
                None => op.name()[3..].to_string(),
            })
            .collect();
        serde_json::json!({
            "base": format!("{:?}", case.base),
            "ops": ops,
            "accesses": case.acc.iter().map(|a| format!("{a:?}")).collect::<Vec<_>>(),
        })
    }
}
