//! C11 — kitty graphics output transmits exactly the image; draw and erase stay paired
//!
//! The real `KittyImageHandler` is driven through a history of draw / erase / terminal
//! responses. Everything it writes is read by the independent protocol reader in
//! `models::kitty` (APC splitter, control-data parser, chunk re-assembly, RFC 4648 decoder,
//! terminal-side store of transmitted images and placements). A shadow of the history
//! (which image content was drawn where) supplies the expectations.
//!
//! Assumption (not reachable by this family): distinct image contents get distinct image
//! ids (the handler derives a 32-bit id from a 64-bit FNV hash; a collision has probability
//! 2^-32 per pair). A case in which two different contents are seen under one id is counted
//! as non-deciding.
use crate::core::{fnv, shrink_vec, Ctx, Fail, Prop, Tier};
use crate::models::kitty::{self, Effect, Item, Store};
use crate::props::c14::ref_decode;
use crate::rng::Rng;
use crate::{ensure, fail};
use serde::{Deserialize, Serialize};
use std::collections::{BTreeMap, BTreeSet};
use std::sync::Arc;
use surf_n_term::{
    surface::Shape, Image, ImageHandler, KittyImageHandler, Position, Size, Surface, SurfaceOwned,
    TerminalEvent, RGBA,
};

pub struct C11;

#[derive(Clone, Debug, Serialize, Deserialize)]
pub struct Base {
    pub w: usize,
    pub h: usize,
    /// w*h pixels, 0xRRGGBBAA
    pub px: Vec<u32>,
}

/// A view over (the possibly transposed) base: rows r0, r0+sr, … < r1; cols c0, c0+sc, … < c1
#[derive(Clone, Debug, Serialize, Deserialize)]
pub struct ImgSpec {
    pub base: usize,
    pub transposed: bool,
    pub r0: usize,
    pub r1: usize,
    pub c0: usize,
    pub c1: usize,
    pub sr: usize,
    pub sc: usize,
    /// copy the view into a fresh buffer (same content, different allocation and shape)
    pub owned: bool,
}

#[derive(Clone, Debug, Serialize, Deserialize)]
pub enum Ev {
    Draw { img: usize, row: usize, col: usize },
    Erase { img: usize, pos: Option<(usize, usize)> },
    /// terminal response to the `put`-th placement command emitted so far (modulo their number)
    Respond { put: usize, error: bool, placement: bool },
    /// response naming an id the handler may never have used
    RespondUnknown { id: u64, placement: Option<u64>, error: bool },
    /// draw into a writer that takes `budget` more bytes and then fails (tty gone, EIO, ...)
    DrawFailing { img: usize, row: usize, col: usize, budget: usize },
}

/// Writer that accepts `left` more bytes (short writes included) and then reports an error
struct FailingWriter {
    out: Vec<u8>,
    left: usize,
}

impl std::io::Write for FailingWriter {
    fn write(&mut self, buf: &[u8]) -> std::io::Result<usize> {
        if self.left == 0 && !buf.is_empty() {
            return Err(std::io::Error::other("injected write failure"));
        }
        let n = buf.len().min(self.left);
        self.out.extend_from_slice(&buf[..n]);
        self.left -= n;
        Ok(n)
    }
    fn flush(&mut self) -> std::io::Result<()> {
        Ok(())
    }
}

#[derive(Clone, Debug, Serialize, Deserialize)]
pub struct Case {
    pub quiet: bool,
    pub bases: Vec<Base>,
    pub pool: Vec<ImgSpec>,
    pub events: Vec<Ev>,
}

fn rgba(px: u32) -> RGBA {
    RGBA::new((px >> 24) as u8, (px >> 16) as u8, (px >> 8) as u8, px as u8)
}

impl ImgSpec {
    /// (height, width) of the view
    fn dims(&self) -> (usize, usize) {
        let h = if self.r1 > self.r0 {
            (self.r1 - self.r0).div_ceil(self.sr.max(1))
        } else {
            0
        };
        let w = if self.c1 > self.c0 {
            (self.c1 - self.c0).div_ceil(self.sc.max(1))
        } else {
            0
        };
        if h == 0 || w == 0 {
            (0, 0)
        } else {
            (h, w)
        }
    }

    /// expected pixel bytes (RGBA row-major), computed from the base without the library
    fn expected(&self, base: &Base) -> Vec<u8> {
        let (h, w) = self.dims();
        let mut out = Vec::with_capacity(h * w * 4);
        for r in 0..h {
            for c in 0..w {
                let vr = self.r0 + r * self.sr.max(1);
                let vc = self.c0 + c * self.sc.max(1);
                let (br, bc) = if self.transposed { (vc, vr) } else { (vr, vc) };
                let px = base.px[br * base.w + bc];
                out.extend_from_slice(&px.to_be_bytes());
            }
        }
        out
    }

    /// does the spec stay inside its base
    fn valid(&self, base: &Base) -> bool {
        let (vh, vw) = if self.transposed {
            (base.w, base.h)
        } else {
            (base.h, base.w)
        };
        self.r1 <= vh && self.c1 <= vw && self.sr >= 1 && self.sc >= 1
    }

    fn build(&self, base: &Base, data: &Arc<[RGBA]>) -> Image {
        let (h, w) = self.dims();
        let plain = !self.transposed && self.sr == 1 && self.sc == 1;
        let img = if plain {
            // the public way: crop of an image over the shared buffer
            let full = Image::from_parts(
                data.clone(),
                Shape::from(Size {
                    height: base.h,
                    width: base.w,
                }),
            );
            if self.r0 == 0 && self.c0 == 0 && self.r1 == base.h && self.c1 == base.w {
                full
            } else {
                full.crop(self.r0..self.r1, self.c0..self.c1)
            }
        } else if h == 0 || w == 0 {
            Image::from_parts(
                data.clone(),
                Shape {
                    start: 0,
                    end: 0,
                    width: 0,
                    height: 0,
                    row_stride: 0,
                    col_stride: 0,
                },
            )
        } else {
            // strided / transposed window described directly by a shape
            let (unit_r, unit_c) = if self.transposed {
                (1, base.w)
            } else {
                (base.w, 1)
            };
            let start = self.r0 * unit_r + self.c0 * unit_c;
            let row_stride = self.sr * unit_r;
            let col_stride = self.sc * unit_c;
            let end = start + (h - 1) * row_stride + (w - 1) * col_stride + 1;
            Image::from_parts(
                data.clone(),
                Shape {
                    start,
                    end,
                    width: w,
                    height: h,
                    row_stride,
                    col_stride,
                },
            )
        };
        if self.owned {
            let mut pixels = Vec::with_capacity(h * w);
            for px in self.expected(base).chunks(4) {
                pixels.push(RGBA::new(px[0], px[1], px[2], px[3]));
            }
            let _ = img;
            Image::from(SurfaceOwned::new_with(
                Size {
                    height: h,
                    width: w,
                },
                |pos| pixels[pos.row * w + pos.col],
            ))
        } else {
            img
        }
    }
}

/// identity of an image content: dimensions + pixels
type Content = (usize, usize, Vec<u8>);

struct Shadow {
    /// content index -> image id seen on the wire
    id_of: BTreeMap<usize, u32>,
    content_of: BTreeMap<u32, usize>,
    transmitted: BTreeSet<usize>,
    /// an error response for the content's id arrived since its last transmission
    permitted: BTreeSet<usize>,
    /// (content, pos) -> placement named by the last draw there
    drawn: BTreeMap<(usize, (usize, usize)), (u32, u32)>,
    owner: BTreeMap<(u32, u32), (usize, (usize, usize))>,
    /// placements that should currently exist
    live: BTreeSet<(usize, (usize, usize))>,
    puts: Vec<(u32, u32)>,
}

enum Source {
    Draw { content: usize, pos: (usize, usize) },
    Erase,
    Handle,
}

/// two positions whose draws name the same (image, placement) pair. The pair
/// {(0,0), (65535,65535)} is a class of its own: with position-derived 32-bit ids that must
/// avoid 0 one collision is unavoidable (65536^2 positions, 2^32 - 1 usable ids).
fn collision_sig(a: (usize, usize), b: (usize, usize)) -> String {
    let corner = (65535, 65535);
    if (a == (0, 0) && b == corner) || (a == corner && b == (0, 0)) {
        "placement-id-collision:origin-vs-(65535,65535)".into()
    } else {
        "placement-id-collision".into()
    }
}

fn outside_reader(sig: &str) -> bool {
    matches!(
        sig,
        "transmit:medium-not-direct"
            | "transmit:compressed"
            | "delete:unsupported-target"
            | "control:unsupported-action"
    )
}

impl Prop for C11 {
    type Case = Case;
    const ID: &'static str = "C11";

    fn default_cases(tier: Tier, flavour: &str) -> u64 {
        match (tier, flavour) {
            (_, "miri") | (_, "miri-sb") => tier.pick(60, 400),
            (Tier::Quick, _) => 100_000,
            (Tier::Thorough, "asan") | (Tier::Thorough, "valgrind") => 300_000,
            (Tier::Thorough, _) => 4_000_000,
        }
    }

    fn gen(rng: &mut Rng, tier: Tier, index: u64) -> Case {
        let max_dim = if tier.quick() { 40 } else { 48 };
        let nbases = rng.range(1, 3);
        let mut bases = Vec::new();
        for b in 0..nbases {
            // NB: moduli on `index` are odd so that they stay uniform under 2^k-way sharding
            // (a worker sees indices k*nshards + shard)
            let (w, h) = match (index as usize + b) % 7 {
                0 => (1, 1),
                1 => (rng.range(0, 3), rng.range(0, 3)),
                // around the 4096-byte base64 chunk: 3072 bytes = 768 pixels
                2 => *rng.pick(&[(32, 24), (24, 32), (16, 48), (33, 24), (31, 25), (24, 64), (48, 32), (1, 768), (767, 1), (769, 1)]),
                3 => (rng.range(1, max_dim), 1),
                4 => (1, rng.range(1, max_dim)),
                _ => (rng.range(1, max_dim), rng.range(1, max_dim)),
            };
            let (w, h) = if tier.quick() && w * h > 1700 { (w.min(40), h.min(40)) } else { (w, h) };
            let style = rng.below(5);
            let px: Vec<u32> = (0..w * h)
                .map(|i| match style {
                    0 => 0,
                    1 => 0xffff_ffff,
                    2 => (i as u32).wrapping_mul(0x0101_0101),
                    _ => rng.next_u32(),
                })
                .collect();
            bases.push(Base { w, h, px });
        }
        let npool = rng.range(1, 5);
        let mut pool: Vec<ImgSpec> = Vec::new();
        for _ in 0..npool {
            // sometimes a second handle on an existing content: same view again as an owned copy
            if !pool.is_empty() && rng.chance(1, 5) {
                let mut spec = rng.pick(&pool).clone();
                spec.owned = !spec.owned;
                pool.push(spec);
                continue;
            }
            let base = rng.below(bases.len());
            let b = &bases[base];
            let transposed = rng.chance(1, 4);
            let (vh, vw) = if transposed { (b.w, b.h) } else { (b.h, b.w) };
            let (r0, r1, c0, c1) = match rng.below(6) {
                0 | 1 | 2 => (0, vh, 0, vw),
                // cropped to nothing
                3 if rng.chance(1, 3) => {
                    let r = rng.range(0, vh);
                    (r, r, 0, vw)
                }
                _ if vh > 0 && vw > 0 => {
                    let r0 = rng.range(0, vh - 1);
                    let r1 = rng.range(r0 + 1, vh);
                    let c0 = rng.range(0, vw - 1);
                    let c1 = rng.range(c0 + 1, vw);
                    (r0, r1, c0, c1)
                }
                _ => (0, vh, 0, vw),
            };
            let (sr, sc) = if rng.chance(1, 5) {
                (rng.range(1, 3), rng.range(1, 3))
            } else {
                (1, 1)
            };
            pool.push(ImgSpec {
                base,
                transposed,
                r0,
                r1,
                c0,
                c1,
                sr,
                sc,
                owned: rng.chance(1, 6),
            });
        }
        // positions of this history
        let edges = [0usize, 0, 1, 65535, 65534, 255, 256];
        let npos = rng.range(1, 4);
        let mut positions: Vec<(usize, usize)> = Vec::new();
        for k in 0..npos {
            let pos = match rng.below(6) {
                0 => (0, 0),
                1 => (*rng.pick(&edges), *rng.pick(&edges)),
                2 if rng.chance(1, 8) => (65535, 65535),
                2 | 3 => (rng.range(0, 60), rng.range(0, 200)),
                _ => (rng.range(0, 65535), rng.range(0, 65535)),
            };
            // every 3rd history has the origin in it
            let pos = if k == 0 && index % 3 == 0 { (0, 0) } else { pos };
            positions.push(pos);
        }
        let nev = rng.range(1, if tier.quick() { 30 } else { 40 });
        let mut events = Vec::new();
        for _ in 0..nev {
            let img = rng.below(pool.len());
            let (row, col) = *rng.pick(&positions);
            let ev = match rng.below(20) {
                0 if rng.chance(1, 2) => Ev::DrawFailing {
                    img,
                    row,
                    col,
                    budget: match rng.below(5) {
                        0 => 0,
                        1 => rng.range(1, 80),
                        2 => rng.range(4000, 4300),
                        3 => rng.range(0, 20000),
                        _ => rng.range(0, 600),
                    },
                },
                0..=9 => Ev::Draw { img, row, col },
                10..=13 => Ev::Erase {
                    img,
                    pos: Some((row, col)),
                },
                14 => Ev::Erase { img, pos: None },
                15..=17 => Ev::Respond {
                    put: rng.below(64),
                    error: rng.chance(2, 3),
                    placement: rng.chance(3, 4),
                },
                18 => Ev::Respond {
                    put: rng.below(64),
                    error: false,
                    placement: true,
                },
                _ => Ev::RespondUnknown {
                    id: rng.next_u32() as u64,
                    placement: rng.bool().then(|| rng.next_u32() as u64),
                    error: rng.bool(),
                },
            };
            events.push(ev);
        }
        Case {
            quiet: rng.bool(),
            bases,
            pool,
            events,
        }
    }

    fn check(case: &Case, ctx: &mut Ctx) -> Result<(), Fail> {
        // ---- build the images and their expected contents
        for spec in case.pool.iter() {
            let ok = case.bases.get(spec.base).is_some_and(|b| b.px.len() == b.w * b.h && spec.valid(b));
            if !ok {
                ctx.nondeciding = true;
                return Ok(());
            }
        }
        let buffers: Vec<Arc<[RGBA]>> = case
            .bases
            .iter()
            .map(|b| b.px.iter().map(|p| rgba(*p)).collect::<Vec<_>>().into())
            .collect();
        let mut contents: Vec<Content> = Vec::new();
        let mut images: Vec<(Image, usize)> = Vec::new();
        for spec in case.pool.iter() {
            let base = &case.bases[spec.base];
            let (h, w) = spec.dims();
            let content: Content = (h, w, spec.expected(base));
            let cid = match contents.iter().position(|c| *c == content) {
                Some(cid) => {
                    ctx.feat("pool.same-content-twice");
                    cid
                }
                None => {
                    contents.push(content);
                    contents.len() - 1
                }
            };
            let img = spec.build(base, &buffers[spec.base]);
            // the image object must describe what the case says (this is C07's business; a
            // disagreement here would make every later expectation meaningless)
            ensure!(
                img.height() == h && img.width() == w || (h * w == 0 && img.is_empty()),
                "setup:image-dimensions",
                "view {:?} has size {}x{} expected {}x{}",
                spec,
                img.height(),
                img.width(),
                h,
                w
            );
            ctx.feat_if(h * w == 0, "image.empty");
            ctx.feat_if(h * w == 1, "image.1x1");
            ctx.feat_if(spec.transposed, "image.transposed");
            ctx.feat_if(spec.sr > 1 || spec.sc > 1, "image.strided");
            ctx.feat_if(
                !spec.transposed && spec.sr == 1 && spec.sc == 1 && w > 0 && w < base.w,
                "image.cropped-columns",
            );
            images.push((img, cid));
        }

        ctx.feat("cases");
        ctx.feat_if(case.quiet, "handler.quiet");
        let mut concrete = if case.quiet {
            KittyImageHandler::new().quiet()
        } else {
            KittyImageHandler::new()
        };
        // half of the histories talk to the handler the way the terminal object holds it: boxed,
        // behind the trait object
        let mut boxed: Box<dyn ImageHandler> = if case.quiet {
            Box::new(Box::new(KittyImageHandler::new().quiet()))
        } else {
            Box::new(KittyImageHandler::new())
        };
        let use_boxed = (case.events.len() + case.pool.len()) % 2 == 1;
        ctx.feat_if(use_boxed, "handler.boxed-trait-object");
        let handler: &mut dyn ImageHandler = if use_boxed { &mut boxed } else { &mut concrete };
        let mut store = Store::new();
        let mut sh = Shadow {
            id_of: BTreeMap::new(),
            content_of: BTreeMap::new(),
            transmitted: BTreeSet::new(),
            permitted: BTreeSet::new(),
            drawn: BTreeMap::new(),
            owner: BTreeMap::new(),
            live: BTreeSet::new(),
            puts: Vec::new(),
        };

        for (step, ev) in case.events.iter().enumerate() {
            let mut out: Vec<u8> = Vec::new();
            let source;
            // the writer failed under this draw: only what it had accepted reached the terminal
            let mut failed_draw = false;
            // ---- drive the real handler
            match ev {
                Ev::Draw { img, row, col } => {
                    let Some((image, cid)) = images.get(*img) else {
                        continue;
                    };
                    if *row > 65535 || *col > 65535 {
                        ctx.nondeciding = true;
                        return Ok(());
                    }
                    handler
                        .draw(&mut out, image, Position::new(*row, *col))
                        .map_err(|e| Fail::new("draw:error", format!("step {step}: draw returned {e}")))?;
                    source = Source::Draw {
                        content: *cid,
                        pos: (*row, *col),
                    };
                    ctx.feat("ev.draw");
                    ctx.feat_if((*row, *col) == (0, 0), "ev.draw@origin");
                    ctx.feat_if(*row == 65535 || *col == 65535, "ev.draw@65535");
                }
                Ev::DrawFailing { img, row, col, budget } => {
                    let Some((image, cid)) = images.get(*img) else {
                        continue;
                    };
                    if *row > 65535 || *col > 65535 {
                        ctx.nondeciding = true;
                        return Ok(());
                    }
                    let mut writer = FailingWriter { out: Vec::new(), left: *budget };
                    let result = handler.draw(&mut writer, image, Position::new(*row, *col));
                    out = writer.out;
                    if result.is_err() {
                        failed_draw = true;
                        // the terminal executes the commands it received whole; the torn one is
                        // abandoned together with the chunked transmission it belonged to
                        let whole = out.windows(2).rposition(|w| w == b"\x1b\\").map(|at| at + 2).unwrap_or(0);
                        ctx.feat_if(whole > 0, "ev.draw-failing.part-of-output-delivered");
                        out.truncate(whole);
                        ctx.feat("ev.draw-failing.writer-error");
                    } else {
                        ctx.feat("ev.draw-failing.budget-sufficed");
                    }
                    source = Source::Draw {
                        content: *cid,
                        pos: (*row, *col),
                    };
                }
                Ev::Erase { img, pos } => {
                    let Some((image, _)) = images.get(*img) else {
                        continue;
                    };
                    if pos.is_some_and(|(r, c)| r > 65535 || c > 65535) {
                        ctx.nondeciding = true;
                        return Ok(());
                    }
                    handler
                        .erase(&mut out, image, pos.map(|(r, c)| Position::new(r, c)))
                        .map_err(|e| Fail::new("erase:error", format!("step {step}: erase returned {e}")))?;
                    source = Source::Erase;
                    ctx.feat(if pos.is_some() { "ev.erase@pos" } else { "ev.erase-all" });
                }
                Ev::Respond { put, error, placement } => {
                    if sh.puts.is_empty() {
                        continue;
                    }
                    let (id, p) = sh.puts[*put % sh.puts.len()];
                    let event = TerminalEvent::KittyImage {
                        id: id as u64,
                        placement: placement.then_some(p as u64),
                        error: error.then(|| "ENOENT:Put command refers to non-existent image".to_string()),
                    };
                    if *error {
                        if let Some(cid) = sh.content_of.get(&id).copied() {
                            sh.permitted.insert(cid);
                            // the harness plays the terminal: having answered ENOENT it no longer holds
                            // the image, nor any of its placements
                            store.evict(id);
                            sh.live.retain(|(c, _)| *c != cid);
                            ctx.feat("terminal.image-evicted-by-error-response");
                        }
                    }
                    handler
                        .handle(&mut out, &event)
                        .map_err(|e| Fail::new("handle:error", format!("step {step}: handle returned {e}")))?;
                    source = Source::Handle;
                    ctx.feat(match (*error, *placement) {
                        (true, true) => "ev.response.error+placement",
                        (true, false) => "ev.response.error",
                        (false, _) => "ev.response.ok",
                    });
                }
                Ev::RespondUnknown { id, placement, error } => {
                    let event = TerminalEvent::KittyImage {
                        id: *id,
                        placement: *placement,
                        error: error.then(|| "EINVAL:unknown".to_string()),
                    };
                    if *error {
                        if let Some(cid) = u32::try_from(*id).ok().and_then(|id| sh.content_of.get(&id)) {
                            sh.permitted.insert(*cid);
                        }
                    }
                    handler
                        .handle(&mut out, &event)
                        .map_err(|e| Fail::new("handle:error", format!("step {step}: handle returned {e}")))?;
                    source = Source::Handle;
                    ctx.feat("ev.response.unknown-id");
                }
            }

            // ---- read what it wrote
            let items = kitty::split(&out).map_err(|e| {
                Fail::new(
                    format!("malformed:{}", e.sig),
                    format!("step {step} {ev:?}: {} in {:?}", e.what, String::from_utf8_lossy(&out[..out.len().min(120)])),
                )
            })?;
            let mut puts_here = 0usize;
            let mut deleted: Option<(Option<u32>, Option<u32>)> = None;
            for item in items {
                let cmd = match item {
                    Item::Other(bytes) => {
                        // draw/erase output consists of graphics commands only
                        if !matches!(source, Source::Handle) {
                            fail!(
                                "malformed:bytes-outside-graphics-command",
                                "step {step} {ev:?}: {:?} emitted outside of a graphics command",
                                String::from_utf8_lossy(&bytes[..bytes.len().min(60)])
                            );
                        }
                        ctx.feat("handle.cursor-bytes");
                        continue;
                    }
                    Item::Graphics(cmd) => cmd,
                };
                let effects = match store.apply(&cmd, ref_decode) {
                    Ok(effects) => effects,
                    Err(e) if outside_reader(e.sig) => {
                        ctx.nondeciding = true;
                        ctx.feat("outside-reference-reader");
                        return Ok(());
                    }
                    Err(e) => fail!(
                        format!("protocol:{}", e.sig),
                        "step {step} {ev:?}: {} [{}]",
                        e.what,
                        cmd.render()
                    ),
                };
                for effect in effects {
                    match effect {
                        Effect::Chunk => ctx.feat("wire.chunk-continued"),
                        Effect::Transmitted {
                            id,
                            width,
                            height,
                            data,
                            chunks,
                            replaced,
                            quiet: _,
                        } => {
                            let cid = match &source {
                                Source::Draw { content, .. } => *content,
                                Source::Handle => match sh.content_of.get(&id) {
                                    Some(cid) => *cid,
                                    None => fail!(
                                        "handle:transmits-unknown-image",
                                        "step {step} {ev:?}: response handling transmitted id {id} which no draw introduced"
                                    ),
                                },
                                Source::Erase => fail!(
                                    "erase:transmits",
                                    "step {step} {ev:?}: erase transmitted pixel data (id {id})"
                                ),
                            };
                            // id <-> content
                            if let Some(other) = sh.content_of.get(&id) {
                                if *other != cid {
                                    // two contents under one id: the 2^-32 hash collision assumption
                                    ctx.nondeciding = true;
                                    ctx.feat("assumption.hash-collision");
                                    return Ok(());
                                }
                            }
                            if let Some(prev) = sh.id_of.get(&cid) {
                                ensure!(
                                    *prev == id,
                                    "transmit:id-changed-for-same-content",
                                    "step {step} {ev:?}: content was id {prev}, now transmitted as {id}"
                                );
                            }
                            sh.id_of.insert(cid, id);
                            sh.content_of.insert(id, cid);
                            let (h, w, pixels) = &contents[cid];
                            ensure!(
                                width as usize == *w && height as usize == *h,
                                "payload:declared-size",
                                "step {step} {ev:?}: declared s={width} v={height}, image is {w} wide {h} high"
                            );
                            if data != *pixels {
                                let at = data.iter().zip(pixels.iter()).position(|(a, b)| a != b);
                                fail!(
                                    "payload:pixels-differ",
                                    "step {step} {ev:?}: decoded payload ({} bytes) differs from the image's RGBA row-major pixels ({} bytes), first difference at byte {:?}; image {}x{}",
                                    data.len(),
                                    pixels.len(),
                                    at,
                                    w,
                                    h
                                );
                            }
                            for (k, len) in chunks.iter().enumerate() {
                                ensure!(
                                    *len <= 4096,
                                    "chunk:larger-than-4096",
                                    "step {step} {ev:?}: chunk {k} of {} has {len} bytes",
                                    chunks.len()
                                );
                                ensure!(
                                    *len % 4 == 0,
                                    "chunk:not-multiple-of-4",
                                    "step {step} {ev:?}: chunk {k} of {} has {len} bytes",
                                    chunks.len()
                                );
                            }
                            // at most once per content, unless an error response intervened
                            if sh.transmitted.contains(&cid) && !sh.permitted.contains(&cid) {
                                fail!(
                                    "transmit:same-content-twice",
                                    "step {step} {ev:?}: pixel data of a {w}x{h} image (id {id}) transmitted again without an error response in between"
                                );
                            }
                            if sh.transmitted.contains(&cid) {
                                ctx.feat("wire.retransmit-after-error");
                            }
                            sh.transmitted.insert(cid);
                            sh.permitted.remove(&cid);
                            if replaced {
                                // protocol: re-sending an id replaces the image and drops its placements
                                sh.live.retain(|(c, _)| *c != cid);
                            }
                            ctx.feat("wire.transmit");
                            ctx.feat_if(chunks.len() > 1, "wire.transmit.multi-chunk");
                            ctx.feat_if(chunks.len() > 1 && *chunks.last().unwrap() == 4096, "wire.transmit.last-chunk-full");
                            ctx.feat_if(chunks.len() == 1 && chunks[0] == 4096, "wire.transmit.exactly-4096");
                        }
                        Effect::Put {
                            id,
                            placement,
                            existed: _,
                            quiet: _,
                        } => {
                            puts_here += 1;
                            let (cid, pos) = match &source {
                                Source::Draw { content, pos } => (*content, *pos),
                                Source::Handle => match sh.owner.get(&(id, placement)) {
                                    Some(owner) => *owner,
                                    None => fail!(
                                        "handle:places-unknown-placement",
                                        "step {step} {ev:?}: response handling placed (i={id},p={placement}) which no draw created"
                                    ),
                                },
                                Source::Erase => fail!(
                                    "erase:places",
                                    "step {step} {ev:?}: erase emitted a placement command"
                                ),
                            };
                            // the placement must refer to the transmitted data of *this* content
                            match sh.id_of.get(&cid) {
                                Some(want) if *want == id => {}
                                other => fail!(
                                    "put:refers-to-other-image",
                                    "step {step} {ev:?}: placement names image id {id}, the drawn content was transmitted as {other:?}"
                                ),
                            }
                            if let Some(owner) = sh.owner.get(&(id, placement)) {
                                if *owner != (cid, pos) {
                                    fail!(
                                        collision_sig(owner.1, pos),
                                        "step {step} {ev:?}: drawing at {pos:?} reuses placement (i={id},p={placement}) created by the draw at {:?}; the two can no longer be erased separately",
                                        owner.1
                                    );
                                }
                            }
                            sh.owner.insert((id, placement), (cid, pos));
                            sh.drawn.insert((cid, pos), (id, placement));
                            sh.live.insert((cid, pos));
                            sh.puts.push((id, placement));
                            ctx.feat("wire.put");
                            ctx.feat_if(placement == 0, "wire.put.p=0");
                        }
                        Effect::Deleted { id, placement, .. } => {
                            deleted = Some((id, placement));
                            if !matches!(source, Source::Erase) {
                                fail!(
                                    "delete-outside-erase",
                                    "step {step} {ev:?}: a delete command was emitted [{}]",
                                    cmd.render()
                                );
                            }
                            ctx.feat("wire.delete");
                        }
                    }
                }
            }
            if failed_draw {
                ctx.feat_if(store.transmission_open(), "ev.draw-failing.transmission-torn");
                store.abort_transmission();
            }
            ensure!(
                !store.transmission_open(),
                "chunk:last-chunk-has-m=1",
                "step {step} {ev:?}: output ended while a chunked transmission was still open (m=1 on the last chunk)"
            );

            // ---- expectations of the event itself
            match (&source, ev) {
                (Source::Draw { .. }, _) if failed_draw => {}
                (Source::Draw { content, pos }, _) => {
                    let (h, w, _) = &contents[*content];
                    if h * w > 0 {
                        ensure!(
                            puts_here >= 1 && sh.drawn.contains_key(&(*content, *pos)),
                            "draw:no-placement",
                            "step {step} {ev:?}: drawing a {w}x{h} image emitted no placement command"
                        );
                        if sh.transmitted.contains(content) && puts_here == 1 {
                            ctx.feat("draw.non-empty");
                        }
                    } else {
                        ctx.feat("draw.empty-image");
                        ctx.feat_if(out.is_empty(), "draw.empty-image.silent");
                    }
                }
                (Source::Erase, Ev::Erase { img, pos }) => {
                    let cid = images[*img].1;
                    match pos {
                        Some(pos) => {
                            sh.live.remove(&(cid, *pos));
                        }
                        None => sh.live.retain(|(c, _)| *c != cid),
                    }
                }
                _ => {}
            }

            // ---- the terminal must now hold exactly the placements the history asks for
            let expected: BTreeSet<(u32, u32)> = sh
                .live
                .iter()
                .filter_map(|key| sh.drawn.get(key).copied())
                .collect();
            let actual = store.placement_set();
            if expected != actual {
                let missing: Vec<_> = expected.difference(&actual).collect();
                let extra: Vec<_> = actual.difference(&expected).collect();
                let sig: String = match ev {
                    Ev::Erase { pos: Some(pos), .. } if !missing.is_empty() => match deleted {
                        // the command named no placement id (or 0): the protocol deletes all of them
                        Some((_, None)) | Some((_, Some(0))) => {
                            if *pos == (0, 0) {
                                "erase-at-origin-deletes-all-placements".into()
                            } else {
                                "erase:position-given-but-all-placements-deleted".into()
                            }
                        }
                        // the command named the placement that a draw at another position created
                        Some((Some(i), Some(p))) if sh.owner.get(&(i, p)).is_some_and(|(_, at)| at != pos) => {
                            collision_sig(sh.owner[&(i, p)].1, *pos)
                        }
                        _ => "erase:removes-other-placements".into(),
                    },
                    Ev::Erase { pos: Some(_), .. } => "erase:placement-not-removed".into(),
                    Ev::Erase { pos: None, .. } => "erase-all:wrong-placements-removed".into(),
                    Ev::Draw { .. } | Ev::DrawFailing { .. } => "draw:placements-diverge".into(),
                    _ => "handle:placements-diverge".into(),
                };
                let owners: Vec<_> = missing
                    .iter()
                    .filter_map(|k| sh.owner.get(k).map(|(_, pos)| *pos))
                    .collect();
                fail!(
                    sig,
                    "step {step} {ev:?}: terminal lacks placements {missing:?} (drawn at {owners:?}) and has unexpected {extra:?}; output {:?}",
                    String::from_utf8_lossy(&out[..out.len().min(80)])
                );
            }
            if let Ev::Erase { pos: Some(_), .. } = ev {
                ctx.feat_if(!actual.is_empty(), "erase@pos.other-placements-survive");
            }
        }
        Ok(())
    }

    fn finish(ctx: &mut Ctx) -> Option<String> {
        // a run that never saw what the property is about decides nothing
        let seen = |name: &str| ctx.feats.get(name).copied().unwrap_or(0);
        if seen("cases") < 500 {
            return None;
        }
        for name in [
            "wire.transmit.multi-chunk",
            "wire.put",
            "ev.erase@pos",
            "erase@pos.other-placements-survive",
            "wire.retransmit-after-error",
            "draw.empty-image",
        ] {
            if seen(name) == 0 {
                return Some(format!("feature {name} never observed in {} cases", seen("cases")));
            }
        }
        None
    }

    fn nontrivial(case: &Case) -> bool {
        case.events.iter().any(|e| matches!(e, Ev::Draw { .. }))
            && case.pool.iter().any(|s| s.dims() != (0, 0))
    }

    fn case_hash(case: &Case) -> u64 {
        let mut bytes: Vec<u8> = Vec::new();
        bytes.push(case.quiet as u8);
        for b in case.bases.iter() {
            bytes.extend_from_slice(&(b.w as u32).to_le_bytes());
            bytes.extend_from_slice(&(b.h as u32).to_le_bytes());
            for p in b.px.iter() {
                bytes.extend_from_slice(&p.to_le_bytes());
            }
        }
        bytes.extend_from_slice(format!("{:?}{:?}", case.pool, case.events).as_bytes());
        fnv(&bytes)
    }

    fn shrink(case: &Case) -> Vec<Case> {
        let mut out = Vec::new();
        for events in shrink_vec(&case.events) {
            if !events.is_empty() {
                out.push(Case {
                    events,
                    ..case.clone()
                });
            }
        }
        // drop unused pool entries from the end
        if case.pool.len() > 1 {
            let last = case.pool.len() - 1;
            let used = case.events.iter().any(|e| match e {
                Ev::Draw { img, .. } | Ev::DrawFailing { img, .. } | Ev::Erase { img, .. } => *img == last,
                _ => false,
            });
            if !used {
                let mut c = case.clone();
                c.pool.pop();
                out.push(c);
            }
        }
        // plain pixels
        if case.bases.iter().any(|b| b.px.iter().any(|p| *p != 0)) && case.pool.len() == 1 {
            let mut c = case.clone();
            for b in c.bases.iter_mut() {
                for p in b.px.iter_mut() {
                    *p = 0;
                }
            }
            out.push(c);
        }
        out
    }

    fn rule() -> &'static str {
        "case = (quiet flag, 1-3 pixel buffers, pool of 1-5 views over them [full/cropped/strided/transposed/owned copy, incl. empty and 1x1], history of 1-30 draw/erase/response events over 1-4 positions incl. (0,0) and 65535 edges); non-trivial = at least one draw and one non-empty image; distinct = hash of buffers + views + events. Assumption: distinct contents get distinct 32-bit ids (hash collisions are non-deciding)"
    }

    fn sample(case: &Case) -> serde_json::Value {
        serde_json::json!({
            "quiet": case.quiet,
            "bases": case.bases.iter().map(|b| format!("{}x{}", b.w, b.h)).collect::<Vec<_>>(),
            "pool": case.pool.iter().map(|s| format!("{:?}", s)).collect::<Vec<_>>(),
            "events": case.events.iter().take(12).map(|e| format!("{:?}", e)).collect::<Vec<_>>(),
        })
    }
}
