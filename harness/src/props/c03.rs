//! C03 — decoded events do not depend on read boundaries and follow leftmost-longest rules
use super::dec_common::*;
use crate::core::{shrink_vec, Ctx, Fail, Prop, Tier};
use crate::models::re::Re;
use crate::rng::Rng;
use crate::{ensure, fail};
use serde::{Deserialize, Serialize};
use surf_n_term::{
    automata::NFA,
    decoder::verif::{accept_trace, Automata, Tokeniser},
    TerminalCommand, TerminalEvent,
};

pub struct C03;

#[derive(Clone, Debug, Serialize, Deserialize, Hash)]
pub enum Case {
    /// (a) whole buffer vs partition, any decoder
    Diff { target: Target, input: Vec<u8>, cuts: Vec<usize> },
    /// (b) production automaton: textbook maximal munch over the per-prefix acceptance trace
    Munch { command: bool, input: Vec<u8>, cuts: Vec<usize> },
    /// (c,d) tokeniser core over generated pattern sets
    Tok { patterns: Vec<Re>, input: Vec<u8>, cuts: Vec<usize> },
}

// ---------------------------------------------------------------------------
// (b) maximal munch over the production DFA

#[derive(Debug, Clone, PartialEq, Eq)]
struct Span {
    start: usize,
    len: usize,
    matched: bool,
    /// accepting state was terminal
    terminal: bool,
}

fn munch_spans(kind: Automata, input: &[u8]) -> Vec<Span> {
    let mut spans = Vec::new();
    let mut pos = 0;
    while pos < input.len() {
        let trace = accept_trace(kind, &input[pos..]);
        let mut last: Option<usize> = None;
        let mut decided: Option<Span> = None;
        for (i, st) in trace.iter().enumerate() {
            match st {
                None => {
                    decided = Some(match last {
                        Some(l) => Span { start: pos, len: l, matched: true, terminal: false },
                        // no complete sequence: the viable prefix is one unrecognised span
                        None => Span { start: pos, len: i.max(1), matched: false, terminal: false },
                    });
                    break;
                }
                Some((accepting, terminal)) => {
                    if *accepting {
                        last = Some(i + 1);
                        if *terminal {
                            decided = Some(Span { start: pos, len: i + 1, matched: true, terminal: true });
                            break;
                        }
                    }
                }
            }
        }
        match decided {
            Some(span) => {
                pos += span.len;
                spans.push(span);
            }
            // input ended inside a candidate: nothing more can be decided yet
            None => break,
        }
    }
    spans
}

/// is 0xFF a dead byte after this span (used to force emission from a fresh decoder)?
fn killer_ok(kind: Automata, span: &[u8]) -> bool {
    let mut probe = span.to_vec();
    probe.push(0xff);
    matches!(accept_trace(kind, &probe).last(), Some(None))
}

fn check_munch(command: bool, input: &[u8], cuts: &[usize], ctx: &mut Ctx) -> Result<(), Fail> {
    let kind = if command { Automata::Command } else { Automata::Event };
    let spans = munch_spans(kind, input);
    ctx.feat_n("munch.spans", spans.len() as u64);
    ctx.feat_n("munch.fallback-to-shorter", spans.iter().filter(|s| s.matched && !s.terminal).count() as u64);
    ctx.feat_n("munch.raw-spans", spans.iter().filter(|s| !s.matched).count() as u64);

    // real streaming result, as (is_raw, raw bytes, debug) triples
    let real: Vec<(Option<Vec<u8>>, String)> = if command {
        run_command(input, cuts)?
            .into_iter()
            .map(|c| match c {
                TerminalCommand::Raw(r) => (Some(r), String::new()),
                other => (None, format!("{other:?}")),
            })
            .collect()
    } else {
        run_event(input, cuts)?
            .into_iter()
            .map(|e| match e {
                TerminalEvent::Raw(r) => (Some(r), String::new()),
                other => (None, format!("{other:?}")),
            })
            .collect()
    };
    ensure!(
        real.len() == spans.len(),
        "munch:event-count",
        "maximal munch yields {} spans but the decoder produced {} events; input={} spans={:?}",
        spans.len(),
        real.len(),
        esc(input),
        spans.iter().map(|s| (s.start, s.len, s.matched)).collect::<Vec<_>>()
    );
    for (span, (raw, dbg)) in spans.iter().zip(real.iter()) {
        let bytes = &input[span.start..span.start + span.len];
        match raw {
            Some(raw) => {
                // unrecognised span, or recognised by the automaton but rejected by its decoder:
                // the bytes must be exactly the span (none lost, duplicated or reordered)
                ensure!(
                    raw.as_slice() == bytes,
                    "munch:raw-span-bytes",
                    "span at {}+{} is {} but the decoder reported Raw({}); input={}",
                    span.start,
                    span.len,
                    esc(bytes),
                    esc(raw),
                    esc(input)
                );
            }
            None => {
                ensure!(
                    span.matched,
                    "munch:event-for-unrecognised",
                    "span {} at {} is not a recognised sequence but decoded to {}",
                    esc(bytes),
                    span.start,
                    dbg
                );
                // the same span decoded in isolation by a fresh decoder
                let mut probe = bytes.to_vec();
                if !span.terminal {
                    if !killer_ok(kind, bytes) {
                        ctx.feat("munch.isolation-skipped");
                        continue;
                    }
                    probe.push(0xff);
                }
                let alone = if command {
                    run_command(&probe, &[])?.first().map(|c| format!("{c:?}"))
                } else {
                    run_event(&probe, &[])?.first().map(|c| format!("{c:?}"))
                };
                ensure!(
                    alone.as_deref() == Some(dbg.as_str()),
                    "munch:span-decodes-differently",
                    "span {} decodes to {:?} alone but to {} inside the stream {}",
                    esc(bytes),
                    alone,
                    dbg,
                    esc(input)
                );
                ctx.feat("munch.isolation-checked");
            }
        }
    }
    Ok(())
}

// ---------------------------------------------------------------------------
// (c,d) tokeniser core

fn to_nfa(re: &Re) -> NFA<usize> {
    match re {
        Re::Void => NFA::nothing(),
        Re::Eps => NFA::empty(),
        Re::Class(set) => {
            let set = set.clone();
            NFA::predicate(move |b| set.contains(&b))
        }
        Re::Seq(items) => NFA::sequence(items.iter().map(to_nfa)),
        Re::Alt(items) => NFA::choice(items.iter().map(to_nfa)),
        Re::Opt(r) => to_nfa(r).optional(),
        Re::Plus(r) => to_nfa(r).some(),
        Re::Star(r) => to_nfa(r).many(),
    }
}

#[derive(Debug, Clone, PartialEq, Eq)]
enum Tok {
    Tag(usize, usize),
    Raw(Vec<u8>),
}

fn expected_tokens(patterns: &[Re], alphabet: &[u8], input: &[u8]) -> Vec<Tok> {
    let mut out = Vec::new();
    let mut pos = 0;
    while pos < input.len() {
        let mut cur: Vec<Re> = patterns.to_vec();
        let mut last: Option<(usize, usize)> = None;
        let mut decided: Option<Tok> = None;
        let mut l = 0;
        while pos + l < input.len() {
            let b = input[pos + l];
            cur = cur.iter().map(|r| r.deriv(b)).collect();
            l += 1;
            if cur.iter().all(|r| r.is_void()) {
                decided = Some(match last {
                    Some((ml, tag)) => Tok::Tag(tag, ml),
                    None => {
                        let n = if l > 1 { l - 1 } else { 1 };
                        Tok::Raw(input[pos..pos + n].to_vec())
                    }
                });
                break;
            }
            if let Some(tag) = cur.iter().position(|r| r.nullable()) {
                last = Some((l, tag));
                let extendable = alphabet
                    .iter()
                    .any(|b2| cur.iter().any(|r| !r.deriv(*b2).is_void()));
                if !extendable {
                    decided = Some(Tok::Tag(tag, l));
                    break;
                }
            }
        }
        match decided {
            Some(tok) => {
                pos += match &tok {
                    Tok::Tag(_, n) => *n,
                    Tok::Raw(r) => r.len(),
                };
                out.push(tok);
            }
            None => break,
        }
    }
    out
}

fn check_tok(patterns: &[Re], input: &[u8], cuts: &[usize], ctx: &mut Ctx) -> Result<(), Fail> {
    let mut alphabet = Vec::new();
    patterns.iter().for_each(|p| p.alphabet(&mut alphabet));
    let expected = expected_tokens(patterns, &alphabet, input);

    let nfas: Vec<NFA<usize>> = patterns
        .iter()
        .enumerate()
        .map(|(i, p)| to_nfa(p).tag_stop_state(i))
        .collect();
    let mut tok = Tokeniser::new(nfas);
    let mut real = Vec::new();
    let mut fed = 0usize;
    let mut emitted = 0usize;
    let mut feeds = 0usize;
    let mut pieces = chunks(input, cuts);
    pieces.push(&[]); // a final empty read must not produce anything new beyond what is due
    for chunk in pieces {
        let mut off = 0;
        loop {
            let (item, used) = tok
                .feed(&chunk[off..])
                .map_err(|e| Fail::new("tok:error", format!("{e:?}")))?;
            off += used;
            fed += used;
            feeds += 1;
            ensure!(feeds <= 2 * input.len() + cuts.len() + 8, "tok:no-progress", "tokeniser does not make progress");
            // (d) conservation: bytes fed = bytes emitted + bytes still buffered
            match item {
                Some(item) => {
                    let pending = tok.pending();
                    ensure!(fed >= pending + emitted, "tok:conservation", "fed={fed} < pending={pending} + emitted={emitted}");
                    let len = fed - pending - emitted;
                    emitted += len;
                    match item {
                        Ok(tag) => real.push(Tok::Tag(tag, len)),
                        Err(raw) => {
                            ensure!(
                                raw.len() == len,
                                "tok:conservation",
                                "raw item of {} bytes but {} bytes left the buffer",
                                raw.len(),
                                len
                            );
                            real.push(Tok::Raw(raw))
                        }
                    }
                }
                None => {
                    ensure!(off == chunk.len(), "tok:chunk-not-consumed", "feed returned no item with input left");
                    ensure!(
                        fed == tok.pending() + emitted,
                        "tok:conservation",
                        "after read: fed={fed} pending={} emitted={emitted}",
                        tok.pending()
                    );
                    break;
                }
            }
        }
    }
    ctx.feat_n("tok.tokens", real.len() as u64);
    ctx.feat_n("tok.raw", real.iter().filter(|t| matches!(t, Tok::Raw(_))).count() as u64);
    ensure!(
        real == expected,
        "tok:not-leftmost-longest",
        "patterns={:?} input={} cuts={:?}: tokeniser produced {:?}, leftmost-longest tokenisation is {:?}",
        patterns,
        esc(input),
        &cuts[..cuts.len().min(10)],
        real,
        expected
    );
    Ok(())
}

// pattern generator: non-nullable patterns over a tiny alphabet
fn gen_re(rng: &mut Rng, depth: usize, alpha: &[u8], allow_opt: bool) -> Re {
    let leaf = depth == 0 || rng.chance(1, 3);
    if leaf {
        return match rng.below(4) {
            0 => {
                let n = rng.range(1, 2);
                let mut set: Vec<u8> = (0..n).map(|_| *rng.pick(alpha)).collect();
                set.sort();
                set.dedup();
                Re::Class(set)
            }
            _ => {
                let n = rng.range(1, 3);
                Re::lit(&(0..n).map(|_| *rng.pick(alpha)).collect::<Vec<_>>())
            }
        };
    }
    match rng.below(if allow_opt { 6 } else { 5 }) {
        0 | 1 => Re::Seq((0..rng.range(2, 3)).map(|_| gen_re(rng, depth - 1, alpha, allow_opt)).collect()),
        2 => Re::Alt((0..rng.range(2, 3)).map(|_| gen_re(rng, depth - 1, alpha, allow_opt)).collect()),
        3 => Re::Plus(Box::new(gen_re(rng, depth - 1, alpha, allow_opt))),
        4 => Re::Star(Box::new(gen_re(rng, depth - 1, alpha, allow_opt))),
        _ => Re::Opt(Box::new(gen_re(rng, depth - 1, alpha, allow_opt))),
    }
}

fn gen_pattern(rng: &mut Rng, alpha: &[u8]) -> Re {
    let depth = rng.range(0, 3);
    let re = gen_re(rng, depth, alpha, true);
    if re.nullable() {
        // recognised sequences are non-empty
        Re::Seq(vec![Re::Class(vec![*rng.pick(alpha)]), re])
    } else {
        re
    }
}

impl Prop for C03 {
    type Case = Case;
    const ID: &'static str = "C03";

    fn default_cases(tier: Tier, flavour: &str) -> u64 {
        match (tier, flavour) {
            (Tier::Quick, _) => 400_000,
            (Tier::Thorough, "asan") => 2_000_000,
            (Tier::Thorough, _) => 30_000_000,
        }
    }

    fn gen(rng: &mut Rng, tier: Tier, _index: u64) -> Case {
        let cuts_for = |rng: &mut Rng, len: usize| match rng.below(4) {
            0 => vec![1; len],
            _ => rng.partition(len),
        };
        match rng.below(10) {
            0..=3 => {
                let target = match rng.below(6) {
                    0 => Target::Utf8,
                    1 | 2 => Target::Command,
                    _ => Target::Event,
                };
                let max_len = if tier.quick() { 64 } else { *rng.pick(&[32usize, 64, 256, 4096]) };
                let input = if target == Target::Utf8 {
                    let mut v = Vec::new();
                    for _ in 0..rng.range(1, 16) {
                        v.extend(hostile_utf8(rng));
                    }
                    v
                } else {
                    hostile_stream(rng, max_len)
                };
                let cuts = cuts_for(rng, input.len());
                Case::Diff { target, input, cuts }
            }
            4..=6 => {
                let input = hostile_stream(rng, if tier.quick() { 48 } else { 200 });
                let cuts = cuts_for(rng, input.len());
                Case::Munch { command: rng.chance(1, 3), input, cuts }
            }
            _ => {
                let alpha: Vec<u8> = b"abcd"[..rng.range(2, 4)].to_vec();
                let patterns: Vec<Re> = (0..rng.range(1, 5)).map(|_| gen_pattern(rng, &alpha)).collect();
                let len = rng.range(1, if tier.quick() { 16 } else { 24 });
                let input: Vec<u8> = (0..len)
                    .map(|_| if rng.chance(1, 12) { b'#' } else { *rng.pick(&alpha) })
                    .collect();
                let cuts = cuts_for(rng, input.len());
                Case::Tok { patterns, input, cuts }
            }
        }
    }

    fn check(case: &Case, ctx: &mut Ctx) -> Result<(), Fail> {
        match case {
            Case::Diff { target, input, cuts } => {
                ctx.feat(&format!("diff.{target:?}"));
                ctx.feat_if(cuts.iter().any(|c| *c == 0), "diff.empty-read");
                match target {
                    Target::Event => {
                        let whole = run_event(input, &[])?;
                        let split = run_event(input, cuts)?;
                        let bytes = run_event(input, &vec![1; input.len()])?;
                        let into = run_event_into(input, cuts)?;
                        ctx.feat_n("diff.events", whole.len() as u64);
                        for (name, other) in [("partition", &split), ("bytewise", &bytes), ("decode_into", &into)] {
                            if &whole != other {
                                let at = whole.iter().zip(other.iter()).position(|(a, b)| a != b).unwrap_or(whole.len().min(other.len()));
                                fail!(
                                    format!("chunk-dependence:event:{name}"),
                                    "events differ between whole-buffer and {name} decoding at event #{at}: whole={:?} other={:?}; input={} cuts={:?}",
                                    whole.get(at),
                                    other.get(at),
                                    esc(input),
                                    &cuts[..cuts.len().min(16)]
                                );
                            }
                        }
                    }
                    Target::Command => {
                        let whole = run_command(input, &[])?;
                        let split = run_command(input, cuts)?;
                        let bytes = run_command(input, &vec![1; input.len()])?;
                        let into = run_command_into(input, cuts)?;
                        for (name, other) in [("partition", &split), ("bytewise", &bytes), ("decode_into", &into)] {
                            if &whole != other {
                                let at = whole.iter().zip(other.iter()).position(|(a, b)| a != b).unwrap_or(whole.len().min(other.len()));
                                fail!(
                                    format!("chunk-dependence:command:{name}"),
                                    "commands differ between whole-buffer and {name} decoding at #{at}: whole={:?} other={:?}; input={}",
                                    whole.get(at),
                                    other.get(at),
                                    esc(input)
                                );
                            }
                        }
                    }
                    Target::Utf8 => {
                        let whole = run_utf8(input, &[])?;
                        let split = run_utf8(input, cuts)?;
                        let bytes = run_utf8(input, &vec![1; input.len()])?;
                        for (name, other) in [("partition", &split), ("bytewise", &bytes)] {
                            ensure!(
                                &whole == other,
                                format!("chunk-dependence:utf8:{name}"),
                                "Utf8Decoder output differs between whole-buffer and {name}: {:?} vs {:?}; input={}",
                                whole,
                                other,
                                esc(input)
                            );
                        }
                    }
                }
                Ok(())
            }
            Case::Munch { command, input, cuts } => {
                ctx.feat(if *command { "munch.command" } else { "munch.event" });
                check_munch(*command, input, cuts, ctx)
            }
            Case::Tok { patterns, input, cuts } => {
                ctx.feat("tok.cases");
                check_tok(patterns, input, cuts, ctx)
            }
        }
    }

    fn nontrivial(case: &Case) -> bool {
        match case {
            Case::Diff { input, .. } | Case::Munch { input, .. } | Case::Tok { input, .. } => input.len() >= 2,
        }
    }

    fn case_hash(case: &Case) -> u64 {
        use std::hash::{Hash, Hasher};
        let mut h = std::collections::hash_map::DefaultHasher::new();
        case.hash(&mut h);
        h.finish()
    }

    fn shrink(case: &Case) -> Vec<Case> {
        let mut out = Vec::new();
        match case {
            Case::Diff { target, input, cuts } => {
                for i in shrink_vec(input) {
                    out.push(Case::Diff { target: *target, cuts: rescale(cuts, i.len()), input: i });
                }
            }
            Case::Munch { command, input, cuts } => {
                if !cuts.is_empty() {
                    out.push(Case::Munch { command: *command, input: input.clone(), cuts: vec![] });
                }
                for i in shrink_vec(input) {
                    out.push(Case::Munch { command: *command, cuts: vec![], input: i });
                }
            }
            Case::Tok { patterns, input, cuts } => {
                if !cuts.is_empty() {
                    out.push(Case::Tok { patterns: patterns.clone(), input: input.clone(), cuts: vec![] });
                }
                for p in shrink_vec(patterns) {
                    if !p.is_empty() {
                        out.push(Case::Tok { patterns: p, input: input.clone(), cuts: cuts.clone() });
                    }
                }
                for i in shrink_vec(input) {
                    out.push(Case::Tok { patterns: patterns.clone(), cuts: rescale(cuts, i.len()), input: i });
                }
            }
        }
        out
    }

    fn rule() -> &'static str {
        "case = Diff(decoder, bytes, partition) | Munch(production automaton, bytes, partition) | Tok(pattern set, bytes over its alphabet + one foreign byte, partition); non-trivial = at least 2 input bytes; distinct = hash of the whole case"
    }

    fn sample(case: &Case) -> serde_json::Value {
        match case {
            Case::Diff { target, input, cuts } => serde_json::json!({"kind": "Diff", "target": format!("{target:?}"), "input": esc(input), "cuts": &cuts[..cuts.len().min(12)]}),
            Case::Munch { command, input, cuts } => serde_json::json!({"kind": "Munch", "command": command, "input": esc(input), "cuts": &cuts[..cuts.len().min(12)]}),
            Case::Tok { patterns, input, cuts } => serde_json::json!({"kind": "Tok", "patterns": format!("{patterns:?}"), "input": esc(input), "cuts": &cuts[..cuts.len().min(12)]}),
        }
    }
}

fn rescale(cuts: &[usize], len: usize) -> Vec<usize> {
    // keep the style of the partition (byte-wise stays byte-wise)
    if cuts.iter().all(|c| *c == 1) {
        vec![1; len]
    } else {
        cuts.to_vec()
    }
}
