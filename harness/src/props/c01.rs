//! C01 — incremental rendering always leaves the terminal showing the drawn surface
//!
//! A harness `Terminal` applies every command the renderer issues to a reference screen
//! (models/screen.rs). After each frame the screen must be visibly equal to what an independent
//! from-scratch painter produces from the surface on a blank screen.
use crate::core::{shrink_vec, Ctx, Fail, Prop, Tier};
use crate::models::screen::{ImgId, MCell, MFace, Screen, Wide};
use crate::rng::Rng;
use crate::fail;
use serde::{Deserialize, Serialize};
use std::collections::HashMap;
use surf_n_term::{
    render::{CellKind, TerminalRenderer},
    Cell, Color, Error, Face, FaceAttrs, Glyph, Image, Position, Size, Surface, SurfaceMut, SurfaceOwned, Terminal,
    TerminalCaps, TerminalCommand, TerminalEvent, TerminalSize, TerminalWaker, UnderlineStyle, RGBA,
};
use unicode_width::UnicodeWidthChar;

pub struct C01;

#[derive(Clone, Debug, PartialEq, Eq, Hash, Serialize, Deserialize)]
pub enum Draw {
    Char { r: usize, c: usize, ch: u32, face: u8 },
    /// run of identical blanks
    Blanks { r: usize, c: usize, len: usize, face: u8 },
    Img { r: usize, c: usize, img: u8, face: u8 },
    Glyph { r: usize, c: usize, glyph: u8, face: u8 },
}

#[derive(Clone, Debug, PartialEq, Eq, Hash, Serialize, Deserialize)]
pub enum Step {
    Frame(Vec<Draw>),
    /// draw, then reset the surface without rendering (WaitNoFrame)
    NoFrame(Vec<Draw>),
    /// the terminal is scrambled, then `renderer.clear(term)`
    Clear { scramble: u64 },
    /// scramble, `clear(term)`, then a fresh `TerminalRenderer::new(term, true)` (resize path)
    Recreate { scramble: u64 },
    /// draw and render, but the terminal refuses the `fail_at`-th command of the frame with an
    /// error (the frame ends with `Err`); the application recovers the way it must: forced clear
    /// (terminal scrambled before it), then it goes on drawing
    FailedFrame { draws: Vec<Draw>, fail_at: usize, scramble: u64 },
}

#[derive(Clone, Debug, Hash, Serialize, Deserialize)]
pub struct Case {
    pub h: usize,
    pub w: usize,
    /// pixels per cell
    pub ppc: (usize, usize),
    /// pixel sizes of the image pool
    pub images: Vec<(usize, usize)>,
    /// cell sizes of the glyph pool
    pub glyphs: Vec<(usize, usize)>,
    pub steps: Vec<Step>,
    /// drive the same history through `Terminal::run_render` (Clear = more than 32 pending frames,
    /// which makes run_render drop them and force a clear; Recreate = a Resize event)
    #[serde(default)]
    pub via_run_render: bool,
    /// run_render sessions only; empty = the terminal executes every command at once. Otherwise the
    /// terminal queues output like `UnixTerminal` does: what was issued between two polls is one
    /// chunk, the n-th poll delivers `delivery[n % len]` chunks (255 = all), and `frames_drop`
    /// discards every chunk but the one at the front of the queue.
    #[serde(default)]
    pub delivery: Vec<u8>,
    /// pixels of the terminal beyond `cells * ppc` (less than one pixel per cell in either
    /// direction: the pixel size of a real window is rarely a multiple of its cell count)
    #[serde(default)]
    pub pix_extra: (usize, usize),
}

// ---------------------------------------------------------------------------
// faces

fn rgba(v: u32) -> Option<RGBA> {
    Some(RGBA::new((v >> 16) as u8, (v >> 8) as u8, v as u8, 255))
}

pub const NFACES: u8 = 12;

fn face(idx: u8) -> Face {
    match idx % NFACES {
        0 => Face::default(),
        1 => Face::new(None, rgba(0xaa0000), FaceAttrs::EMPTY),
        2 => Face::new(None, rgba(0x0000aa), FaceAttrs::EMPTY),
        3 => Face::new(rgba(0x00cc00), None, FaceAttrs::EMPTY),
        4 => Face::new(rgba(0xcccc00), rgba(0x222222), FaceAttrs::EMPTY),
        5 => Face::new(None, None, FaceAttrs::UNDERLINE),
        6 => Face::new(rgba(0x00cc00), rgba(0xaa0000), FaceAttrs::STRIKE),
        7 => Face::new(None, None, FaceAttrs::REVERSE),
        8 => Face::new(None, None, FaceAttrs::BOLD),
        9 => Face::new(rgba(0x123456), None, FaceAttrs::UNDERLINE_CURLY | FaceAttrs::ITALIC),
        10 => Face::new(None, rgba(0xaa0000), FaceAttrs::BOLD),
        _ => Face::new(rgba(0xffffff), rgba(0x0000aa), FaceAttrs::BLINK | FaceAttrs::REVERSE),
    }
}

fn mface(f: &Face) -> MFace {
    MFace {
        fg: f.fg.map(|c| c.to_rgba()),
        bg: f.bg.map(|c| c.to_rgba()),
        underline: match f.attrs.underline() {
            UnderlineStyle::None => 0,
            UnderlineStyle::Straight => 1,
            UnderlineStyle::Double => 2,
            UnderlineStyle::Curly => 3,
            UnderlineStyle::Dotted => 4,
            UnderlineStyle::Dashed => 5,
        },
        bold: f.attrs.contains(FaceAttrs::BOLD),
        italic: f.attrs.contains(FaceAttrs::ITALIC),
        blink: f.attrs.contains(FaceAttrs::BLINK),
        reverse: f.attrs.contains(FaceAttrs::REVERSE),
        strike: f.attrs.contains(FaceAttrs::STRIKE),
    }
}

const NARROW: &[char] = &['a', 'b', 'x', '#', '─', 'é', '1'];
const WIDE: &[char] = &['世', '界', '🤩', 'ｗ'];

/// Image identity by content (size and pixels), independent of the library's `PartialEq`
fn same_image(a: &Image, b: &Image) -> bool {
    a.size() == b.size() && a.iter().zip(b.iter()).all(|(x, y)| x == y)
}

// ---------------------------------------------------------------------------
// the monitoring terminal

/// a command with image identities resolved at the time it was issued
#[derive(Clone)]
enum MCmd {
    Char(char, usize),
    Face(MFace),
    CursorTo(usize, usize),
    Erase(usize),
    Image(ImgId, usize, usize, usize, usize),
    ImageErase(ImgId, Option<(usize, usize)>),
    Problem(String),
}

/// the frame a chunk of output completes, with the verdict rule fixed when it was rendered
struct Tag {
    si: usize,
    expected: Expected,
    /// None = deciding; Some(why) = the frame cannot be judged
    nondeciding: Option<String>,
}

#[derive(Default)]
struct Chunk {
    cmds: Vec<MCmd>,
    tag: Option<Tag>,
}

struct ModelTerm {
    size: TerminalSize,
    caps: TerminalCaps,
    screen: Screen,
    pool: Vec<Image>,
    /// images produced by the renderer for glyph cells, with the identity of the glyph cell
    glyph_images: Vec<(Image, ImgId)>,
    /// glyph identity expected at a position in the frame being rendered
    glyph_at: HashMap<(usize, usize), ImgId>,
    next_unknown: ImgId,
    counts: HashMap<&'static str, u64>,
    /// scripted events for run_render sessions
    events: std::collections::VecDeque<TerminalEvent>,
    /// what frames_pending reports
    pending: usize,
    /// the terminal is scrambled when the pending frames are dropped / the resize arrives
    scramble_on_drop: Option<u64>,
    scramble_on_resize: Option<u64>,
    /// frames_drop was called since the flag was last reset
    dropped: bool,
    /// run_render sessions: the frame that was just rendered and still has to be judged
    to_judge: Option<Tag>,
    tainted: bool,
    /// the n-th command from now is answered with an error instead of being executed
    fail_in: Option<usize>,
    /// queueing terminal (see Case::delivery)
    delivery: Vec<u8>,
    polls: usize,
    chunks: std::collections::VecDeque<Chunk>,
    current: Chunk,
    /// the frame the handler just drew; attached to the chunk that is sealed next
    pending_tag: Option<Tag>,
    failure: Option<Fail>,
    decided: u64,
    notes: Vec<String>,
}

impl ModelTerm {
    fn new(h: usize, w: usize, ppc: (usize, usize), extra: (usize, usize), pool: Vec<Image>) -> Self {
        ModelTerm {
            size: TerminalSize {
                cells: Size::new(h, w),
                pixels: Size::new(h * ppc.0 + extra.0.min(h.saturating_sub(1)), w * ppc.1 + extra.1.min(w.saturating_sub(1))),
            },
            caps: TerminalCaps { depth: surf_n_term::encoder::ColorDepth::TrueColor, glyphs: true, kitty_keyboard: false },
            screen: Screen::new(h, w),
            pool,
            glyph_images: Vec::new(),
            glyph_at: HashMap::new(),
            next_unknown: 1_000_000,
            counts: HashMap::new(),
            events: Default::default(),
            pending: 0,
            scramble_on_drop: None,
            scramble_on_resize: None,
            dropped: false,
            to_judge: None,
            tainted: false,
            fail_in: None,
            delivery: Vec::new(),
            polls: 0,
            chunks: Default::default(),
            current: Chunk::default(),
            pending_tag: None,
            failure: None,
            decided: 0,
            notes: Vec::new(),
        }
    }

    fn image_id(&mut self, img: &Image, pos: Option<Position>) -> ImgId {
        if let Some(i) = self.pool.iter().position(|p| same_image(p, img)) {
            return i as ImgId;
        }
        // rasterised glyphs: the renderer hands out clones of its cached raster, and two glyph cells may
        // rasterise to equal pixels, so these are told apart the way the renderer tells them apart
        if let Some((_, id)) = self.glyph_images.iter().find(|(g, _)| g == img) {
            return *id;
        }
        let id = pos
            .and_then(|p| self.glyph_at.get(&(p.row, p.col)).copied())
            .unwrap_or_else(|| {
                self.next_unknown += 1;
                self.next_unknown
            });
        self.glyph_images.push((img.clone(), id));
        id
    }

    fn count(&mut self, what: &'static str) {
        *self.counts.entry(what).or_insert(0) += 1;
    }

    /// run_render sessions: compare the screen with the frame that was rendered last; must run
    /// before anything else (dropped frames, forced clear, next frame) touches the terminal
    fn judge(&mut self) {
        let Some(tag) = self.to_judge.take() else { return };
        if self.failure.is_some() {
            return;
        }
        if let Some(why) = tag.nondeciding {
            self.notes.push(why);
            self.screen.problems.clear();
            return;
        }
        let (si, expected) = (tag.si, tag.expected);
        self.decided += 1;
        let (h, w) = (self.screen.h, self.screen.w);
        if let Some(problem) = self.screen.problems.first() {
            self.failure = Some(Fail::new(
                "terminal-protocol",
                format!("run_render step {si}: while executing the frame's commands: {problem}"),
            ));
        } else if let Some((clause, what)) = diff(&self.screen, &expected.screen) {
            let mode = if self.queueing() { " (queueing terminal)" } else { "" };
            self.failure = Some(Fail::new(
                format!("stale:{clause}"),
                format!("run_render step {si} ({h}x{w} terminal{mode}): after the frame {what}"),
            ));
        }
        self.screen.problems.clear();
    }

    fn queueing(&self) -> bool {
        !self.delivery.is_empty()
    }

    fn apply(&mut self, cmd: MCmd) {
        match cmd {
            MCmd::Char(c, w) => self.screen.put_char(c, w),
            MCmd::Face(f) => self.screen.set_face(f),
            MCmd::CursorTo(r, c) => {
                if r >= self.screen.h || c >= self.screen.w {
                    self.screen
                        .problems
                        .push(format!("cursor moved to ({r}, {c}) outside the {}x{} screen", self.screen.h, self.screen.w));
                }
                self.screen.cursor_to(r, c);
            }
            MCmd::Erase(n) => self.screen.erase_chars(n),
            MCmd::Image(id, r, c, h, w) => self.screen.image(id, r, c, h, w),
            MCmd::ImageErase(id, pos) => self.screen.image_erase(id, pos),
            MCmd::Problem(p) => self.screen.problems.push(p),
        }
    }

    /// what was issued since the last poll becomes one chunk of the output queue
    fn seal(&mut self) {
        if self.current.cmds.is_empty() && self.pending_tag.is_none() {
            return;
        }
        let mut chunk = std::mem::take(&mut self.current);
        chunk.tag = self.pending_tag.take();
        self.chunks.push_back(chunk);
    }

    /// the terminal executes the chunk at the front of the queue
    fn deliver_one(&mut self) -> bool {
        let Some(chunk) = self.chunks.pop_front() else { return false };
        for cmd in chunk.cmds {
            self.apply(cmd);
        }
        self.count("queue.chunks-delivered");
        if let Some(tag) = chunk.tag {
            self.to_judge = Some(tag);
            self.judge();
        }
        true
    }

    fn deliver_all(&mut self) {
        self.seal();
        while self.deliver_one() {}
    }

    /// frames rendered before this point saw a terminal that no longer exists (resize reflow)
    fn invalidate_queued(&mut self, why: &str) {
        for chunk in self.chunks.iter_mut().chain(std::iter::once(&mut self.current)) {
            if let Some(tag) = chunk.tag.as_mut() {
                tag.nondeciding.get_or_insert_with(|| why.to_string());
            }
        }
        if let Some(tag) = self.pending_tag.as_mut() {
            tag.nondeciding.get_or_insert_with(|| why.to_string());
        }
    }
}

impl std::io::Write for ModelTerm {
    fn write(&mut self, buf: &[u8]) -> std::io::Result<usize> {
        Ok(buf.len())
    }
    fn flush(&mut self) -> std::io::Result<()> {
        Ok(())
    }
}

impl Terminal for ModelTerm {
    fn execute(&mut self, cmd: TerminalCommand) -> Result<(), Error> {
        if let Some(left) = self.fail_in {
            if left == 0 {
                self.fail_in = None;
                self.count("cmd.refused-with-error");
                return Err(Error::Other("injected terminal failure".into()));
            }
            self.fail_in = Some(left - 1);
        }
        let cmd = match cmd {
            TerminalCommand::Char(c) => {
                self.count("cmd.char");
                MCmd::Char(c, c.width().unwrap_or(0))
            }
            TerminalCommand::Face(f) => {
                self.count("cmd.face");
                MCmd::Face(mface(&f))
            }
            TerminalCommand::CursorTo(pos) => {
                self.count("cmd.cursor");
                MCmd::CursorTo(pos.row, pos.col)
            }
            TerminalCommand::EraseChars(n) => {
                self.count("cmd.erase");
                MCmd::Erase(n)
            }
            TerminalCommand::Image(img, pos) => {
                self.count("cmd.image");
                let id = self.image_id(&img, Some(pos));
                let cells = img.size_cells(self.size.pixels_per_cell());
                MCmd::Image(id, pos.row, pos.col, cells.height, cells.width)
            }
            TerminalCommand::ImageErase(img, pos) => {
                self.count("cmd.image-erase");
                let id = self.image_id(&img, None);
                MCmd::ImageErase(id, pos.map(|p| (p.row, p.col)))
            }
            // run_render brackets every frame with synchronized output
            TerminalCommand::DecModeSet { mode: surf_n_term::DecMode::SynchronizedOutput, .. } => {
                self.count("cmd.sync-output");
                return Ok(());
            }
            other => MCmd::Problem(format!("unexpected command {other:?}")),
        };
        if self.queueing() {
            self.current.cmds.push(cmd);
        } else {
            self.apply(cmd);
        }
        Ok(())
    }

    fn waker(&self) -> TerminalWaker {
        TerminalWaker::new(|| Ok(()))
    }
    fn poll(&mut self, _timeout: Option<std::time::Duration>) -> Result<Option<TerminalEvent>, Error> {
        self.judge();
        if self.queueing() {
            // like UnixTerminal::poll: pending output is flushed, then as much is written as the
            // (scripted) terminal takes
            self.seal();
            let n = self.delivery[self.polls % self.delivery.len()];
            self.polls += 1;
            for _ in 0..n {
                if !self.deliver_one() {
                    break;
                }
            }
            if !self.chunks.is_empty() {
                self.count("queue.polls-leaving-output-pending");
            }
        }
        let event = self.events.pop_front();
        if let Some(TerminalEvent::Resize(_)) = event {
            if let Some(seed) = self.scramble_on_resize.take() {
                scramble(&mut self.screen, seed);
                self.invalidate_queued("nondeciding.rendered-before-resize");
            }
        }
        Ok(event)
    }
    fn dyn_ref(&mut self) -> &mut dyn Terminal {
        self
    }
    fn size(&self) -> Result<TerminalSize, Error> {
        Ok(self.size)
    }
    fn position(&mut self) -> Result<Position, Error> {
        Ok(Position::origin())
    }
    fn frames_pending(&self) -> usize {
        self.pending + self.chunks.len()
    }
    fn frames_drop(&mut self) {
        self.judge();
        self.pending = 0;
        self.dropped = true;
        if self.queueing() {
            // UnixTerminal keeps the chunk at the front of its queue (it may be half written) and
            // discards the rest, sealed or not
            let tail = std::mem::take(&mut self.current);
            self.pending_tag = None;
            if self.chunks.is_empty() {
                self.current = tail;
            } else {
                self.deliver_one();
                let dropped: Vec<Chunk> = self.chunks.drain(..).collect();
                self.count("queue.drops-with-output-pending");
                // The renderer cannot know which of its frames the terminal skipped; placements it
                // removed in a skipped frame are not held against it (they are treated as removed).
                // Commands issued after the last poll are not frames: losing them is not excused.
                for chunk in dropped {
                    self.count("queue.chunks-dropped");
                    for cmd in chunk.cmds {
                        if let MCmd::ImageErase(id, pos) = cmd {
                            self.screen.image_erase(id, pos);
                        }
                    }
                }
                if !tail.cmds.is_empty() {
                    self.count("queue.unsealed-output-dropped");
                }
            }
        }
        if let Some(seed) = self.scramble_on_drop.take() {
            scramble(&mut self.screen, seed);
        }
    }
    fn capabilities(&self) -> &TerminalCaps {
        &self.caps
    }
}

// ---------------------------------------------------------------------------
// the from-scratch painter (expected screen)

#[derive(Clone)]
enum SKind {
    Char(char),
    Img(ImgId, usize, usize),
}

#[derive(Clone)]
struct SCell {
    kind: SKind,
    face: Face,
}

struct Expected {
    screen: Screen,
    conflict: Option<&'static str>,
    feats: Vec<&'static str>,
}

/// Paint the surface on a blank screen: row-major, cells in the shadow of a displayed wide
/// character or under an image make no claim; image areas are blanked with the image cell's
/// background and stamped
fn paint(h: usize, w: usize, surf: &[SCell]) -> Expected {
    let mut screen = Screen::new(h, w);
    let mut conflict = None;
    let mut feats = Vec::new();
    let mut under: Vec<bool> = vec![false; h * w];
    // image areas
    for r in 0..h {
        for c in 0..w {
            if let SKind::Img(id, rows, cols) = surf[r * w + c].kind {
                if under[r * w + c] {
                    conflict = Some("image-areas-overlap");
                }
                for rr in r..(r + rows).min(h) {
                    for cc in c..(c + cols).min(w) {
                        if under[rr * w + cc] {
                            conflict = Some("image-areas-overlap");
                        }
                        under[rr * w + cc] = true;
                    }
                }
                if r + rows > h || c + cols > w {
                    feats.push("frame.image-clipped-by-screen");
                }
                // erase with the image cell's face (BCE: background only), then stamp
                screen.set_face(mface(&surf[r * w + c].face));
                for rr in r..(r + rows).min(h) {
                    screen.cursor_to(rr, c);
                    screen.erase_chars(cols);
                }
                screen.image(id, r, c, rows, cols);
                feats.push("frame.image");
            }
        }
    }
    // characters
    for r in 0..h {
        let mut c = 0;
        while c < w {
            if under[r * w + c] {
                if matches!(surf[r * w + c].kind, SKind::Char(ch) if ch != ' ') {
                    feats.push("frame.char-under-image");
                }
                c += 1;
                continue;
            }
            let cell = &surf[r * w + c];
            let SKind::Char(ch) = cell.kind else {
                c += 1;
                continue;
            };
            let width = ch.width().unwrap_or(0);
            if width == 0 {
                conflict = Some("zero-width-char");
                c += 1;
                continue;
            }
            if c + width > w {
                conflict = Some("wide-char-in-last-column");
                c += 1;
                continue;
            }
            if width == 2 {
                if under[r * w + c + 1] {
                    conflict = Some("wide-char-tail-under-image");
                }
                let shadow = &surf[r * w + c + 1];
                let shadow_plain = matches!(shadow.kind, SKind::Char(' ')) && shadow.face == Face::default();
                if !shadow_plain {
                    feats.push("frame.cell-in-wide-shadow");
                }
                feats.push("frame.wide-char");
            }
            // skip painting default blanks on the blank screen (same visible result)
            screen.cursor_to(r, c);
            screen.set_face(mface(&cell.face));
            screen.put_char(ch, width);
            c += width;
        }
    }
    screen.problems.clear();
    Expected { screen, conflict, feats }
}

fn diff(actual: &Screen, expected: &Screen) -> Option<(String, String)> {
    for r in 0..actual.h {
        for c in 0..actual.w {
            let a = actual.at(r, c);
            let e = expected.at(r, c);
            if a.visible() != e.visible() {
                let kind = if e.wide == Wide::No && a.wide != Wide::No || a.ch != e.ch {
                    "char"
                } else {
                    "face"
                };
                return Some((
                    format!("cell-{kind}"),
                    format!("cell ({r},{c}) shows {:?} but the surface says {:?}", a.visible(), e.visible()),
                ));
            }
            let (sa, se) = (actual.stamps[r * actual.w + c], expected.stamps[r * actual.w + c]);
            if sa != se {
                return Some((
                    "image-pixels".into(),
                    format!("cell ({r},{c}) shows image block {sa:?} but the surface says {se:?}"),
                ));
            }
        }
    }
    if actual.placements != expected.placements {
        return Some((
            "image-placements".into(),
            format!(
                "image placements on the terminal {:?} differ from the surface's {:?}",
                actual.placements, expected.placements
            ),
        ));
    }
    None
}

fn scramble(screen: &mut Screen, seed: u64) {
    let mut rng = Rng::new(seed ^ 0x5c4a);
    let (h, w) = (screen.h, screen.w);
    for r in 0..h {
        let mut c = 0;
        while c < w {
            screen.cursor_to(r, c);
            screen.set_face(mface(&face(rng.below(NFACES as usize) as u8)));
            if c + 2 <= w && rng.chance(1, 5) {
                screen.put_char(*rng.pick(WIDE), 2);
                c += 2;
            } else {
                let ch = if rng.chance(1, 3) { ' ' } else { *rng.pick(NARROW) };
                screen.put_char(ch, 1);
                c += 1;
            }
        }
    }
    screen.problems.clear();
    screen.cursor_to(rng.below(h.max(1)), rng.below(w.max(1)));
}

// ---------------------------------------------------------------------------

struct World {
    pool: Vec<Image>,
    glyphs: Vec<Glyph>,
    ppc: (usize, usize),
}

impl World {
    fn cell(&self, d: &Draw) -> Option<(usize, usize, Vec<Cell>)> {
        Some(match d {
            Draw::Char { r, c, ch, face: f } => (*r, *c, vec![Cell::new_char(face(*f), char::from_u32(*ch)?)]),
            Draw::Blanks { r, c, len, face: f } => (*r, *c, vec![Cell::new_char(face(*f), ' '); *len]),
            Draw::Img { r, c, img, face: f } => {
                let img = self.pool.get(*img as usize)?.clone();
                (*r, *c, vec![Cell::new_image(img).with_face(face(*f))])
            }
            Draw::Glyph { r, c, glyph, face: f } => {
                let glyph = self.glyphs.get(*glyph as usize)?.clone();
                (*r, *c, vec![Cell::new_glyph(face(*f), glyph)])
            }
        })
    }
}

fn apply_draws(world: &World, renderer: &mut TerminalRenderer, draws: &[Draw]) {
    let mut surf = renderer.surface();
    apply_draws_surface(world, &mut surf, draws)
}

fn apply_draws_surface(world: &World, surf: &mut impl SurfaceMut<Item = Cell>, draws: &[Draw]) {
    for d in draws {
        if let Some((r, c, cells)) = world.cell(d) {
            for (i, cell) in cells.into_iter().enumerate() {
                if let Some(dst) = surf.get_mut(Position::new(r, c + i)) {
                    *dst = cell;
                }
            }
        }
    }
}

/// Snapshot of the front surface in harness terms + glyph identities by position
fn snapshot(
    world: &World,
    renderer: &mut TerminalRenderer,
    glyph_keys: &mut Vec<(usize, Face)>,
    glyph_at: &mut HashMap<(usize, usize), ImgId>,
) -> Vec<SCell> {
    let surf = renderer.surface();
    snapshot_surface(world, &surf, glyph_keys, glyph_at)
}

fn snapshot_surface(
    world: &World,
    surf: &impl Surface<Item = Cell>,
    glyph_keys: &mut Vec<(usize, Face)>,
    glyph_at: &mut HashMap<(usize, usize), ImgId>,
) -> Vec<SCell> {
    let ppc = Size::new(world.ppc.0, world.ppc.1);
    let mut out = Vec::with_capacity(surf.height() * surf.width());
    glyph_at.clear();
    for r in 0..surf.height() {
        for c in 0..surf.width() {
            let cell = surf.get(Position::new(r, c)).expect("cell");
            let kind = match cell.kind() {
                CellKind::Char(ch) => SKind::Char(*ch),
                CellKind::Image(img) => {
                    let id = world.pool.iter().position(|p| same_image(p, img)).map(|i| i as ImgId).unwrap_or(999_999);
                    let cells = img.size_cells(ppc);
                    SKind::Img(id, cells.height, cells.width)
                }
                CellKind::Glyph(glyph) => {
                    // (by what the glyph prints as - scene, size, fallback, frame -, not by the library's `==`)
                    let printed = format!("{glyph:?}");
                    let gi = world.glyphs.iter().position(|g| format!("{g:?}") == printed).unwrap_or(usize::MAX);
                    let key = (gi, cell.face());
                    let k = match glyph_keys.iter().position(|k| *k == key) {
                        Some(k) => k,
                        None => {
                            glyph_keys.push(key);
                            glyph_keys.len() - 1
                        }
                    };
                    let id = 1000 + k as ImgId;
                    glyph_at.insert((r, c), id);
                    let size = glyph.size();
                    SKind::Img(id, size.height, size.width)
                }
            };
            out.push(SCell { kind, face: cell.face() });
        }
    }
    out
}

impl Prop for C01 {
    type Case = Case;
    const ID: &'static str = "C01";

    fn default_cases(tier: Tier, flavour: &str) -> u64 {
        match (tier, flavour) {
            (Tier::Quick, _) => 60_000,
            (Tier::Thorough, "asan") => 200_000,
            (Tier::Thorough, _) => 3_000_000,
        }
    }

    fn gen(rng: &mut Rng, tier: Tier, index: u64) -> Case {
        let (hmax, wmax) = if tier.quick() { (12, 16) } else if index % 16 == 0 { (40, 100) } else { (16, 24) };
        let h = match rng.below(6) {
            0 => 1,
            1 => rng.range(1, 3),
            _ => rng.range(1, hmax),
        };
        let w = match rng.below(6) {
            0 => rng.range(1, 2),
            1 => rng.range(2, 6),
            _ => rng.range(1, wmax),
        };
        let ppc = (rng.range(2, 4), rng.range(1, 3));
        let with_images = rng.chance(1, 2);
        let mut images: Vec<(usize, usize)> = (0..if with_images { rng.range(1, 3) } else { 0 })
            .map(|_| (rng.range(1, ppc.0 * 3), rng.range(1, ppc.1 * 4)))
            .collect();
        // images of equal size are built as crops of one sprite sheet (see `check`)
        if images.len() >= 2 && rng.chance(1, 2) {
            for i in 1..images.len() {
                if rng.chance(2, 3) {
                    images[i] = images[0];
                }
            }
        }
        let mut glyphs: Vec<(usize, usize)> = (0..if with_images && rng.bool() { rng.range(1, 2) } else { 0 })
            .map(|_| (rng.range(1, 2), rng.range(1, 3)))
            .collect();
        // two glyphs of one size differ only in the frame of the second (see `check`)
        if glyphs.len() == 2 && rng.bool() {
            glyphs[1] = glyphs[0];
        }
        let nfaces = *rng.pick(&[2u8, 4, NFACES]);
        let nsteps = rng.range(1, if tier.quick() { 12 } else { 40 });
        let mut steps = Vec::new();
        let mut prev: Vec<Draw> = Vec::new();
        let gen_draw = |rng: &mut Rng, images: &[(usize, usize)], glyphs: &[(usize, usize)]| -> Draw {
            let r = rng.below(h);
            let f = rng.below(nfaces as usize) as u8;
            match rng.below(12) {
                0 | 1 if w >= 2 => Draw::Char { r, c: rng.below(w - 1), ch: *rng.pick(WIDE) as u32, face: f },
                2 => Draw::Blanks { r, c: rng.below(w), len: rng.range(1, 9), face: f },
                3 if !images.is_empty() => Draw::Img {
                    r,
                    c: rng.below(w),
                    img: rng.below(images.len()) as u8,
                    face: if rng.bool() { 0 } else { f },
                },
                4 if !glyphs.is_empty() => Draw::Glyph { r, c: rng.below(w), glyph: rng.below(glyphs.len()) as u8, face: f },
                _ => Draw::Char { r, c: rng.below(w), ch: *rng.pick(NARROW) as u32, face: f },
            }
        };
        for _ in 0..nsteps {
            let step = match rng.below(16) {
                0 => Step::Clear { scramble: rng.next_u64() },
                1 if rng.chance(1, 3) => {
                    let draws: Vec<Draw> = (0..rng.range(1, (h * w).min(12))).map(|_| gen_draw(rng, &images, &glyphs)).collect();
                    prev = Vec::new();
                    Step::FailedFrame { draws, fail_at: rng.range(0, 30), scramble: rng.next_u64() }
                }
                1 => Step::Recreate { scramble: rng.next_u64() },
                k => {
                    // small mutations of the previous drawing dominate
                    let mut draws = if rng.chance(3, 4) { prev.clone() } else { Vec::new() };
                    if !draws.is_empty() {
                        for _ in 0..rng.range(0, 2) {
                            if !draws.is_empty() {
                                let i = rng.below(draws.len());
                                draws.remove(i);
                            }
                        }
                    }
                    let adds = if draws.is_empty() { rng.range(0, (h * w).min(24)) } else { rng.range(0, 3) };
                    for _ in 0..adds {
                        draws.push(gen_draw(rng, &images, &glyphs));
                    }
                    if k == 2 {
                        Step::NoFrame(draws)
                    } else {
                        prev = draws.clone();
                        Step::Frame(draws)
                    }
                }
            };
            steps.push(step);
        }
        let via_run_render = rng.chance(1, 4);
        let delivery = if via_run_render && rng.bool() {
            (0..rng.range(1, 6)).map(|_| *rng.pick(&[0u8, 0, 1, 1, 2, 255])).collect()
        } else {
            Vec::new()
        };
        let pix_extra = if rng.bool() { (0, 0) } else { (rng.below(h.max(1)), rng.below(w.max(1))) };
        Case { h, w, ppc, images, glyphs, steps, via_run_render, delivery, pix_extra }
    }

    fn check(case: &Case, ctx: &mut Ctx) -> Result<(), Fail> {
        let (h, w) = (case.h, case.w);
        // Images of a size that occurred before are same-sized crops of one sprite sheet (they share
        // the backing buffer and differ only in the window); the others own their buffer.
        let mut pool: Vec<Image> = Vec::new();
        let mut sheets: HashMap<(usize, usize), Image> = HashMap::new();
        for (i, (ph, pw)) in case.images.iter().enumerate() {
            let same: Vec<usize> = (0..case.images.len()).filter(|j| case.images[*j] == (*ph, *pw)).collect();
            if same.len() > 1 {
                let sheet = sheets
                    .entry((*ph, *pw))
                    .or_insert_with(|| {
                        Image::from(SurfaceOwned::new_with(Size::new(*ph * same.len(), *pw + 1), |p| {
                            RGBA::new(200, (p.row * 16 + 8) as u8, (p.col * 16) as u8, 255)
                        }))
                    })
                    .clone();
                let k = same.iter().position(|j| *j == i).unwrap();
                // every other one also starts one column in
                let c0 = k % 2;
                pool.push(sheet.crop(k * ph..(k + 1) * ph, c0..c0 + pw));
                ctx.feat("images.same-sized-crops-of-one-sheet");
            } else {
                pool.push(Image::from(SurfaceOwned::new_with(Size::new(*ph, *pw), |p| {
                    RGBA::new((i * 40) as u8, (p.row * 16) as u8, (p.col * 16) as u8, 255)
                })));
            }
        }
        let glyphs: Vec<Glyph> = case
            .glyphs
            .iter()
            .enumerate()
            .map(|(gi, (gh, gw))| {
                // every other glyph has a frame around the same (empty) symbol: glyphs that differ in
                // nothing but the frame are different pictures
                let frame = (gi % 2 == 1).then(|| {
                    serde_json::from_str::<surf_n_term::glyph::GlyphFrame>(
                        r##"{"border_width":[1,1,1,1],"border_color":"#ff0000","fill_color":"#00ff00"}"##,
                    )
                    .expect("glyph frame")
                });
                Glyph::new(
                    surf_n_term::Path::empty(),
                    surf_n_term::FillRule::default(),
                    None,
                    Size::new(*gh, *gw),
                    "g".to_string(),
                    frame,
                )
            })
            .collect();
        let world = World { pool: pool.clone(), glyphs, ppc: case.ppc };
        if case.via_run_render {
            return check_via_run_render(case, &world, pool, ctx);
        }
        let mut term = ModelTerm::new(h, w, case.ppc, case.pix_extra, pool.clone());
        let mut renderer = TerminalRenderer::new(&mut term, false).map_err(|e| Fail::new("renderer-new", format!("{e:?}")))?;
        let mut glyph_keys: Vec<(usize, Face)> = Vec::new();
        // once a frame with conflicting claims was rendered the terminal state is terminal-defined
        // until the next forced clear
        let mut tainted = false;
        let mut prev_surface: Option<Vec<SCell>> = None;

        for (si, step) in case.steps.iter().enumerate() {
            match step {
                Step::NoFrame(draws) => {
                    apply_draws(&world, &mut renderer, draws);
                    renderer.surface().clear();
                    ctx.feat("step.noframe");
                }
                Step::Clear { scramble: seed } => {
                    scramble(&mut term.screen, *seed);
                    renderer.clear(&mut term).map_err(|e| Fail::new("clear-error", format!("{e:?}")))?;
                    tainted = false;
                    prev_surface = None;
                    ctx.feat("step.clear");
                }
                Step::FailedFrame { draws, fail_at, scramble: seed } => {
                    apply_draws(&world, &mut renderer, draws);
                    let mut glyph_at = HashMap::new();
                    let _ = snapshot(&world, &mut renderer, &mut glyph_keys, &mut glyph_at);
                    term.glyph_at = glyph_at;
                    term.fail_in = Some(*fail_at);
                    let before = term.screen.placements.clone();
                    let result = renderer.frame(&mut term);
                    term.fail_in = None;
                    ctx.feat_if(result.is_err(), "step.frame-failed-with-terminal-error");
                    if result.is_err() {
                        // A frame that ended with an error was not rendered: the renderer's picture of
                        // the terminal is the one from before it, and `clear()` can only erase the
                        // images of that picture. Placements the failed frame had already created are
                        // taken off the terminal here (an application resets the terminal after an
                        // output error); what the *following* frames do is judged as always.
                        term.screen.placements.retain(|p| before.contains(p));
                    }
                    // whatever got through is on the terminal; the application clears and carries on
                    term.screen.problems.clear();
                    scramble(&mut term.screen, *seed);
                    renderer.clear(&mut term).map_err(|e| Fail::new("clear-error", format!("{e:?}")))?;
                    tainted = false;
                    prev_surface = None;
                }
                Step::Recreate { scramble: seed } => {
                    scramble(&mut term.screen, *seed);
                    renderer.clear(&mut term).map_err(|e| Fail::new("clear-error", format!("{e:?}")))?;
                    renderer =
                        TerminalRenderer::new(&mut term, true).map_err(|e| Fail::new("renderer-new", format!("{e:?}")))?;
                    tainted = false;
                    prev_surface = None;
                    ctx.feat("step.recreate");
                }
                Step::Frame(draws) => {
                    apply_draws(&world, &mut renderer, draws);
                    let mut glyph_at = HashMap::new();
                    let surf = snapshot(&world, &mut renderer, &mut glyph_keys, &mut glyph_at);
                    let expected = paint(h, w, &surf);
                    term.glyph_at = glyph_at;
                    term.screen.problems.clear();
                    renderer.frame(&mut term).map_err(|e| Fail::new("frame-error", format!("{e:?}")))?;
                    ctx.feat("frames");
                    if let Some(why) = expected.conflict {
                        tainted = true;
                        ctx.feat(&format!("nondeciding.{why}"));
                        prev_surface = None;
                        continue;
                    }
                    if tainted {
                        ctx.feat("nondeciding.after-conflict-frame");
                        continue;
                    }
                    ctx.feat("frames.decided");
                    ctx.feat_n("cells.compared", (h * w) as u64);
                    for f in &expected.feats {
                        ctx.feat(f);
                    }
                    if let Some(prev) = &prev_surface {
                        // transitions the incremental path has to handle
                        let mut wide_to_narrow = false;
                        let mut image_gone = false;
                        for (p, n) in prev.iter().zip(surf.iter()) {
                            if let (SKind::Char(a), SKind::Char(b)) = (&p.kind, &n.kind) {
                                if a.width() == Some(2) && b.width() != Some(2) {
                                    wide_to_narrow = true;
                                }
                            }
                            if matches!(p.kind, SKind::Img(..)) && !matches!(n.kind, SKind::Img(..)) {
                                image_gone = true;
                            }
                        }
                        ctx.feat_if(wide_to_narrow, "frame.wide-replaced-by-narrow");
                        ctx.feat_if(image_gone, "frame.image-removed");
                    }
                    if let Some(problem) = term.screen.problems.first() {
                        fail!(
                            "terminal-protocol",
                            "step {si}: while executing the frame's commands: {problem}"
                        );
                    }
                    if let Some((clause, what)) = diff(&term.screen, &expected.screen) {
                        fail!(
                            format!("stale:{clause}"),
                            "step {si} ({}x{} terminal): after the frame {what}",
                            h,
                            w
                        );
                    }
                    // second opinion: the same surface through a fresh real renderer on a blank terminal
                    if si % 3 == 0 {
                        let mut t2 = ModelTerm::new(h, w, case.ppc, case.pix_extra, pool.clone());
                        t2.glyph_at = term.glyph_at.clone();
                        let mut r2 = TerminalRenderer::new(&mut t2, true)
                            .map_err(|e| Fail::new("renderer-new", format!("{e:?}")))?;
                        // re-create the drawing (cells are private, so draw again)
                        let Step::Frame(draws) = step else { unreachable!() };
                        apply_draws(&world, &mut r2, draws);
                        r2.frame(&mut t2).map_err(|e| Fail::new("frame-error", format!("{e:?}")))?;
                        // glyph images differ between renderers: compare placements by position only
                        if let Some((clause, what)) = diff_scratch(&t2.screen, &expected.screen) {
                            fail!(
                                format!("from-scratch:{clause}"),
                                "step {si}: repainting the surface from scratch on a blank terminal: {what}"
                            );
                        }
                        ctx.feat("frames.from-scratch-checked");
                    }
                    prev_surface = Some(surf);
                }
            }
        }
        for (k, v) in term.counts.iter() {
            ctx.feat_n(k, *v);
        }
        Ok(())
    }

    fn nontrivial(case: &Case) -> bool {
        case.steps.iter().any(|s| matches!(s, Step::Frame(d) if !d.is_empty()))
    }

    fn case_hash(case: &Case) -> u64 {
        use std::hash::{Hash, Hasher};
        let mut h = std::collections::hash_map::DefaultHasher::new();
        case.hash(&mut h);
        h.finish()
    }

    fn shrink(case: &Case) -> Vec<Case> {
        let mut out = Vec::new();
        for steps in shrink_vec(&case.steps) {
            if !steps.is_empty() {
                out.push(Case { steps, ..case.clone() });
            }
        }
        // shrink draws inside each frame
        for (i, step) in case.steps.iter().enumerate() {
            if let Step::Frame(draws) | Step::NoFrame(draws) = step {
                for d in shrink_vec(draws) {
                    let mut steps = case.steps.clone();
                    steps[i] = match step {
                        Step::Frame(_) => Step::Frame(d),
                        _ => Step::NoFrame(d),
                    };
                    out.push(Case { steps, ..case.clone() });
                }
            }
        }
        out
    }

    fn rule() -> &'static str {
        "case = terminal size, cell pixel size, image/glyph pools and a history of Frame(draws)/NoFrame/Clear(scramble)/Recreate(scramble) steps, frames mostly small mutations of the previous one; non-trivial = at least one non-empty frame; distinct = hash of the whole case; frames with conflicting claims (overlapping image areas, wide-character tail under an image) and frames after them until the next clear are counted as non-deciding"
    }

    fn sample(case: &Case) -> serde_json::Value {
        let text = format!("{:?}", case.steps);
        serde_json::json!({"h": case.h, "w": case.w, "ppc": case.ppc, "images": case.images, "glyphs": case.glyphs,
            "steps": text.chars().take(500).collect::<String>()})
    }
}

/// Like `diff` but glyph image identities are renderer-local: compare image layers by shape
fn diff_scratch(actual: &Screen, expected: &Screen) -> Option<(String, String)> {
    for r in 0..actual.h {
        for c in 0..actual.w {
            let a: &MCell = actual.at(r, c);
            let e = expected.at(r, c);
            if a.visible() != e.visible() {
                return Some((
                    "cell".into(),
                    format!("cell ({r},{c}) shows {:?}, the painter says {:?}", a.visible(), e.visible()),
                ));
            }
            let (sa, se) = (actual.stamps[r * actual.w + c], expected.stamps[r * actual.w + c]);
            if sa.map(|s| (s.1, s.2)) != se.map(|s| (s.1, s.2)) {
                return Some(("image-pixels".into(), format!("cell ({r},{c}) image block {sa:?} vs {se:?}")));
            }
        }
    }
    let pa: Vec<(usize, usize)> = actual.placements.iter().map(|p| (p.1, p.2)).collect::<std::collections::BTreeSet<_>>().into_iter().collect();
    let pe: Vec<(usize, usize)> = expected.placements.iter().map(|p| (p.1, p.2)).collect::<std::collections::BTreeSet<_>>().into_iter().collect();
    if pa != pe {
        return Some(("image-placements".into(), format!("placements at {pa:?} vs {pe:?}")));
    }
    None
}


// ---------------------------------------------------------------------------
// the same histories through Terminal::run_render

#[derive(Debug)]
struct Stop(Option<Fail>);
impl From<Error> for Stop {
    fn from(e: Error) -> Self {
        Stop(Some(Fail::new("run_render:error", format!("{e:?}"))))
    }
}

fn check_via_run_render(case: &Case, world: &World, pool: Vec<Image>, ctx: &mut Ctx) -> Result<(), Fail> {
    use surf_n_term::TerminalAction;
    let (h, w) = (case.h, case.w);
    let mut term = ModelTerm::new(h, w, case.ppc, case.pix_extra, pool);
    term.delivery = case.delivery.clone();
    let mut glyph_keys: Vec<(usize, Face)> = Vec::new();
    let mut next = 0usize;
    let mut feats: Vec<String> = Vec::new();
    let steps = &case.steps;

    let result: Result<(), Stop> = term.run_render(|term, event, mut surf| {
        // the frame rendered after the previous invocation is judged by the terminal model itself,
        // at the first thing that happens after it (poll / frames_drop), see ModelTerm::judge
        term.judge();
        if let Some(fail) = term.failure.take() {
            return Err(Stop(Some(fail)));
        }
        if matches!(event, Some(TerminalEvent::Resize(_))) {
            // run_render cleared and re-created the renderer
            term.tainted = false;
            feats.push("run_render.resize".into());
        }
        if term.dropped {
            // pending frames were dropped and a clear was forced: the next frame repaints everything
            term.dropped = false;
            term.tainted = false;
            feats.push("run_render.forced-clear-after-drop".into());
        }
        loop {
            let Some(step) = steps.get(next) else {
                return Ok(TerminalAction::Quit(()));
            };
            let si = next;
            next += 1;
            match step {
                Step::Clear { scramble: seed } => {
                    // too many pending frames: run_render drops them and forces a clear before the
                    // next frame it renders
                    term.pending = 40;
                    term.scramble_on_drop = Some(*seed);
                    feats.push("run_render.frames-pending-over-limit".into());
                }
                Step::FailedFrame { scramble: seed, .. } => {
                    // (run_render gives up on a terminal error; here the step is a forced clear)
                    term.pending = 40;
                    term.scramble_on_drop = Some(*seed);
                    feats.push("run_render.frames-pending-over-limit".into());
                }
                Step::Recreate { scramble: seed } => {
                    term.scramble_on_resize = Some(*seed);
                    let size = term.size;
                    term.events.push_back(TerminalEvent::Resize(size));
                    // nothing is drawn in this invocation
                    return Ok(TerminalAction::WaitNoFrame);
                }
                Step::NoFrame(draws) => {
                    apply_draws_surface(world, &mut surf, draws);
                    feats.push("step.noframe".into());
                    return Ok(TerminalAction::WaitNoFrame);
                }
                Step::Frame(draws) => {
                    apply_draws_surface(world, &mut surf, draws);
                    let mut glyph_at = HashMap::new();
                    let cells = snapshot_surface(world, &surf, &mut glyph_keys, &mut glyph_at);
                    let expected = paint(h, w, &cells);
                    term.glyph_at = glyph_at;
                    // whether the frame can be judged is settled in render order: a frame with
                    // conflicting claims leaves terminal-defined content until the next forced clear
                    let nondeciding = if let Some(why) = expected.conflict {
                        term.tainted = true;
                        Some(format!("nondeciding.{why}"))
                    } else if term.tainted {
                        Some("nondeciding.after-conflict-frame".to_string())
                    } else {
                        None
                    };
                    let tag = Tag { si, expected, nondeciding };
                    if term.queueing() {
                        term.pending_tag = Some(tag);
                    } else {
                        term.screen.problems.clear();
                        term.to_judge = Some(tag);
                    }
                    return Ok(TerminalAction::Wait);
                }
            }
        }
    });
    match result {
        Err(Stop(Some(fail))) => return Err(fail),
        Err(Stop(None)) | Ok(()) => {}
    }
    if term.queueing() {
        // the session is over: the terminal catches up with everything still queued
        term.deliver_all();
        ctx.feat("run_render.sessions-on-queueing-terminal");
    }
    if let Some(fail) = term.failure.take() {
        return Err(fail);
    }
    ctx.feat("run_render.sessions");
    ctx.feat_n("run_render.frames-decided", term.decided);
    for f in term.notes.drain(..) {
        ctx.feat(&f);
    }
    for f in feats {
        ctx.feat(&f);
    }
    for (k, v) in term.counts.iter() {
        ctx.feat_n(k, *v);
    }
    Ok(())
}
