//! One module per property: generator + monitor + replay
use std::collections::HashMap;

pub mod c14;

pub fn dispatch(cmd: &str, id: &str, pos: &[String], flags: &HashMap<String, String>) -> i32 {
    use crate::run_prop;
    match id {
        "C14" => run_prop::<c14::C14>(cmd, pos, flags),
        _ => {
            eprintln!("unknown property {id}");
            64
        }
    }
}
