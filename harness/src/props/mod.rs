//! One module per property: generator + monitor + replay
use std::collections::HashMap;

pub mod c01;
pub mod c02;
pub mod c03;
pub mod c04;
pub mod c05;
pub mod c06;
pub mod c07;
pub mod c08;
pub mod c09;
pub mod c10;
pub mod c11;
pub mod c12;
pub mod c13;
pub mod c14;
pub mod c15;
pub mod c16;
pub mod c17;
pub mod c18;
pub mod c19;
pub mod c20;
pub mod common_term;
pub mod viewgen;
pub mod dec_common;
pub mod pty;

pub fn dispatch(cmd: &str, id: &str, pos: &[String], flags: &HashMap<String, String>) -> i32 {
    use crate::run_prop;
    match id {
        "C01" => run_prop::<c01::C01>(cmd, pos, flags),
        "C02" => run_prop::<c02::C02>(cmd, pos, flags),
        "C03" => run_prop::<c03::C03>(cmd, pos, flags),
        "C04" => run_prop::<c04::C04>(cmd, pos, flags),
        "C05" => run_prop::<c05::C05>(cmd, pos, flags),
        "C06" => run_prop::<c06::C06>(cmd, pos, flags),
        "C07" => run_prop::<c07::C07>(cmd, pos, flags),
        "C08" => run_prop::<c08::C08>(cmd, pos, flags),
        "C09" => run_prop::<c09::C09>(cmd, pos, flags),
        "C10" => run_prop::<c10::C10>(cmd, pos, flags),
        "C11" => run_prop::<c11::C11>(cmd, pos, flags),
        "C12" => run_prop::<c12::C12>(cmd, pos, flags),
        "C13" => run_prop::<c13::C13>(cmd, pos, flags),
        "C14" => run_prop::<c14::C14>(cmd, pos, flags),
        "C15" => run_prop::<c15::C15>(cmd, pos, flags),
        "C16" => run_prop::<c16::C16>(cmd, pos, flags),
        "C17" => run_prop::<c17::C17>(cmd, pos, flags),
        "C18" => run_prop::<c18::C18>(cmd, pos, flags),
        "C19" => run_prop::<c19::C19>(cmd, pos, flags),
        "C20" => run_prop::<c20::C20>(cmd, pos, flags),
        _ => {
            eprintln!("unknown property {id}");
            64
        }
    }
}
