//! One module per property: generator + monitor + replay
use std::collections::HashMap;

pub mod c01;
pub mod c02;
pub mod c03;
pub mod c04;
pub mod c05;
pub mod c06;
pub mod c14;
pub mod c20;
pub mod dec_common;

pub fn dispatch(cmd: &str, id: &str, pos: &[String], flags: &HashMap<String, String>) -> i32 {
    use crate::run_prop;
    match id {
        "C01" => run_prop::<c01::C01>(cmd, pos, flags),
        "C02" => run_prop::<c02::C02>(cmd, pos, flags),
        "C03" => run_prop::<c03::C03>(cmd, pos, flags),
        "C04" => run_prop::<c04::C04>(cmd, pos, flags),
        "C05" => run_prop::<c05::C05>(cmd, pos, flags),
        "C06" => run_prop::<c06::C06>(cmd, pos, flags),
        "C14" => run_prop::<c14::C14>(cmd, pos, flags),
        "C20" => run_prop::<c20::C20>(cmd, pos, flags),
        _ => {
            eprintln!("unknown property {id}");
            64
        }
    }
}
