//! One module per property: generator + monitor + replay
use std::collections::HashMap;

pub mod c02;
pub mod c03;
pub mod c04;
pub mod c06;
pub mod c14;
pub mod dec_common;

pub fn dispatch(cmd: &str, id: &str, pos: &[String], flags: &HashMap<String, String>) -> i32 {
    use crate::run_prop;
    match id {
        "C02" => run_prop::<c02::C02>(cmd, pos, flags),
        "C03" => run_prop::<c03::C03>(cmd, pos, flags),
        "C04" => run_prop::<c04::C04>(cmd, pos, flags),
        "C06" => run_prop::<c06::C06>(cmd, pos, flags),
        "C14" => run_prop::<c14::C14>(cmd, pos, flags),
        _ => {
            eprintln!("unknown property {id}");
            64
        }
    }
}
