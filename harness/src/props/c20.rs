//! C20 — colours reduced for 256-colour and grey terminals are the closest available ones
//!
//! Brute force oracle. The 240 non-system xterm palette entries are typed here independently
//! (6x6x6 cube over the levels 0,95,135,175,215,255 and the grey ramp 8+10k), converted with
//! the library's own `LinColor::from(RGBA)` and compared with `LinColor::distance` — "the
//! metric the library uses" by definition. The real `TTYEncoder` encodes a `Face` (foreground,
//! background role) or a `FaceModify` (underline colour role); the emitted SGR parameters are
//! read back by the independent control-sequence parser and SGR interpreter.
//!
//! * EightBit: the selected entry must be one of the 240 (index 16..=255) and its distance to
//!   the requested colour may exceed the minimum over all 240 by at most EPS = 1e-4
//! * Gray: the level (30/90/37/97, +10 for background) must be the nearest of the luminance
//!   levels [0, 0.33, 0.66, 1.0] by `Color::luma`, and must not decrease when the colours of
//!   the case plus a fixed reference ladder are sorted by luma; underline colour emits nothing
//! * TrueColor: the triple is the colour
//!
//! A case is a block of colours (a range of the 2^24 colours, a range of the fixed lattice, or
//! an explicit list) for one role and one depth, so that per-case overhead is amortised.
use crate::core::{Ctx, Fail, Prop, Tier};
use crate::models::ctlseq::{self, ColorSpec, Op, SgrState};
use crate::rng::Rng;
use crate::{ensure, fail};
use serde::{Deserialize, Serialize};
use std::sync::OnceLock;
use surf_n_term::{
    encoder::{ColorDepth, Encoder, TTYEncoder},
    Color, Face, FaceAttrs, FaceModify, LinColor, TerminalCaps, TerminalCommand, RGBA,
};

pub struct C20;

const EPS: f32 = 1e-4;
/// colours per block
const BLOCK: u32 = 4096;
/// number of blocks that cover all 2^24 colours
const FULL_BLOCKS: u64 = (1 << 24) / BLOCK as u64;

#[derive(Clone, Debug, Serialize, Deserialize)]
pub enum Colors {
    /// the consecutive 24-bit colours 0xRRGGBB in from..from+len
    Range { from: u32, len: u32 },
    /// entries from..from+len of the fixed lattice (see `lattice`)
    Lattice { from: u32, len: u32 },
    /// explicit colours 0xRRGGBB
    List(Vec<u32>),
}

#[derive(Clone, Debug, Serialize, Deserialize)]
pub struct Case {
    /// 0 foreground (Face.fg), 1 background (Face.bg), 2 underline colour (FaceModify)
    pub role: u8,
    /// 0 true colour, 1 eight bit, 2 gray
    pub depth: u8,
    pub colors: Colors,
}

// ---------------------------------------------------------------------------
// the xterm palette, typed independently

const CUBE_LEVELS: [u8; 6] = [0, 95, 135, 175, 215, 255];

/// sRGB of palette entry `index` (16..=255)
fn xterm_entry(index: usize) -> [u8; 3] {
    if index >= 232 {
        let v = (8 + 10 * (index - 232)) as u8;
        [v, v, v]
    } else {
        let i = index - 16;
        [
            CUBE_LEVELS[i / 36],
            CUBE_LEVELS[i / 6 % 6],
            CUBE_LEVELS[i % 6],
        ]
    }
}

fn palette() -> &'static Vec<LinColor> {
    static PALETTE: OnceLock<Vec<LinColor>> = OnceLock::new();
    PALETTE.get_or_init(|| {
        (16..=255)
            .map(|i| {
                let [r, g, b] = xterm_entry(i);
                LinColor::from(RGBA::new(r, g, b, 255))
            })
            .collect()
    })
}

// ---------------------------------------------------------------------------
// the lattice: channel steps of 4, plus every decision boundary of the tables +-1

fn srgb_to_linear(v: f64) -> f64 {
    if v <= 0.04045 {
        v / 12.92
    } else {
        ((v + 0.055) / 1.055).powf(2.4)
    }
}

/// 8-bit channel values around the points where the nearest of `levels` (compared in linear
/// light) changes
fn boundaries(levels: &[u8]) -> Vec<u8> {
    let mut out = Vec::new();
    for pair in levels.windows(2) {
        let mid = (srgb_to_linear(pair[0] as f64 / 255.0) + srgb_to_linear(pair[1] as f64 / 255.0)) / 2.0;
        // first 8-bit value whose linear value is above the midpoint
        let above = (0..=255u32)
            .find(|v| srgb_to_linear(*v as f64 / 255.0) > mid)
            .unwrap_or(255) as i32;
        for d in -2..=1 {
            out.push((above + d).clamp(0, 255) as u8);
        }
    }
    out
}

fn lattice() -> &'static Vec<u32> {
    static LATTICE: OnceLock<Vec<u32>> = OnceLock::new();
    LATTICE.get_or_init(|| {
        let pack = |r: u8, g: u8, b: u8| (r as u32) << 16 | (g as u32) << 8 | b as u32;
        let mut out = Vec::new();
        // 64^3 grid
        for r in (0..256).step_by(4) {
            for g in (0..256).step_by(4) {
                for b in (0..256).step_by(4) {
                    out.push(pack(r as u8, g as u8, b as u8));
                }
            }
        }
        // cube decision boundaries +-1 and the levels themselves, all combinations
        let mut cube: Vec<u8> = boundaries(&CUBE_LEVELS);
        cube.extend_from_slice(&CUBE_LEVELS);
        cube.sort();
        cube.dedup();
        for r in cube.iter() {
            for g in cube.iter() {
                for b in cube.iter() {
                    out.push(pack(*r, *g, *b));
                }
            }
        }
        // the grey axis: every grey, and every grey with one or two channels off by +-1, +-2
        for v in 0..=255i32 {
            for (dr, dg, db) in [
                (0, 0, 0), (1, 0, 0), (0, 1, 0), (0, 0, 1), (-1, 0, 0), (0, -1, 0), (0, 0, -1),
                (1, 1, 0), (0, 1, 1), (1, 0, 1), (-1, -1, 0), (0, -1, -1), (-1, 0, -1),
                (2, 0, -2), (-2, 2, 0), (0, -2, 2),
            ] {
                let c = |d: i32| (v + d).clamp(0, 255) as u8;
                out.push(pack(c(dr), c(dg), c(db)));
            }
        }
        // grey ramp decision boundaries crossed with the cube levels in one channel: where
        // the cube-versus-grey decision and the ramp decision interact
        let ramp: Vec<u8> = (0..24).map(|k| 8 + 10 * k as u8).collect();
        let grey_bounds = boundaries(&ramp);
        for v in grey_bounds.iter() {
            for level in cube.iter() {
                out.push(pack(*v, *v, *level));
                out.push(pack(*v, *level, *v));
                out.push(pack(*level, *v, *v));
            }
        }
        out
    })
}

/// fixed reference ladder for the monotonicity check under Gray
fn ladder() -> &'static Vec<u32> {
    static LADDER: OnceLock<Vec<u32>> = OnceLock::new();
    LADDER.get_or_init(|| {
        let mut out: Vec<u32> = (0..=255u32).map(|v| v << 16 | v << 8 | v).collect();
        for r in [0u32, 128, 255] {
            for g in [0u32, 128, 255] {
                for b in [0u32, 128, 255] {
                    out.push(r << 16 | g << 8 | b);
                }
            }
        }
        out
    })
}

fn colors_of(colors: &Colors) -> Option<Vec<u32>> {
    match colors {
        Colors::Range { from, len } => {
            let end = from.checked_add(*len)?;
            (end <= 1 << 24 && *len <= 1 << 16).then(|| (*from..end).collect())
        }
        Colors::Lattice { from, len } => {
            let all = lattice();
            let end = from.checked_add(*len)? as usize;
            (end <= all.len()).then(|| all[*from as usize..end].to_vec())
        }
        Colors::List(list) => list.iter().all(|c| *c < 1 << 24).then(|| list.clone()),
    }
}

fn unpack(c: u32) -> RGBA {
    RGBA::new((c >> 16) as u8, (c >> 8) as u8, c as u8, 255)
}

const ROLES: [&str; 3] = ["fg", "bg", "underline"];
const DEPTHS: [&str; 3] = ["truecolor", "eightbit", "gray"];

/// Encode the colour in its role with the real encoder and read back what the SGR selects.
/// `None` = nothing was emitted.
fn emitted(encoder: &mut TTYEncoder, buf: &mut Vec<u8>, role: u8, color: RGBA) -> Result<Option<ColorSpec>, Fail> {
    let cmd = match role {
        0 => TerminalCommand::Face(Face::new(Some(color), None, FaceAttrs::EMPTY)),
        1 => TerminalCommand::Face(Face::new(None, Some(color), FaceAttrs::EMPTY)),
        _ => TerminalCommand::FaceModify(FaceModify {
            underline_color: Some(color),
            ..FaceModify::default()
        }),
    };
    buf.clear();
    // every other colour is first refused by a congested output (nothing written): the encoding that
    // follows must be the same as if that had not happened
    if color.to_rgb()[2] % 2 == 1 {
        struct Refuse;
        impl std::io::Write for Refuse {
            fn write(&mut self, buf: &[u8]) -> std::io::Result<usize> {
                if buf.is_empty() {
                    Ok(0)
                } else {
                    Err(std::io::ErrorKind::WouldBlock.into())
                }
            }
            fn flush(&mut self) -> std::io::Result<()> {
                Ok(())
            }
        }
        let other = RGBA::new(255 - color.to_rgb()[0], 17, 200, 255);
        let refused = TerminalCommand::Face(Face::new(Some(other), Some(other), FaceAttrs::BOLD));
        let _ = encoder.encode(&mut Refuse, refused);
    }
    encoder
        .encode(&mut *buf, cmd)
        .map_err(|e| Fail::new("encode-error", format!("{e}")))?;
    if buf.is_empty() {
        return Ok(None);
    }
    let (ops, ground) = ctlseq::parse(buf);
    let role_name = ROLES[role as usize];
    ensure!(
        ground && ops.len() == 1 && matches!(ops[0], Op::Sgr(_)),
        format!("{role_name}:not-one-sgr"),
        "colour {} in role {} emitted {:?}, not one SGR sequence",
        color,
        role_name,
        String::from_utf8_lossy(buf)
    );
    let mut state = SgrState::default();
    let issues = ctlseq::apply_sgr_ops(&mut state, &ops);
    ensure!(
        issues.is_empty(),
        format!("{role_name}:sgr-undefined"),
        "colour {} in role {} emitted {:?}: {:?}",
        color,
        role_name,
        String::from_utf8_lossy(buf),
        issues
    );
    // exactly the field of the role is selected, the others stay default
    let fields = [state.fg, state.bg, state.underline_color];
    for (i, field) in fields.iter().enumerate() {
        ensure!(
            i == role as usize || *field == ColorSpec::Default,
            format!("{role_name}:wrong-role"),
            "colour {} in role {} emitted {:?}, which also sets the {} colour",
            color,
            role_name,
            String::from_utf8_lossy(buf),
            ROLES[i]
        );
    }
    Ok(Some(fields[role as usize]))
}

/// luminance levels of the four grey-terminal colours, in rank order, and the palette index
/// (SGR 30/90/37/97 -> 0/8/7/15) that selects each
const GRAY_LEVELS: [f32; 4] = [0.0, 0.33, 0.66, 1.0];
const GRAY_INDEX: [u8; 4] = [0, 8, 7, 15];

impl Prop for C20 {
    type Case = Case;
    const ID: &'static str = "C20";

    fn default_cases(tier: Tier, _flavour: &str) -> u64 {
        let lattice_blocks = (lattice().len() as u64).div_ceil(BLOCK as u64);
        match tier {
            // lattice for 3 roles x 3 depths, then seeded random blocks
            Tier::Quick => 9 * lattice_blocks + 150,
            // all 2^24 colours for each role under each depth, then seeded random blocks
            Tier::Thorough => 9 * FULL_BLOCKS + 500,
        }
    }

    fn gen(rng: &mut Rng, tier: Tier, index: u64) -> Case {
        let lattice_len = lattice().len() as u32;
        let lattice_blocks = (lattice_len as u64).div_ceil(BLOCK as u64);
        let lattice_block = |k: u64| {
            let from = k as u32 * BLOCK;
            Colors::Lattice {
                from,
                len: BLOCK.min(lattice_len - from),
            }
        };
        if tier == Tier::Thorough {
            if index < 9 * FULL_BLOCKS {
                // eight bit first (the expensive, deciding part), foreground first
                let combo = index / FULL_BLOCKS; // 0..9
                return Case {
                    role: (combo % 3) as u8,
                    depth: [1u8, 2, 0][(combo / 3) as usize],
                    colors: Colors::Range {
                        from: (index % FULL_BLOCKS) as u32 * BLOCK,
                        len: BLOCK,
                    },
                };
            }
        } else if index < 9 * lattice_blocks {
            let combo = index / lattice_blocks; // 0..9
            return Case {
                role: (combo % 3) as u8,
                depth: [1u8, 2, 0][(combo / 3) as usize],
                colors: lattice_block(index % lattice_blocks),
            };
        }
        // seeded random colours
        let role = rng.below(3) as u8;
        let depth = *rng.pick(&[1u8, 1, 1, 2, 2, 0]);
        let near_grey = rng.chance(1, 3);
        let list = (0..BLOCK / 2)
            .map(|_| {
                if near_grey {
                    let v = rng.next_u8() as i32;
                    let mut c = 0u32;
                    for _ in 0..3 {
                        let d = rng.range_i64(-6, 6) as i32;
                        c = c << 8 | (v + d).clamp(0, 255) as u32;
                    }
                    c
                } else {
                    rng.next_u32() >> 8
                }
            })
            .collect();
        Case {
            role,
            depth,
            colors: Colors::List(list),
        }
    }

    fn check(case: &Case, ctx: &mut Ctx) -> Result<(), Fail> {
        let colors = match colors_of(&case.colors) {
            Some(colors) if case.role < 3 && case.depth < 3 => colors,
            _ => {
                ctx.nondeciding = true;
                return Ok(());
            }
        };
        let role_name = ROLES[case.role as usize];
        let depth_name = DEPTHS[case.depth as usize];
        let mut encoder = TTYEncoder::new(TerminalCaps {
            depth: match case.depth {
                0 => ColorDepth::TrueColor,
                1 => ColorDepth::EightBit,
                _ => ColorDepth::Gray,
            },
            glyphs: false,
            kitty_keyboard: false,
        });
        let mut buf = Vec::with_capacity(64);
        match case.depth {
            0 => {
                for c in colors.iter() {
                    // true colour carries the three channels as they are, whatever the alpha channel says
                    let opaque = unpack(*c);
                    let [r, g, b] = opaque.to_rgb();
                    let alpha = [255u8, 255, 255, 0, 1, 128, 254][(*c as usize ^ (*c >> 9) as usize) % 7];
                    let color = RGBA::new(r, g, b, alpha);
                    ctx.feat_if(alpha != 255, "truecolor.translucent-colour");
                    let got = emitted(&mut encoder, &mut buf, case.role, color)?;
                    let want = ColorSpec::Rgb((c >> 16) as u8, (c >> 8) as u8, *c as u8);
                    // the same colour as one of three in a single face change (a parameter list of
                    // fifty and more bytes): each of the three arrives unchanged
                    if c % 5 == 0 {
                        let other = |k: u32| RGBA::new((c >> (k + 3)) as u8 | 100, (c >> k) as u8 | 100, (*c as u8) | 100, 255);
                        let trio = [color, other(1), other(7)];
                        let cmd = TerminalCommand::FaceModify(FaceModify {
                            fg: Some(trio[case.role as usize % 3]),
                            bg: Some(trio[(case.role as usize + 1) % 3]),
                            underline_color: Some(trio[(case.role as usize + 2) % 3]),
                            bold: Some(true),
                            italic: Some(true),
                            ..FaceModify::default()
                        });
                        buf.clear();
                        encoder.encode(&mut buf, cmd).map_err(|e| Fail::new("encode-error", format!("{e}")))?;
                        let (ops, ground) = ctlseq::parse(&buf);
                        let mut state = SgrState::default();
                        let issues = ctlseq::apply_sgr_ops(&mut state, &ops);
                        let spec = |c: RGBA| {
                            let [r, g, b] = c.to_rgb();
                            ColorSpec::Rgb(r, g, b)
                        };
                        ensure!(
                            ground
                                && issues.is_empty()
                                && state.fg == spec(trio[case.role as usize % 3])
                                && state.bg == spec(trio[(case.role as usize + 1) % 3])
                                && state.underline_color == spec(trio[(case.role as usize + 2) % 3]),
                            "truecolor:three-colours-in-one-change",
                            "fg {} bg {} underline {} in one FaceModify emitted {:?}: fg {:?} bg {:?} underline {:?} issues {:?}",
                            trio[case.role as usize % 3],
                            trio[(case.role as usize + 1) % 3],
                            trio[(case.role as usize + 2) % 3],
                            String::from_utf8_lossy(&buf),
                            state.fg,
                            state.bg,
                            state.underline_color,
                            issues
                        );
                        ctx.feat("truecolor.three-colours-in-one-change");
                    }
                    ensure!(
                        got == Some(want),
                        format!("truecolor:{role_name}:changed"),
                        "colour {} in role {} was transmitted as {:?} ({:?})",
                        color,
                        role_name,
                        got,
                        String::from_utf8_lossy(&buf)
                    );
                }
            }
            1 => {
                let palette = palette();
                let (mut cube, mut grey, mut near) = (0u64, 0u64, 0u64);
                for c in colors.iter() {
                    let color = unpack(*c);
                    let index = match emitted(&mut encoder, &mut buf, case.role, color)? {
                        Some(ColorSpec::Indexed(index)) if index >= 16 => index as usize,
                        other => fail!(
                            format!("eightbit:{role_name}:not-a-palette-entry"),
                            "colour {} in role {} selected {:?} ({:?}), not one of the 240 non-system entries",
                            color,
                            role_name,
                            other,
                            String::from_utf8_lossy(&buf)
                        ),
                    };
                    let lin = LinColor::from(color);
                    let chosen = lin.distance(palette[index - 16]);
                    let mut best = (f32::INFINITY, 0usize);
                    for (i, entry) in palette.iter().enumerate() {
                        let d = lin.distance(*entry);
                        if d < best.0 {
                            best = (d, i + 16);
                        }
                    }
                    let excess = chosen - best.0;
                    if !(excess <= EPS) {
                        let [r, g, b] = xterm_entry(index);
                        let [br, bg, bb] = xterm_entry(best.1);
                        fail!(
                            format!(
                                "eightbit:{role_name}:not-nearest:{}-chosen-{}-nearer",
                                if index >= 232 { "grey" } else { "cube" },
                                if best.1 >= 232 { "grey" } else { "cube" }
                            ),
                            "colour {} in role {}: selected entry {} (#{:02x}{:02x}{:02x}) at distance {}, but entry {} (#{:02x}{:02x}{:02x}) is at distance {} (excess {} > {})",
                            color, role_name, index, r, g, b, chosen, best.1, br, bg, bb, best.0, excess, EPS
                        );
                    }
                    if excess > 1e-6 {
                        near += 1;
                    }
                    if index >= 232 {
                        grey += 1;
                    } else {
                        cube += 1;
                    }
                }
                ctx.feat_n("eightbit.selected-cube", cube);
                ctx.feat_n("eightbit.selected-grey", grey);
                ctx.feat_n("eightbit.suboptimal-within-eps(>1e-6)", near);
            }
            _ => {
                if case.role == 2 {
                    for c in colors.iter() {
                        let color = unpack(*c);
                        let got = emitted(&mut encoder, &mut buf, case.role, color)?;
                        ensure!(
                            got.is_none(),
                            "gray:underline:emits",
                            "underline colour {} under Gray emitted {:?}",
                            color,
                            String::from_utf8_lossy(&buf)
                        );
                    }
                } else {
                    // (luma, rank, colour) of the case's colours and of the fixed ladder
                    let mut seen: Vec<(f32, usize, u32)> = Vec::with_capacity(colors.len() + 300);
                    let mut per_rank = [0u64; 4];
                    for (deciding, c) in colors
                        .iter()
                        .map(|c| (true, c))
                        .chain(ladder().iter().map(|c| (false, c)))
                    {
                        let color = unpack(*c);
                        let rank = match emitted(&mut encoder, &mut buf, case.role, color)? {
                            Some(ColorSpec::Indexed(index)) if GRAY_INDEX.contains(&index) => {
                                GRAY_INDEX.iter().position(|i| *i == index).unwrap_or(0)
                            }
                            other => fail!(
                                format!("gray:{role_name}:not-a-grey-level"),
                                "colour {} in role {} under Gray selected {:?} ({:?}), not one of black/bright black/white/bright white",
                                color,
                                role_name,
                                other,
                                String::from_utf8_lossy(&buf)
                            ),
                        };
                        let luma = color.luma();
                        let dist = |level: f32| (luma - level).abs();
                        let nearest = GRAY_LEVELS.iter().map(|l| dist(*l)).fold(f32::INFINITY, f32::min);
                        // ties (none exist for 8-bit colours, but stay sound) accept both levels
                        ensure!(
                            dist(GRAY_LEVELS[rank]) <= nearest + 1e-6,
                            format!("gray:{role_name}:not-nearest-level"),
                            "colour {} (luma {}) in role {} under Gray selected level {} ({}), nearest level is at distance {}",
                            color,
                            luma,
                            role_name,
                            rank,
                            GRAY_LEVELS[rank],
                            nearest
                        );
                        if deciding {
                            per_rank[rank] += 1;
                        }
                        seen.push((luma, rank, *c));
                    }
                    seen.sort_by(|a, b| a.0.total_cmp(&b.0).then(a.1.cmp(&b.1)));
                    for pair in seen.windows(2) {
                        ensure!(
                            pair[0].1 <= pair[1].1,
                            format!("gray:{role_name}:not-monotone"),
                            "under Gray in role {}: #{:06x} (luma {}) gets level {}, the brighter #{:06x} (luma {}) gets level {}",
                            role_name,
                            pair[0].2,
                            pair[0].0,
                            pair[0].1,
                            pair[1].2,
                            pair[1].0,
                            pair[1].1
                        );
                    }
                    for (rank, n) in per_rank.iter().enumerate() {
                        ctx.feat_n(&format!("gray.level{rank}"), *n);
                    }
                }
            }
        }
        ctx.feat_n(&format!("colours.{depth_name}.{role_name}"), colors.len() as u64);
        match &case.colors {
            Colors::Range { from, len } if *len == BLOCK && from % BLOCK == 0 => {
                // one of the FULL_BLOCKS aligned blocks whose union is all 2^24 colours
                ctx.feat(&format!("exhaustive-block.{depth_name}.{role_name}"));
            }
            Colors::Lattice { .. } => ctx.feat(&format!("lattice-block.{depth_name}.{role_name}")),
            _ => {}
        }
        Ok(())
    }

    fn nontrivial(case: &Case) -> bool {
        match &case.colors {
            Colors::Range { len, .. } | Colors::Lattice { len, .. } => *len > 0,
            Colors::List(list) => !list.is_empty(),
        }
    }

    fn case_hash(case: &Case) -> u64 {
        let mut bytes = vec![case.role, case.depth];
        match &case.colors {
            Colors::Range { from, len } => {
                bytes.push(0);
                bytes.extend_from_slice(&from.to_le_bytes());
                bytes.extend_from_slice(&len.to_le_bytes());
            }
            Colors::Lattice { from, len } => {
                bytes.push(1);
                bytes.extend_from_slice(&from.to_le_bytes());
                bytes.extend_from_slice(&len.to_le_bytes());
            }
            Colors::List(list) => {
                bytes.push(2);
                for c in list {
                    bytes.extend_from_slice(&c.to_le_bytes());
                }
            }
        }
        crate::core::fnv(&bytes)
    }

    fn shrink(case: &Case) -> Vec<Case> {
        // go to explicit lists, halve, then single colours
        let Some(colors) = colors_of(&case.colors) else {
            return Vec::new();
        };
        let mut out = Vec::new();
        let with = |list: Vec<u32>| Case {
            colors: Colors::List(list),
            ..case.clone()
        };
        if colors.len() > 1 {
            out.push(with(colors[..colors.len() / 2].to_vec()));
            out.push(with(colors[colors.len() / 2..].to_vec()));
            if colors.len() <= 64 {
                for i in 0..colors.len() {
                    let mut rest = colors.clone();
                    rest.remove(i);
                    out.push(with(rest));
                }
            }
        }
        out
    }

    fn finish(ctx: &mut Ctx) -> Option<String> {
        ctx.extra.insert(
            "exhaustive_note".into(),
            serde_json::json!(format!(
                "feature exhaustive-block.<depth>.<role> counts distinct aligned blocks of {BLOCK} consecutive colours; all 2^24 colours were covered for that depth and role iff the count reaches {FULL_BLOCKS} per flavour"
            )),
        );
        // only a single-shard run can see complete coverage by itself; sharded runs are judged
        // by the summed feature counts (checks.json `require`)
        for depth in DEPTHS {
            for role in ROLES {
                if ctx.feats.get(&format!("exhaustive-block.{depth}.{role}")).copied() == Some(FULL_BLOCKS) {
                    ctx.extra.insert(format!("exhaustive_{depth}_{role}_2^24"), serde_json::json!(true));
                }
            }
        }
        None
    }

    fn rule() -> &'static str {
        "case = (role fg/bg/underline, colour depth, block of colours: aligned range of the 2^24 colours, range of the fixed lattice [64^3 grid + cube decision boundaries^3 + grey axis neighbourhood + ramp boundaries x cube levels], or explicit list); every colour of the block is encoded and compared with brute force over the 240 xterm entries; non-trivial = non-empty block; distinct = hash of role, depth and block"
    }

    fn sample(case: &Case) -> serde_json::Value {
        let colors = match &case.colors {
            Colors::List(list) => serde_json::json!({"list_len": list.len(), "head": list.iter().take(4).map(|c| format!("#{:06x}", c)).collect::<Vec<_>>()}),
            other => serde_json::to_value(other).unwrap_or_default(),
        };
        serde_json::json!({"role": ROLES[case.role.min(2) as usize], "depth": DEPTHS[case.depth.min(2) as usize], "colors": colors})
    }
}
