//! Shared by C10 and C19:
//!  * `J` — a JSON document as an ordered tree that is printed to *text* (so repeated keys, raw
//!    number spellings and arbitrary nesting can be expressed), schema-aware generators of valid
//!    image / glyph / text / view documents, field mutations and ill-typed random documents;
//!  * `render_checked` — lay a view out and render it into a sentinel-bordered sub-view of a
//!    larger canvas, reporting any modification outside the surface that was handed to the view.
use crate::core::Fail;
use crate::props::c14::ref_encode;
use crate::rng::Rng;
use serde::{Deserialize, Serialize};
use surf_n_term::{
    view::{BoxConstraint, Tree, TreeId, View, ViewContext, ViewLayout, ViewLayoutStore},
    Cell, Face, FaceAttrs, Position, Size, Surface, SurfaceMut, SurfaceOwned, RGBA,
};

// ---------------------------------------------------------------------------
// JSON text

#[derive(Clone, Debug, PartialEq)]
pub enum J {
    Null,
    Bool(bool),
    /// printed verbatim (numbers in any spelling, or arbitrary raw text)
    Raw(String),
    Str(String),
    Arr(Vec<J>),
    /// ordered, keys may repeat
    Obj(Vec<(String, J)>),
}

pub fn num(v: impl std::fmt::Display) -> J {
    J::Raw(v.to_string())
}

pub fn s(v: &str) -> J {
    J::Str(v.to_string())
}

pub fn obj(items: Vec<(&str, J)>) -> J {
    J::Obj(items.into_iter().map(|(k, v)| (k.to_string(), v)).collect())
}

fn write_str(text: &str, out: &mut String) {
    out.push('"');
    for c in text.chars() {
        match c {
            '"' => out.push_str("\\\""),
            '\\' => out.push_str("\\\\"),
            '\n' => out.push_str("\\n"),
            '\r' => out.push_str("\\r"),
            '\t' => out.push_str("\\t"),
            c if (c as u32) < 0x20 => out.push_str(&format!("\\u{:04x}", c as u32)),
            c => out.push(c),
        }
    }
    out.push('"');
}

impl J {
    pub fn write(&self, out: &mut String) {
        match self {
            J::Null => out.push_str("null"),
            J::Bool(b) => out.push_str(if *b { "true" } else { "false" }),
            J::Raw(r) => out.push_str(r),
            J::Str(text) => write_str(text, out),
            J::Arr(items) => {
                out.push('[');
                for (i, item) in items.iter().enumerate() {
                    if i > 0 {
                        out.push(',');
                    }
                    item.write(out);
                }
                out.push(']');
            }
            J::Obj(items) => {
                out.push('{');
                for (i, (k, v)) in items.iter().enumerate() {
                    if i > 0 {
                        out.push(',');
                    }
                    write_str(k, out);
                    out.push(':');
                    v.write(out);
                }
                out.push('}');
            }
        }
    }

    pub fn text(&self) -> String {
        let mut out = String::new();
        self.write(&mut out);
        out
    }

    fn count(&self) -> usize {
        1 + match self {
            J::Arr(items) => items.iter().map(J::count).sum(),
            J::Obj(items) => items.iter().map(|(_, v)| v.count()).sum(),
            _ => 0,
        }
    }

    /// n-th node in pre-order
    fn nth_mut(&mut self, n: &mut usize) -> Option<&mut J> {
        if *n == 0 {
            return Some(self);
        }
        *n -= 1;
        match self {
            J::Arr(items) => items.iter_mut().find_map(|item| item.nth_mut(n)),
            J::Obj(items) => items.iter_mut().find_map(|(_, v)| v.nth_mut(n)),
            _ => None,
        }
    }
}

/// Numbers the hand-written visitors do arithmetic on
pub const EXTREME_NUMBERS: &[&str] = &[
    "0",
    "1",
    "2",
    "3",
    "255",
    "256",
    "65535",
    "65536",
    "2147483647",
    "2147483648",
    "4294967295",
    "4294967296",
    "4294967297",
    "9007199254740992",
    "4611686018427387904",
    "9223372036854775807",
    "9223372036854775808",
    "18446744073709551615",
    "18446744073709551616",
    "-1",
    "-2",
    "-2147483648",
    "-2147483649",
    "-9223372036854775808",
    "0.5",
    "1.5",
    "-0.0",
    "1e308",
    "-1e308",
    "1e309",
    "1e-320",
    "1e400",
    "1E+19",
    "123456789012345678901234567890",
];

/// `size` values whose product overflows / wraps / is astronomically large
const EXTREME_SIZES: &[(&str, &str)] = &[
    ("4294967296", "4294967296"),
    ("9223372036854775808", "2"),
    ("2", "9223372036854775808"),
    ("18446744073709551615", "18446744073709551615"),
    ("18446744073709551615", "1"),
    ("1", "18446744073709551615"),
    ("18446744073709551615", "2"),
    ("6148914691236517206", "3"),
    ("4611686018427387904", "4"),
    ("4611686018427387905", "4"),
    ("2147483648", "2147483648"),
    ("3037000500", "3037000500"),
    ("0", "18446744073709551615"),
    ("18446744073709551615", "0"),
    ("0", "0"),
    ("1", "0"),
    ("65536", "65536"),
    ("100000", "100000"),
    ("1000000", "1000000"),
];

const COLORS: &[&str] = &[
    "#ff0000",
    "#00ff0080",
    "white",
    "black",
    "#12345678",
    "red/.5",
    "#abc",
    "nocolor",
    "",
];
const FACES: &[&str] = &[
    "bg=#ff0000/.2",
    "bg=white,fg=black,bold",
    "fg=#00ff00",
    "underline_curly,italic",
    "bg=#00ff00/.05",
    "reverse",
    "",
    "fg=",
    "bogus",
    "fg=#zzzzzz",
];
const PATHS: &[&str] = &[
    "M1,1 h18 v18 h-18 Z",
    "M0,0 L10,0 L10,10 Z",
    "M5,5 m-4,0 a4,4 0 1,0 8,0 a4,4 0 1,0 -8,0",
    "M0,0",
    "",
    "Z",
    "M1e308,1e308 L-1e308,-1e308 Z",
    "M0,0 Q1,1 2",
    "garbage",
];

fn size_doc(rng: &mut Rng, h: usize, w: usize) -> J {
    if rng.chance(1, 5) {
        let mut items = vec![("height", num(h)), ("width", num(w))];
        if rng.bool() {
            items.reverse();
        }
        obj(items)
    } else {
        J::Arr(vec![num(h), num(w)])
    }
}

/// Valid small image document with the pixel values it denotes
pub fn gen_image_doc(rng: &mut Rng) -> J {
    let h = rng.range(0, 5);
    let w = rng.range(0, 6);
    let channels = *rng.pick(&[1usize, 3, 4]);
    let data = rng.bytes(h * w * channels);
    let mut items = vec![
        ("size", size_doc(rng, h, w)),
        ("channels", num(channels)),
        (
            "data",
            J::Str(String::from_utf8(ref_encode(&data)).unwrap()),
        ),
    ];
    if channels == 3 && rng.bool() {
        items.remove(1); // default is 3
    }
    rng.shuffle(&mut items);
    obj(items)
}

pub fn gen_glyph_doc(rng: &mut Rng) -> J {
    let mut items = Vec::new();
    if rng.chance(1, 6) {
        items.push((
            "scene",
            obj(vec![
                ("type", s("fill")),
                ("paint", s("#ff8040")),
                ("path", s("M0,0 h1 v1 h-1 z")),
            ]),
        ));
    } else {
        items.push(("path", s(PATHS[rng.below(3)])));
    }
    if rng.bool() {
        items.push((
            "view_box",
            J::Arr(vec![num(0), num(0), num(rng.range(1, 128)), num(rng.range(1, 128))]),
        ));
    }
    if rng.bool() {
        let (h, w) = (rng.range(0, 3), rng.range(0, 4));
        items.push(("size", size_doc(rng, h, w)));
    }
    if rng.bool() {
        items.push(("fallback", s(*rng.pick(&["x", "ab", "", "世", "\t", "a\nb"]))));
    }
    if rng.chance(1, 3) {
        items.push(("fill_rule", s(*rng.pick(&["nonzero", "evenodd"]))));
    }
    if rng.chance(1, 3) {
        let four = |rng: &mut Rng| {
            J::Arr((0..4).map(|_| num(rng.range(0, 30))).collect())
        };
        let mut frame = Vec::new();
        if rng.bool() {
            frame.push(("margin", four(rng)));
        }
        if rng.bool() {
            frame.push(("border_width", four(rng)));
        }
        if rng.bool() {
            frame.push(("border_radius", four(rng)));
        }
        if rng.bool() {
            frame.push(("padding", four(rng)));
        }
        if rng.bool() {
            frame.push(("border_color", s(COLORS[rng.below(5)])));
        }
        if rng.bool() {
            frame.push(("fill_color", s(COLORS[rng.below(5)])));
        }
        items.push(("frame", obj(frame)));
    }
    rng.shuffle(&mut items);
    obj(items)
}

pub fn gen_text_doc(rng: &mut Rng, depth: usize) -> J {
    let strings = [
        "Space Invaders ",
        "a",
        "",
        "line\nbreak",
        "tab\there",
        "世界",
        "e\u{301}",
        "\r\n",
    ];
    match rng.below(if depth == 0 { 2 } else { 6 }) {
        0 | 1 => s(*rng.pick(&strings)),
        2 => J::Arr((0..rng.range(0, 3)).map(|_| gen_text_doc(rng, depth - 1)).collect()),
        3 => {
            let mut items = vec![("glyph", gen_glyph_doc(rng))];
            if rng.bool() {
                items.push(("face", s(FACES[rng.below(6)])));
            }
            obj(items)
        }
        _ => {
            let mut items = vec![("text", gen_text_doc(rng, depth - 1))];
            if rng.bool() {
                items.push(("face", s(FACES[rng.below(6)])));
            }
            if rng.chance(1, 4) {
                items.push(("wraps", J::Bool(rng.bool())));
            }
            rng.shuffle(&mut items);
            obj(items)
        }
    }
}

fn align_doc(rng: &mut Rng) -> J {
    match rng.below(7) {
        0 => s("start"),
        1 => s("center"),
        2 => s("end"),
        3 => s("expand"),
        4 => s("shrink"),
        _ => obj(vec![(
            "offset",
            num(*rng.pick(&[0i64, 1, 2, -1, -2, 5, -7, 100, -100, 2147483647, -2147483648])),
        )]),
    }
}

pub fn gen_view_doc(rng: &mut Rng, depth: usize) -> J {
    let leaf = depth == 0;
    let mut items: Vec<(&str, J)> = Vec::new();
    match rng.below(if leaf { 6 } else { 12 }) {
        0 | 1 => {
            items.push(("type", s("text")));
            items.push(("text", gen_text_doc(rng, 2)));
            if rng.chance(1, 3) {
                items.push(("face", s(FACES[rng.below(6)])));
            }
        }
        2 => {
            items.push(("type", s("glyph")));
            if let J::Obj(fields) = gen_glyph_doc(rng) {
                let mut doc: Vec<(String, J)> = vec![("type".to_string(), s("glyph"))];
                doc.extend(fields);
                return J::Obj(doc);
            }
        }
        3 | 4 => {
            let kind = if rng.bool() { "image" } else { "image_ascii" };
            if let J::Obj(fields) = gen_image_doc(rng) {
                let mut doc: Vec<(String, J)> = vec![("type".to_string(), s(kind))];
                doc.extend(fields);
                return J::Obj(doc);
            }
        }
        5 => {
            if rng.bool() {
                items.push(("type", s("color")));
                items.push(("color", s(COLORS[rng.below(5)])));
            } else {
                items.push(("type", s("ref")));
                items.push(("ref", num(rng.range(0, 9))));
            }
        }
        6..=8 => {
            items.push(("type", s("flex")));
            if rng.bool() {
                items.push(("direction", s(*rng.pick(&["horizontal", "vertical"]))));
            }
            if rng.chance(3, 4) {
                items.push((
                    "justify",
                    s(*rng.pick(&[
                        "start",
                        "center",
                        "end",
                        "space-between",
                        "space-around",
                        "space-evenly",
                    ])),
                ));
            }
            if rng.chance(9, 10) {
                let n = *rng.pick(&[0usize, 1, 1, 2, 2, 3, 4]);
                let children = (0..n)
                    .map(|_| {
                        let view = gen_view_doc(rng, depth - 1);
                        if rng.chance(1, 3) {
                            view
                        } else {
                            let mut child = vec![("view", view)];
                            if rng.bool() {
                                child.push((
                                    "flex",
                                    num(*rng.pick(&[
                                        "1", "2", "0.5", "3", "1.0", "0", "-1", "1e308", "1e-320",
                                        "-0.0", "1e309",
                                    ])),
                                ));
                            }
                            if rng.bool() {
                                child.push(("align", align_doc(rng)));
                            }
                            if rng.chance(1, 3) {
                                child.push(("face", s(FACES[rng.below(6)])));
                            }
                            rng.shuffle(&mut child);
                            obj(child)
                        }
                    })
                    .collect();
                items.push(("children", J::Arr(children)));
            }
        }
        9 | 10 => {
            items.push(("type", s("container")));
            items.push(("child", gen_view_doc(rng, depth - 1)));
            if rng.bool() {
                items.push(("horizontal", align_doc(rng)));
            }
            if rng.bool() {
                items.push(("vertical", align_doc(rng)));
            }
            if rng.bool() {
                let mut margins = Vec::new();
                for side in ["left", "right", "top", "bottom"] {
                    if rng.bool() {
                        margins.push((side, num(rng.range(0, 4))));
                    }
                }
                items.push(("margins", obj(margins)));
            }
            if rng.bool() {
                let (h, w) = (rng.range(0, 9), rng.range(0, 12));
                items.push(("size", size_doc(rng, h, w)));
            }
            if rng.chance(1, 3) {
                items.push(("face", s(FACES[rng.below(6)])));
            }
        }
        _ => {
            if rng.bool() {
                items.push(("type", s("tag")));
                items.push(("tag", random_json(rng, 1)));
            } else {
                items.push(("type", s("trace-layout")));
                if rng.bool() {
                    items.push(("msg", s("m")));
                }
            }
            items.push(("view", gen_view_doc(rng, depth - 1)));
        }
    }
    rng.shuffle(&mut items);
    obj(items)
}

/// Ill-typed random JSON
pub fn random_json(rng: &mut Rng, depth: usize) -> J {
    const KEYS: &[&str] = &[
        "type", "size", "data", "channels", "text", "view", "child", "children", "flex", "face",
        "glyph", "path", "scene", "tag", "ref", "margins", "align", "x", "",
    ];
    const STRS: &[&str] = &[
        "text", "flex", "container", "glyph", "image", "image_ascii", "color", "tag", "ref",
        "trace-layout", "", "AAAA", "====", "horizontal", "#ff0000",
    ];
    match rng.below(if depth == 0 { 5 } else { 8 }) {
        0 => J::Null,
        1 => J::Bool(rng.bool()),
        2 | 3 => J::Raw(rng.pick(EXTREME_NUMBERS).to_string()),
        4 => s(*rng.pick(STRS)),
        5 => J::Arr((0..rng.range(0, 4)).map(|_| random_json(rng, depth - 1)).collect()),
        _ => J::Obj(
            (0..rng.range(0, 5))
                .map(|_| (rng.pick(KEYS).to_string(), random_json(rng, depth - 1)))
                .collect(),
        ),
    }
}

fn mutate_base64(rng: &mut Rng, text: &mut String) {
    match rng.below(8) {
        0 => {
            // length % 4 != 0
            for _ in 0..rng.range(1, 3) {
                text.pop();
            }
        }
        1 => text.push_str(*rng.pick(&["A", "AA", "AAA", "AAAA", "=", "==", "AAAAAAAA"])),
        2 => {
            // invalid alphabet
            let bounds: Vec<usize> = text.char_indices().map(|(i, _)| i).chain([text.len()]).collect();
            let at = *rng.pick(&bounds);
            text.insert(at, *rng.pick(&['*', ' ', '\n', '-', '_', 'é', '\0']));
        }
        3 => {
            // padding in the middle
            let bounds: Vec<(usize, char)> = text.char_indices().collect();
            if !bounds.is_empty() {
                let (at, c) = *rng.pick(&bounds);
                text.replace_range(at..at + c.len_utf8(), "=");
            }
        }
        4 => text.clear(),
        5 => {
            // drop a whole group: valid base64, wrong length
            if text.chars().count() >= 4 {
                for _ in 0..4 {
                    text.pop();
                }
            } else {
                text.push_str("AAAA");
            }
        }
        6 => *text = "=".repeat(rng.range(1, 9)),
        _ => {
            // much longer, still valid
            let extra = "QUJD".repeat(rng.range(1, 64));
            text.insert_str(0, &extra);
        }
    }
}

/// Apply one mutation somewhere in the document
pub fn mutate(rng: &mut Rng, doc: &mut J) {
    // targeted, by key
    if rng.chance(2, 5) {
        if let J::Obj(_) = doc {
            let mut paths = Vec::new();
            collect_keys(doc, &mut Vec::new(), &mut paths);
            let wanted: Vec<&(Vec<usize>, String)> = paths
                .iter()
                .filter(|(_, k)| {
                    matches!(
                        k.as_str(),
                        "size" | "channels" | "data" | "flex" | "margins" | "offset" | "ref"
                            | "view_box" | "path" | "children" | "type" | "face" | "text"
                    )
                })
                .collect();
            if !wanted.is_empty() {
                let (path, key) = (*rng.pick(&wanted)).clone();
                if let Some(node) = node_at(doc, &path) {
                    mutate_keyed(rng, &key, node);
                    return;
                }
            }
        }
    }
    let total = doc.count();
    let mut n = rng.below(total);
    if let Some(node) = doc.nth_mut(&mut n) {
        mutate_node(rng, node);
    }
}

fn collect_keys(doc: &J, path: &mut Vec<usize>, out: &mut Vec<(Vec<usize>, String)>) {
    match doc {
        J::Arr(items) => {
            for (i, item) in items.iter().enumerate() {
                path.push(i);
                collect_keys(item, path, out);
                path.pop();
            }
        }
        J::Obj(items) => {
            for (i, (k, v)) in items.iter().enumerate() {
                path.push(i);
                out.push((path.clone(), k.clone()));
                collect_keys(v, path, out);
                path.pop();
            }
        }
        _ => {}
    }
}

fn node_at<'a>(doc: &'a mut J, path: &[usize]) -> Option<&'a mut J> {
    let mut cur = doc;
    for index in path {
        cur = match cur {
            J::Arr(items) => items.get_mut(*index)?,
            J::Obj(items) => &mut items.get_mut(*index)?.1,
            _ => return None,
        };
    }
    Some(cur)
}

fn mutate_keyed(rng: &mut Rng, key: &str, node: &mut J) {
    match key {
        "size" => {
            let (h, w) = *rng.pick(EXTREME_SIZES);
            *node = if rng.chance(1, 5) {
                obj(vec![("height", num(h)), ("width", num(w))])
            } else {
                J::Arr(vec![num(h), num(w)])
            };
        }
        "channels" => {
            *node = num(*rng.pick(&[
                "0", "1", "2", "3", "4", "5", "255", "256", "-1", "1.5", "4294967297",
                "18446744073709551615",
            ]))
        }
        "data" => match node {
            J::Str(text) => mutate_base64(rng, text),
            _ => *node = s("AAAA"),
        },
        "flex" => {
            *node = match rng.below(6) {
                0 => J::Null,
                1 => s("NaN"),
                2 => s("inf"),
                _ => num(*rng.pick(&[
                    "0", "-1", "-0.5", "1e308", "-1e308", "1e309", "1e-320", "0.0", "-0.0",
                    "18446744073709551615", "1e19",
                ])),
            }
        }
        "margins" => {
            let mut margins = Vec::new();
            for side in ["left", "right", "top", "bottom"] {
                if rng.chance(2, 3) {
                    margins.push((
                        side,
                        num(*rng.pick(&[
                            "0",
                            "1",
                            "5",
                            "100",
                            "2147483648",
                            "9223372036854775807",
                            "9223372036854775808",
                            "18446744073709551614",
                            "18446744073709551615",
                            "18446744073709551616",
                            "-1",
                        ])),
                    ));
                }
            }
            *node = obj(margins);
        }
        "offset" => {
            *node = num(*rng.pick(&[
                "2147483647", "-2147483648", "2147483648", "-2147483649", "4294967296", "0.5",
                "100000", "-100000",
            ]))
        }
        "ref" => *node = num(*rng.pick(EXTREME_NUMBERS)),
        "view_box" => {
            *node = J::Arr(
                (0..*rng.pick(&[4usize, 4, 4, 3, 5, 0]))
                    .map(|_| num(*rng.pick(&["0", "1", "-1", "1e308", "-1e308", "1e-320", "128", "0.0"])))
                    .collect(),
            )
        }
        "path" => *node = s(*rng.pick(PATHS)),
        "face" => *node = s(*rng.pick(FACES)),
        _ => mutate_node(rng, node),
    }
}

fn mutate_node(rng: &mut Rng, node: &mut J) {
    let wrong_type = |rng: &mut Rng| match rng.below(7) {
        0 => J::Null,
        1 => J::Bool(rng.bool()),
        2 => J::Raw(rng.pick(EXTREME_NUMBERS).to_string()),
        3 => s(*rng.pick(&["", "x", "text", "AAAA", "18446744073709551616"])),
        4 => J::Arr(vec![]),
        5 => J::Obj(vec![]),
        _ => J::Arr(vec![J::Raw("1".into()), J::Raw("2".into())]),
    };
    match node {
        J::Raw(_) if rng.chance(3, 4) => *node = J::Raw(rng.pick(EXTREME_NUMBERS).to_string()),
        J::Str(text) if rng.chance(1, 2) => match rng.below(4) {
            0 => text.clear(),
            1 => text.push_str("\u{0}x"),
            2 => mutate_base64(rng, text),
            _ => *text = (*rng.pick(&["18446744073709551616", "NaN", "é", "type"])).to_string(),
        },
        J::Obj(items) if rng.chance(3, 4) => match rng.below(6) {
            0 if !items.is_empty() => {
                // missing key
                let at = rng.below(items.len());
                items.remove(at);
            }
            1 | 2 if !items.is_empty() => {
                // repeated key, same or different value, adjacent or at the end
                let at = rng.below(items.len());
                let (k, v) = items[at].clone();
                let v = match rng.below(3) {
                    0 => v,
                    1 => wrong_type(rng),
                    _ => {
                        let mut v = v;
                        mutate_node(rng, &mut v);
                        v
                    }
                };
                if rng.bool() {
                    items.push((k, v));
                } else {
                    items.insert(at, (k, v));
                }
            }
            3 => rng.shuffle(items),
            4 => items.push(("unknown".to_string(), wrong_type(rng))),
            _ => {
                // rename a key
                if !items.is_empty() {
                    let at = rng.below(items.len());
                    items[at].0.push('_');
                }
            }
        },
        J::Arr(items) if rng.chance(3, 4) => match rng.below(4) {
            0 if !items.is_empty() => {
                let at = rng.below(items.len());
                items.remove(at);
            }
            1 if !items.is_empty() => {
                let at = rng.below(items.len());
                let item = items[at].clone();
                items.push(item);
            }
            2 => items.clear(),
            _ => items.push(wrong_type(rng)),
        },
        _ => *node = wrong_type(rng),
    }
}

/// Deep nesting as text: `levels` levels of one of the recursive shapes around a small core
pub fn deep_nest(rng: &mut Rng, levels: usize) -> String {
    let (open, close): (&str, &str) = match rng.below(7) {
        0 => ("[", "]"),
        1 => ("{\"type\":\"tag\",\"tag\":1,\"view\":", "}"),
        2 => ("{\"type\":\"flex\",\"children\":[", "]}"),
        3 => ("{\"type\":\"container\",\"child\":", "}"),
        4 => ("{\"type\":\"text\",\"text\":[", "]}"),
        5 => ("{\"text\":", "}"),
        _ => ("{\"type\":\"trace-layout\",\"view\":", "}"),
    };
    let core = *rng.pick(&["\"x\"", "{\"type\":\"text\",\"text\":\"x\"}", "1", "[]", "{}"]);
    let mut out = String::with_capacity(levels * (open.len() + close.len()) + core.len());
    for _ in 0..levels {
        out.push_str(open);
    }
    out.push_str(core);
    for _ in 0..levels {
        out.push_str(close);
    }
    out
}

// ---------------------------------------------------------------------------
// sentinel-bordered rendering

/// serialisable `BoxConstraint` + configuration of one layout/render run
#[derive(Clone, Copy, Debug, Serialize, Deserialize, PartialEq, Eq)]
pub struct RunCfg {
    /// constraint minimum (height, width)
    pub min: (usize, usize),
    /// constraint maximum (height, width)
    pub max: (usize, usize),
    /// size of the surface handed to `render` (height, width)
    pub surf: (usize, usize),
    /// pixels per cell (height, width)
    pub ppc: (usize, usize),
    pub glyphs: bool,
}

impl RunCfg {
    pub fn constraint(&self) -> BoxConstraint {
        BoxConstraint::new(Size::new(self.min.0, self.min.1), Size::new(self.max.0, self.max.1))
    }
    pub fn ctx(&self) -> ViewContext {
        crate::props::common_term::view_ctx(Size::new(self.ppc.0, self.ppc.1), self.glyphs)
    }
    /// `min <= max` in both dimensions: the property's domain
    pub fn valid(&self) -> bool {
        self.min.0 <= self.max.0 && self.min.1 <= self.max.1
    }
}

/// constraint + surface + context generator (`min <= max` always)
pub fn gen_cfg(rng: &mut Rng, allow_huge: bool) -> RunCfg {
    let dim = |rng: &mut Rng, hi: usize| match rng.below(10) {
        0 => 0,
        1 => 1,
        2 => 2,
        3 => 3,
        _ => rng.range(0, hi),
    };
    let mut max = (dim(rng, 12), dim(rng, 24));
    let mut surf = max;
    if allow_huge && rng.chance(1, 40) {
        // "unbounded" constraints
        let huge = [1usize << 20, 1 << 31, 1 << 32, usize::MAX / 2, usize::MAX - 1, usize::MAX];
        match rng.below(3) {
            0 => max.0 = *rng.pick(&huge),
            1 => max.1 = *rng.pick(&huge),
            _ => max = (*rng.pick(&huge), *rng.pick(&huge)),
        }
    }
    let min_of = |rng: &mut Rng, max: usize| match rng.below(5) {
        0 | 1 => 0,
        2 => max,
        3 => max.min(1),
        _ => rng.range(0, max.min(30)),
    };
    let min = if rng.chance(1, 6) {
        max // tight
    } else {
        (min_of(rng, max.0), min_of(rng, max.1))
    };
    if rng.chance(1, 5) {
        surf = (dim(rng, 12), dim(rng, 24));
    }
    let glyphs = rng.bool();
    let ppc = if !glyphs && rng.chance(1, 8) {
        (0, 0)
    } else {
        *rng.pick(&[(4usize, 2usize), (5, 3), (10, 5)])
    };
    RunCfg {
        min,
        max,
        surf,
        ppc,
        glyphs,
    }
}

pub const BORDER: usize = 2;
const SENTINEL_CHAR: char = '\u{f8ff}';
const INITIAL_CHAR: char = '\u{f8fe}';

/// cell outside the surface handed to the view
pub fn sentinel_cell() -> Cell {
    Cell::new_char(
        Face::new(
            Some(RGBA::new(1, 2, 0x22, 255)),
            Some(RGBA::new(3, 4, 0x22, 255)),
            FaceAttrs::BLINK,
        ),
        SENTINEL_CHAR,
    )
}

/// initial content of the surface handed to the view (default face, so overlays behave as on
/// a fresh surface, but a character no view writes, so every modification is visible)
pub fn initial_cell() -> Cell {
    Cell::new_char(Face::default(), INITIAL_CHAR)
}

pub struct Rendered {
    /// whole canvas, the surface handed to the view starts at (BORDER, BORDER)
    pub canvas: SurfaceOwned<Cell>,
    pub surf: Size,
    pub store: ViewLayoutStore,
    pub root: TreeId,
}

impl Rendered {
    pub fn layout(&self) -> ViewLayout<'_> {
        ViewLayout::from_id(&self.store, self.root)
    }
    /// cell of the surface handed to the view
    pub fn cell(&self, row: usize, col: usize) -> &Cell {
        self.canvas
            .get(Position::new(row + BORDER, col + BORDER))
            .expect("inside canvas")
    }
}

/// Outcome of `render_checked` when neither a panic nor a sentinel violation happened
pub enum RenderOutcome {
    Done(Box<Rendered>),
    /// the view returned `Err` from layout or render (not a panic)
    ViewError(String),
}

/// `layout_new` under `cfg.constraint()`, then `render` into the (BORDER-framed) sub-view of a
/// fresh canvas; fails if any cell outside the sub-view was modified.
pub fn render_checked(view: &dyn View, cfg: &RunCfg) -> Result<RenderOutcome, Fail> {
    let ctx = cfg.ctx();
    let surf_size = Size::new(cfg.surf.0, cfg.surf.1);
    let canvas_size = Size::new(surf_size.height + 2 * BORDER, surf_size.width + 2 * BORDER);
    let mut canvas = SurfaceOwned::new_with(canvas_size, |_| sentinel_cell());
    canvas
        .view_mut(
            BORDER..BORDER + surf_size.height,
            BORDER..BORDER + surf_size.width,
        )
        .fill(initial_cell());

    let mut store = ViewLayoutStore::new();
    let root = match view.layout_new(&ctx, cfg.constraint(), &mut store) {
        Ok(layout) => layout.id(),
        Err(err) => return Ok(RenderOutcome::ViewError(format!("layout: {err}"))),
    };
    let result = {
        let surf = canvas.view_mut(
            BORDER..BORDER + surf_size.height,
            BORDER..BORDER + surf_size.width,
        );
        view.render(&ctx, surf, ViewLayout::from_id(&store, root))
    };
    // (1) sentinels: checked even when render reported an error
    let sentinel = sentinel_cell();
    for row in 0..canvas_size.height {
        for col in 0..canvas_size.width {
            let inside = row >= BORDER
                && row < BORDER + surf_size.height
                && col >= BORDER
                && col < BORDER + surf_size.width;
            if !inside {
                let cell = canvas.get(Position::new(row, col)).expect("inside canvas");
                if *cell != sentinel {
                    return Err(Fail::new(
                        "sentinel-modified",
                        format!(
                            "cell ({row},{col}) of the canvas, outside the {}x{} surface at ({BORDER},{BORDER}), was modified to {:?}; cfg={:?}",
                            surf_size.height, surf_size.width, cell, cfg
                        ),
                    ));
                }
            }
        }
    }
    if let Err(err) = result {
        return Ok(RenderOutcome::ViewError(format!("render: {err}")));
    }
    Ok(RenderOutcome::Done(Box::new(Rendered {
        canvas,
        surf: surf_size,
        store,
        root,
    })))
}

/// The documented convenience entry point: `surface.draw_view(ctx, store, view)` lays the view out
/// under `BoxConstraint::loose(surface.size())` and renders it. Runs it on the (BORDER-framed)
/// sub-view of a fresh canvas, with or without a caller-provided (and already used) layout store.
pub fn draw_view_checked(view: &dyn View, cfg: &RunCfg, reuse_store: bool) -> Result<RenderOutcome, Fail> {
    use surf_n_term::render::TerminalSurfaceExt;
    let ctx = cfg.ctx();
    let surf_size = Size::new(cfg.surf.0, cfg.surf.1);
    let canvas_size = Size::new(surf_size.height + 2 * BORDER, surf_size.width + 2 * BORDER);
    let mut canvas = SurfaceOwned::new_with(canvas_size, |_| sentinel_cell());
    canvas
        .view_mut(BORDER..BORDER + surf_size.height, BORDER..BORDER + surf_size.width)
        .fill(initial_cell());
    let mut store = ViewLayoutStore::new();
    if reuse_store {
        // a store that still holds the layout of an earlier frame
        let _ = view.layout_new(&ctx, cfg.constraint(), &mut store);
    }
    let result = {
        let mut surf = canvas.view_mut(BORDER..BORDER + surf_size.height, BORDER..BORDER + surf_size.width);
        if reuse_store {
            surf.draw_view(&ctx, Some(&mut store), view)
        } else {
            let mut own = ViewLayoutStore::new();
            let r = surf.draw_view(&ctx, Some(&mut own), view);
            store = own;
            r
        }
    };
    let sentinel = sentinel_cell();
    for row in 0..canvas_size.height {
        for col in 0..canvas_size.width {
            let inside = row >= BORDER && row < BORDER + surf_size.height && col >= BORDER && col < BORDER + surf_size.width;
            if !inside && canvas.get(Position::new(row, col)).expect("inside canvas") != &sentinel {
                return Err(Fail::new(
                    "draw_view:sentinel-modified",
                    format!(
                        "draw_view: cell ({row},{col}) of the canvas, outside the {}x{} surface at ({BORDER},{BORDER}), was modified; cfg={:?}",
                        surf_size.height, surf_size.width, cfg
                    ),
                ));
            }
        }
    }
    match result {
        Err(err) => Ok(RenderOutcome::ViewError(format!("draw_view: {err}"))),
        Ok(root) => Ok(RenderOutcome::Done(Box::new(Rendered { canvas, surf: surf_size, store, root }))),
    }
}

