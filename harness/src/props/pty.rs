//! Pseudo-terminal rig: the real `SystemTerminal` drives the slave side, a scripted peer thread
//! plays the terminal emulator on the master side (answers the capability probe, drains output
//! with a seeded schedule, injects input).
use crate::rng::Rng;
use std::{
    ffi::CStr,
    os::fd::RawFd,
    sync::{
        atomic::{AtomicBool, AtomicU64, Ordering},
        Arc, Mutex,
    },
    thread::JoinHandle,
    time::{Duration, Instant},
};

/// one logical clock for all history records of a session
pub static TICKET: AtomicU64 = AtomicU64::new(1);

pub fn ticket() -> u64 {
    TICKET.fetch_add(1, Ordering::SeqCst)
}

pub struct Pty {
    pub master: RawFd,
    /// second descriptor of the slave kept by the harness to observe line settings
    pub probe: RawFd,
    pub slave_path: String,
    master_open: bool,
}

#[derive(Clone, PartialEq, Eq, Debug)]
pub struct TermiosSnapshot {
    pub iflag: u64,
    pub oflag: u64,
    pub cflag: u64,
    pub lflag: u64,
    pub cc: Vec<u8>,
}

impl Pty {
    pub fn open(rows: u16, cols: u16, ypix: u16, xpix: u16) -> std::io::Result<Pty> {
        unsafe {
            let master = libc::posix_openpt(libc::O_RDWR | libc::O_NOCTTY);
            if master < 0 {
                return Err(std::io::Error::last_os_error());
            }
            if libc::grantpt(master) != 0 || libc::unlockpt(master) != 0 {
                let e = std::io::Error::last_os_error();
                libc::close(master);
                return Err(e);
            }
            let mut buf = [0 as libc::c_char; 128];
            if libc::ptsname_r(master, buf.as_mut_ptr(), buf.len()) != 0 {
                let e = std::io::Error::last_os_error();
                libc::close(master);
                return Err(e);
            }
            let slave_path = CStr::from_ptr(buf.as_ptr()).to_string_lossy().to_string();
            let ws = libc::winsize { ws_row: rows, ws_col: cols, ws_xpixel: xpix, ws_ypixel: ypix };
            libc::ioctl(master, libc::TIOCSWINSZ, &ws);
            let cpath = std::ffi::CString::new(slave_path.clone()).unwrap();
            let probe = libc::open(cpath.as_ptr(), libc::O_RDWR | libc::O_NOCTTY);
            if probe < 0 {
                let e = std::io::Error::last_os_error();
                libc::close(master);
                return Err(e);
            }
            Ok(Pty { master, probe, slave_path, master_open: true })
        }
    }

    pub fn termios(&self) -> Option<TermiosSnapshot> {
        unsafe {
            let mut t: libc::termios = std::mem::zeroed();
            if libc::tcgetattr(self.probe, &mut t) != 0 {
                return None;
            }
            Some(TermiosSnapshot {
                iflag: t.c_iflag as u64,
                oflag: t.c_oflag as u64,
                cflag: t.c_cflag as u64,
                lflag: t.c_lflag as u64,
                cc: t.c_cc.to_vec(),
            })
        }
    }

    /// scramble the line settings so that "restored" is distinguishable from "some default"
    pub fn set_odd_termios(&self, variant: u64) {
        unsafe {
            let mut t: libc::termios = std::mem::zeroed();
            if libc::tcgetattr(self.probe, &mut t) != 0 {
                return;
            }
            t.c_lflag &= !(libc::ECHO);
            if variant & 1 == 1 {
                t.c_lflag &= !libc::ECHOE;
            }
            if variant & 2 == 2 {
                t.c_oflag &= !libc::ONLCR;
            }
            if variant & 4 == 4 {
                t.c_iflag |= libc::ISTRIP;
            }
            t.c_cc[libc::VMIN] = 1 + (variant % 5) as u8;
            t.c_cc[libc::VTIME] = (variant % 3) as u8;
            libc::tcsetattr(self.probe, libc::TCSANOW, &t);
        }
    }

    pub fn write_master(&self, bytes: &[u8]) -> bool {
        if !self.master_open {
            return false;
        }
        let mut off = 0;
        let deadline = Instant::now() + Duration::from_secs(5);
        while off < bytes.len() {
            let n = unsafe { libc::write(self.master, bytes[off..].as_ptr() as *const _, bytes.len() - off) };
            if n > 0 {
                off += n as usize;
            } else if Instant::now() > deadline {
                return false;
            } else {
                std::thread::sleep(Duration::from_micros(200));
            }
        }
        true
    }

    pub fn resize(&self, rows: u16, cols: u16) {
        let ws = libc::winsize { ws_row: rows, ws_col: cols, ws_xpixel: cols * 8, ws_ypixel: rows * 16 };
        unsafe {
            libc::ioctl(self.master, libc::TIOCSWINSZ, &ws);
        }
    }

    /// hang up: the application's next read sees end of input
    pub fn close_master(&mut self) {
        if self.master_open {
            unsafe {
                libc::close(self.master);
            }
            self.master_open = false;
        }
    }
}

impl Drop for Pty {
    fn drop(&mut self) {
        self.close_master();
        unsafe {
            libc::close(self.probe);
        }
    }
}

/// How the peer drains the master side
#[derive(Clone, Copy, Debug)]
pub enum Drain {
    Fast,
    /// small reads with pauses
    Slow { max_read: usize, pause_us: u64 },
    /// alternating bursts and pauses
    Bursty { burst: usize, pause_us: u64 },
}

pub struct PeerShared {
    pub received: Mutex<Vec<u8>>,
    pub stop: AtomicBool,
    pub paused: AtomicBool,
    /// set by the peer thread while it honours `paused` (it does not touch the descriptor then)
    pub parked: AtomicBool,
    pub da1_requests: AtomicU64,
    pub answer_da1: AtomicBool,
    pub hung_up: AtomicBool,
    /// cursor position queries (`ESC [ 6 n`) seen; answered with `ESC [ 3 ; 4 R`
    pub cpr_requests: AtomicU64,
    /// bytes "typed" right behind the next DA1 reply: they go out in the same write as the reply
    pub after_da1: Mutex<Vec<u8>>,
    /// the terminal thinks this long before it answers a query
    pub reply_delay_ms: AtomicU64,
}

pub struct Peer {
    pub shared: Arc<PeerShared>,
    handle: Option<JoinHandle<()>>,
}

impl Peer {
    pub fn start(master: RawFd, drain: Drain, seed: u64) -> Peer {
        let shared = Arc::new(PeerShared {
            received: Mutex::new(Vec::new()),
            stop: AtomicBool::new(false),
            paused: AtomicBool::new(false),
            parked: AtomicBool::new(false),
            da1_requests: AtomicU64::new(0),
            answer_da1: AtomicBool::new(true),
            hung_up: AtomicBool::new(false),
            cpr_requests: AtomicU64::new(0),
            after_da1: Mutex::new(Vec::new()),
            reply_delay_ms: AtomicU64::new(0),
        });
        let sh = shared.clone();
        let handle = std::thread::spawn(move || {
            let mut rng = Rng::new(seed ^ 0x9e3779b9);
            let mut buf = vec![0u8; 65536];
            let mut scanned = 0usize;
            let mut in_burst = 0usize;
            loop {
                if sh.stop.load(Ordering::SeqCst) {
                    break;
                }
                if sh.paused.load(Ordering::SeqCst) {
                    sh.parked.store(true, Ordering::SeqCst);
                    std::thread::sleep(Duration::from_micros(300));
                    continue;
                }
                sh.parked.store(false, Ordering::SeqCst);
                let mut pfd = libc::pollfd { fd: master, events: libc::POLLIN, revents: 0 };
                let rc = unsafe { libc::poll(&mut pfd, 1, 10) };
                if rc <= 0 {
                    continue;
                }
                if pfd.revents & libc::POLLIN == 0 {
                    if pfd.revents & (libc::POLLHUP | libc::POLLERR | libc::POLLNVAL) != 0 {
                        // slave side closed (or master closed by the harness)
                        std::thread::sleep(Duration::from_millis(1));
                    }
                    continue;
                }
                let want = match drain {
                    Drain::Fast => buf.len(),
                    Drain::Slow { max_read, .. } => rng.range(1, max_read.max(1)),
                    Drain::Bursty { burst, .. } => rng.range(1, burst.max(1)),
                };
                let n = unsafe { libc::read(master, buf.as_mut_ptr() as *mut _, want.min(buf.len())) };
                if n <= 0 {
                    continue;
                }
                let n = n as usize;
                // replies in the order of the requests, sent with one write
                let mut reply: Vec<u8> = Vec::new();
                {
                    let mut rec = sh.received.lock().unwrap();
                    rec.extend_from_slice(&buf[..n]);
                    // primary device attributes request: ESC [ c ; cursor position request: ESC [ 6 n
                    let start = scanned.saturating_sub(3);
                    let mut i = start;
                    while i < rec.len() {
                        if rec[i..].starts_with(b"\x1b[c") && i + 3 > scanned {
                            sh.da1_requests.fetch_add(1, Ordering::SeqCst);
                            if sh.answer_da1.load(Ordering::SeqCst) {
                                reply.extend_from_slice(b"\x1b[?62;c");
                                reply.append(&mut sh.after_da1.lock().unwrap());
                            }
                            i += 3;
                        } else if rec[i..].starts_with(b"\x1b[6n") && i + 4 > scanned {
                            sh.cpr_requests.fetch_add(1, Ordering::SeqCst);
                            reply.extend_from_slice(b"\x1b[3;4R");
                            i += 4;
                        } else {
                            i += 1;
                        }
                    }
                    scanned = rec.len();
                }
                if !reply.is_empty() {
                    let delay = sh.reply_delay_ms.load(Ordering::SeqCst);
                    if delay > 0 {
                        std::thread::sleep(Duration::from_millis(delay));
                    }
                    unsafe {
                        libc::write(master, reply.as_ptr() as *const _, reply.len());
                    }
                }
                match drain {
                    Drain::Fast => {}
                    Drain::Slow { pause_us, .. } => {
                        if pause_us > 0 {
                            std::thread::sleep(Duration::from_micros(rng.below_u64(pause_us + 1)));
                        }
                    }
                    Drain::Bursty { burst, pause_us } => {
                        in_burst += n;
                        if in_burst >= burst * 8 {
                            in_burst = 0;
                            std::thread::sleep(Duration::from_micros(pause_us));
                        }
                    }
                }
            }
        });
        Peer { shared, handle: Some(handle) }
    }

    pub fn received_len(&self) -> usize {
        self.shared.received.lock().unwrap().len()
    }

    pub fn received(&self) -> Vec<u8> {
        self.shared.received.lock().unwrap().clone()
    }

    /// wait (bounded) until `pred` holds on the received bytes; progress-based patience
    pub fn wait_for(&self, pred: impl Fn(&[u8]) -> bool, idle_limit: Duration) -> bool {
        let mut last_len = self.received_len();
        let mut last_progress = Instant::now();
        loop {
            {
                let rec = self.shared.received.lock().unwrap();
                if pred(&rec) {
                    return true;
                }
            }
            std::thread::sleep(Duration::from_micros(500));
            let len = self.received_len();
            if len != last_len {
                last_len = len;
                last_progress = Instant::now();
            } else if last_progress.elapsed() > idle_limit {
                return false;
            }
        }
    }

    /// make the peer thread stop using the master descriptor and wait until it has
    pub fn park(&self) {
        self.shared.paused.store(true, Ordering::SeqCst);
        let deadline = Instant::now() + Duration::from_secs(2);
        while !self.shared.parked.load(Ordering::SeqCst) && Instant::now() < deadline {
            std::thread::sleep(Duration::from_micros(200));
        }
    }

    pub fn stop(&mut self) {
        self.shared.stop.store(true, Ordering::SeqCst);
        if let Some(h) = self.handle.take() {
            let _ = h.join();
        }
    }
}

impl Drop for Peer {
    fn drop(&mut self) {
        self.stop();
    }
}

pub fn find(hay: &[u8], needle: &[u8], from: usize) -> Option<usize> {
    if needle.is_empty() || hay.len() < needle.len() {
        return None;
    }
    (from..=hay.len() - needle.len()).find(|i| &hay[*i..*i + needle.len()] == needle)
}
