//! `FakeTerm` — a minimal in-memory implementation of `surf_n_term::Terminal` shared by the
//! property monitors. It implements a `surf_n_term` trait, so it lives with the monitors and not
//! in `models/` (models must stay independent of the crate under test).
//!
//! What it does: reports a chosen `TerminalSize` (cells and pixels, so that
//! `pixels_per_cell = pixels / cells` is exactly the requested value) and chosen `TerminalCaps`;
//! records every `execute`d command in `cmds` and every written byte in `written`; `poll` returns
//! the queued events (front first) and then `None`; nothing ever blocks.
//!
//! ```ignore
//! let term = FakeTerm::new(Size::new(24, 80), Size::new(20, 10), caps(ColorDepth::TrueColor, true, false));
//! let ctx = ViewContext::new(&term)?;            // pixels_per_cell = 20x10, has_glyphs = true
//! let ctx = view_ctx(Size::new(5, 4), true);     // shortcut
//! ```
use std::{collections::VecDeque, io::Write, time::Duration};
use surf_n_term::{
    encoder::ColorDepth, view::ViewContext, Error, Position, Size, Terminal, TerminalCaps,
    TerminalCommand, TerminalEvent, TerminalSize, TerminalWaker,
};

pub struct FakeTerm {
    /// size reported by `Terminal::size`
    pub size: TerminalSize,
    /// capabilities reported by `Terminal::capabilities`
    pub caps: TerminalCaps,
    /// commands passed to `execute`, in order
    pub cmds: Vec<TerminalCommand>,
    /// bytes passed to `Write::write`, in order
    pub written: Vec<u8>,
    /// events handed out by `poll`
    pub events: VecDeque<TerminalEvent>,
    /// position reported by `Terminal::position`
    pub cursor: Position,
    /// number of `flush` calls
    pub flushes: usize,
    /// number of `frames_drop` calls
    pub drops: usize,
}

/// Shortcut for `TerminalCaps { depth, glyphs, kitty_keyboard }`
pub fn caps(depth: ColorDepth, glyphs: bool, kitty_keyboard: bool) -> TerminalCaps {
    TerminalCaps {
        depth,
        glyphs,
        kitty_keyboard,
    }
}

impl FakeTerm {
    /// `cells` — terminal size in cells; `pixels_per_cell` — size of one cell in pixels (the pixel
    /// size reported is the exact product, a zero cell extent therefore gives 0 pixels per cell).
    pub fn new(cells: Size, pixels_per_cell: Size, caps: TerminalCaps) -> Self {
        Self {
            size: TerminalSize {
                cells,
                pixels: Size {
                    height: cells.height.saturating_mul(pixels_per_cell.height),
                    width: cells.width.saturating_mul(pixels_per_cell.width),
                },
            },
            caps,
            cmds: Vec::new(),
            written: Vec::new(),
            events: VecDeque::new(),
            cursor: Position::new(0, 0),
            flushes: 0,
            drops: 0,
        }
    }

    /// Forget everything recorded so far
    pub fn clear(&mut self) {
        self.cmds.clear();
        self.written.clear();
        self.flushes = 0;
    }

    /// Queue an event for `poll`
    pub fn push_event(&mut self, event: TerminalEvent) {
        self.events.push_back(event);
    }
}

/// `ViewContext` with the given pixels-per-cell and glyph capability (true colour)
pub fn view_ctx(pixels_per_cell: Size, glyphs: bool) -> ViewContext {
    let term = FakeTerm::new(
        Size::new(24, 80),
        pixels_per_cell,
        caps(ColorDepth::TrueColor, glyphs, false),
    );
    ViewContext::new(&term).expect("FakeTerm::size never fails")
}

impl Write for FakeTerm {
    fn write(&mut self, buf: &[u8]) -> std::io::Result<usize> {
        self.written.extend_from_slice(buf);
        Ok(buf.len())
    }

    fn flush(&mut self) -> std::io::Result<()> {
        self.flushes += 1;
        Ok(())
    }
}

impl Terminal for FakeTerm {
    fn execute(&mut self, cmd: TerminalCommand) -> Result<(), Error> {
        self.cmds.push(cmd);
        Ok(())
    }

    fn waker(&self) -> TerminalWaker {
        TerminalWaker::new(|| Ok(()))
    }

    fn poll(&mut self, _timeout: Option<Duration>) -> Result<Option<TerminalEvent>, Error> {
        Ok(self.events.pop_front())
    }

    fn dyn_ref(&mut self) -> &mut dyn Terminal {
        self
    }

    fn size(&self) -> Result<TerminalSize, Error> {
        Ok(self.size)
    }

    fn position(&mut self) -> Result<Position, Error> {
        Ok(self.cursor)
    }

    fn frames_pending(&self) -> usize {
        0
    }

    fn frames_drop(&mut self) {
        self.drops += 1;
    }

    fn capabilities(&self) -> &TerminalCaps {
        &self.caps
    }
}
