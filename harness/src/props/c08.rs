//! C08 — row/column selectors resolve with Python/NumPy slice semantics
//!
//! A case is one *mathematical* selector (form, bounds as integers, axis length). It is resolved
//! by an independent reference on `i128` and by the real `ViewBounds::view_bounds` through every
//! one of the ten integer types that can represent the bounds; every result must equal the
//! reference (hence each other) and satisfy `0 <= start < end <= n`.
use crate::core::{Ctx, Fail, Prop, Tier};
use crate::ensure;
use crate::rng::{mix, Rng};
use serde::{Deserialize, Serialize};
use std::ops::{Range, RangeFrom, RangeInclusive, RangeTo, RangeToInclusive};
use surf_n_term::surface::ViewBounds;

pub struct C08;

/// the seven selector forms
#[derive(Clone, Copy, Debug, PartialEq, Eq, Hash, Serialize, Deserialize)]
pub enum Form {
    /// `i`
    Index,
    /// `a..b`
    Range,
    /// `a..`
    From,
    /// `..b`
    To,
    /// `a..=b`
    Incl,
    /// `..=b`
    ToIncl,
    /// `..`
    Full,
}

impl Form {
    pub const ALL: [Form; 7] = [
        Form::Index,
        Form::Range,
        Form::From,
        Form::To,
        Form::Incl,
        Form::ToIncl,
        Form::Full,
    ];
    pub fn uses_a(self) -> bool {
        matches!(self, Form::Index | Form::Range | Form::From | Form::Incl)
    }
    pub fn uses_b(self) -> bool {
        matches!(self, Form::Range | Form::To | Form::Incl | Form::ToIncl)
    }
    pub fn render(self, a: i128, b: i128) -> String {
        match self {
            Form::Index => format!("{a}"),
            Form::Range => format!("{a}..{b}"),
            Form::From => format!("{a}.."),
            Form::To => format!("..{b}"),
            Form::Incl => format!("{a}..={b}"),
            Form::ToIncl => format!("..={b}"),
            Form::Full => "..".to_string(),
        }
    }
}

/// i128 <-> decimal string (serde_json `Value` cannot hold the full i64 ∪ u64 range as one type)
mod dec_str {
    use serde::{de::Error, Deserialize, Deserializer, Serializer};
    pub fn serialize<S: Serializer>(v: &i128, s: S) -> Result<S::Ok, S::Error> {
        s.serialize_str(&v.to_string())
    }
    pub fn deserialize<'de, D: Deserializer<'de>>(d: D) -> Result<i128, D::Error> {
        let text = String::deserialize(d)?;
        text.trim().parse::<i128>().map_err(D::Error::custom)
    }
}

#[derive(Clone, Debug, Serialize, Deserialize)]
pub struct Case {
    pub form: Form,
    /// start bound, or the index for `Form::Index` (0 when the form has none)
    #[serde(with = "dec_str")]
    pub a: i128,
    /// end bound (0 when the form has none)
    #[serde(with = "dec_str")]
    pub b: i128,
    /// axis length
    pub n: u64,
    /// integer type to write the selector in, "*" = every type that can represent the bounds
    pub ty: String,
    /// which sub-space the generator took the case from: 0 = sampled, 1 = exhaustive 8-bit
    /// enumeration, 2 = exhaustive 16-bit one-bound enumeration (coverage accounting only)
    #[serde(default)]
    pub sub: u8,
}

// ---------------------------------------------------------------------------
// reference resolver (independent of the code under test)

/// Python/NumPy resolution of a selector against an axis of length `n`.
///
/// * index `i`: selects element `i` (counted from the end when negative) iff `-n <= i < n`
/// * bound `x`: `x < 0` means `x + n`; then clamped to `[0, n]`
/// * inclusive end `b`: one past element `b` (after the from-the-end normalisation), clamped
/// * empty selection (and every selection on an empty axis) is `None`
pub fn ref_resolve(form: Form, a: i128, b: i128, n: u64) -> Option<(u64, u64)> {
    let n = n as i128;
    if n == 0 {
        return None;
    }
    let norm = |x: i128| if x < 0 { x + n } else { x };
    let clamp = |x: i128| x.max(0).min(n);
    let (start, end) = match form {
        Form::Index => {
            if a < -n || a >= n {
                return None;
            }
            let s = norm(a);
            (s, s + 1)
        }
        Form::Range => (clamp(norm(a)), clamp(norm(b))),
        Form::From => (clamp(norm(a)), n),
        Form::To => (0, clamp(norm(b))),
        Form::Incl => (clamp(norm(a)), clamp(norm(b) + 1)),
        Form::ToIncl => (0, clamp(norm(b) + 1)),
        Form::Full => (0, n),
    };
    if start >= end {
        None
    } else {
        debug_assert!(0 <= start && start < end && end <= n);
        Some((start as u64, end as u64))
    }
}

// ---------------------------------------------------------------------------
// driving the real code through every integer type

pub const TYPES: [&str; 10] = [
    "i8", "u8", "i16", "u16", "i32", "u32", "i64", "u64", "isize", "usize",
];

type Res = Option<(usize, usize)>;

/// `None` = bounds not representable in `T`
fn eval<T>(form: Form, a: i128, b: i128, n: usize) -> Option<Res>
where
    T: TryFrom<i128> + ViewBounds,
    Range<T>: ViewBounds,
    RangeFrom<T>: ViewBounds,
    RangeTo<T>: ViewBounds,
    RangeInclusive<T>: ViewBounds,
    RangeToInclusive<T>: ViewBounds,
{
    let conv = |v: i128| T::try_from(v).ok();
    Some(match form {
        Form::Index => conv(a)?.view_bounds(n),
        Form::Range => (conv(a)?..conv(b)?).view_bounds(n),
        Form::From => (conv(a)?..).view_bounds(n),
        Form::To => (..conv(b)?).view_bounds(n),
        Form::Incl => (conv(a)?..=conv(b)?).view_bounds(n),
        Form::ToIncl => (..=conv(b)?).view_bounds(n),
        Form::Full => (..).view_bounds(n),
    })
}

macro_rules! eval_by_name {
    ($name:expr, $form:expr, $a:expr, $b:expr, $n:expr; $($t:ident),+) => {
        match $name {
            $( stringify!($t) => eval::<$t>($form, $a, $b, $n), )+
            _ => None,
        }
    };
}

fn eval_named(ty: &str, form: Form, a: i128, b: i128, n: usize) -> Option<Res> {
    eval_by_name!(ty, form, a, b, n; i8, u8, i16, u16, i32, u32, i64, u64, isize, usize)
}

/// (MIN, MAX) of the named type
macro_rules! limits_by_name {
    ($name:expr; $($t:ident),+) => {
        match $name {
            $( stringify!($t) => ($t::MIN as i128, $t::MAX as i128), )+
            _ => (0, 0),
        }
    };
}

fn limits(ty: &str) -> (i128, i128) {
    limits_by_name!(ty; i8, u8, i16, u16, i32, u32, i64, u64, isize, usize)
}

// ---------------------------------------------------------------------------
// exhaustive sub-spaces (driven by the global case index)

/// axis lengths of the exhaustive 8-bit sub-space
pub const EXH8_NS: [u64; 16] = [
    0, 1, 2, 3, 5, 10, 63, 64, 100, 127, 128, 129, 200, 255, 256, 300,
];
/// all values of i8 ∪ u8
const V8_LO: i128 = -128;
const V8_CNT: u64 = 384;
/// per axis length: 4 one-bound forms, `..`, 2 two-bound forms over all pairs
const EXH8_BLOCK: u64 = 4 * V8_CNT + 1 + 2 * V8_CNT * V8_CNT;
pub const EXH8_TOTAL: u64 = 16 * EXH8_BLOCK;
/// multiplier coprime to EXH8_TOTAL: a short run still touches every block
const EXH8_STRIDE: u64 = 1_000_003;

/// axis lengths of the 16-bit exhaustive one-bound sub-space (thorough only)
pub const EXH16_NS: [u64; 16] = [
    0, 1, 2, 100, 255, 256, 16383, 16384, 32767, 32768, 32769, 40000, 65535, 65536, 65537, 100_000,
];
const V16_LO: i128 = -32768;
const V16_CNT: u64 = 98304;
const EXH16_BLOCK: u64 = 4 * V16_CNT;
pub const EXH16_TOTAL: u64 = 16 * EXH16_BLOCK;
const EXH16_STRIDE: u64 = 1_000_003;

fn exh8_case(k: u64) -> Case {
    let k = ((k as u128 * EXH8_STRIDE as u128) % EXH8_TOTAL as u128) as u64;
    let n = EXH8_NS[(k / EXH8_BLOCK) as usize];
    let mut r = k % EXH8_BLOCK;
    let v = |i: u64| V8_LO + i as i128;
    let (form, a, b) = 'found: {
        for form in [Form::Index, Form::From] {
            if r < V8_CNT {
                break 'found (form, v(r), 0);
            }
            r -= V8_CNT;
        }
        for form in [Form::To, Form::ToIncl] {
            if r < V8_CNT {
                break 'found (form, 0, v(r));
            }
            r -= V8_CNT;
        }
        if r == 0 {
            break 'found (Form::Full, 0, 0);
        }
        r -= 1;
        if r < V8_CNT * V8_CNT {
            break 'found (Form::Range, v(r / V8_CNT), v(r % V8_CNT));
        }
        r -= V8_CNT * V8_CNT;
        (Form::Incl, v(r / V8_CNT), v(r % V8_CNT))
    };
    Case {
        form,
        a,
        b,
        n,
        ty: "*".into(),
        sub: 1,
    }
}

fn exh16_case(k: u64) -> Case {
    let k = ((k as u128 * EXH16_STRIDE as u128) % EXH16_TOTAL as u128) as u64;
    let n = EXH16_NS[(k / EXH16_BLOCK) as usize];
    let r = k % EXH16_BLOCK;
    let value = V16_LO + (r % V16_CNT) as i128;
    let (form, a, b) = match r / V16_CNT {
        0 => (Form::Index, value, 0),
        1 => (Form::From, value, 0),
        2 => (Form::To, 0, value),
        _ => (Form::ToIncl, 0, value),
    };
    Case {
        form,
        a,
        b,
        n,
        ty: "*".into(),
        sub: 2,
    }
}

// ---------------------------------------------------------------------------
// sampled wider space

const LO_ALL: i128 = i64::MIN as i128;
const HI_ALL: i128 = u64::MAX as i128;

fn gen_n(rng: &mut Rng) -> u64 {
    match rng.below(16) {
        0..=3 => *rng.pick(&EXH8_NS),
        4 => *rng.pick(&EXH16_NS),
        5..=6 => rng.below_u64(1001),
        7 => rng.below_u64(21),
        8..=9 => {
            // around the widths of the narrow types
            let k = *rng.pick(&[7u32, 8, 15, 16, 31, 32]);
            ((1i128 << k) + rng.range_i64(-2, 2) as i128) as u64
        }
        10..=12 => {
            let top = 1u64 << rng.range(1, 40);
            rng.below_u64(top) + 1
        }
        13 => (1u64 << 40) - rng.below_u64(4),
        14 => {
            // lengths no real surface has, but the statement says "every axis length"
            match rng.below(4) {
                0 => (1u64 << 62) + rng.below_u64(3),
                1 => (1u64 << 63) - 1 - rng.below_u64(3),
                2 => (1u64 << 63) + rng.below_u64(3),
                _ => u64::MAX - rng.below_u64(3),
            }
        }
        _ => rng.below_u64(1 << 16),
    }
}

fn gen_bound(rng: &mut Rng, n: u64) -> i128 {
    let n = n as i128;
    let d = rng.range_i64(-3, 3) as i128;
    let v = match rng.below(14) {
        // uniform in [-n-3, n+3]
        0..=3 => {
            let span = (2 * n + 7) as u128;
            let r = ((rng.next_u64() as u128) << 64 | rng.next_u64() as u128) % span;
            -n - 3 + r as i128
        }
        // the three interesting neighbourhoods of that interval
        4 => -n + d,
        5 => d,
        6 => n + d,
        7 => n / 2 + d,
        8 => -n / 2 + d,
        // extremes of every integer type
        9..=11 => {
            let (lo, hi) = limits(TYPES[rng.below(TYPES.len())]);
            *rng.pick(&[lo, lo + 1, -1, 0, 1, hi - 1, hi])
        }
        // about twice outside
        12 => {
            if rng.bool() {
                2 * n + d
            } else {
                -2 * n + d
            }
        }
        // any 64-bit pattern, read as signed or unsigned
        _ => {
            let bits = rng.next_u64();
            if rng.bool() {
                bits as i64 as i128
            } else {
                bits as i128
            }
        }
    };
    v.clamp(LO_ALL, HI_ALL)
}

fn gen_random(rng: &mut Rng) -> Case {
    let n = gen_n(rng);
    let form = match rng.below(13) {
        0..=1 => Form::Index,
        2..=4 => Form::Range,
        5..=6 => Form::From,
        7..=8 => Form::To,
        9..=10 => Form::Incl,
        11 => Form::ToIncl,
        _ => {
            if rng.chance(1, 8) {
                Form::Full
            } else {
                Form::ToIncl
            }
        }
    };
    let a = if form.uses_a() { gen_bound(rng, n) } else { 0 };
    let b = if form.uses_b() { gen_bound(rng, n) } else { 0 };
    Case {
        form,
        a,
        b,
        n,
        ty: "*".into(),
        sub: 0,
    }
}

// ---------------------------------------------------------------------------

fn fmt_res(r: Option<(u64, u64)>) -> String {
    match r {
        None => "None".into(),
        Some((s, e)) => format!("Some(({s}, {e}))"),
    }
}

impl Prop for C08 {
    type Case = Case;
    const ID: &'static str = "C08";

    fn default_cases(tier: Tier, flavour: &str) -> u64 {
        match (tier, flavour) {
            (_, "miri") | (_, "miri-sb") => 3_000,
            // even indices walk the exhaustive 8-bit space once, odd indices sample
            (Tier::Quick, _) => 2 * EXH8_TOTAL + 113_632,
            (Tier::Thorough, "asan") | (Tier::Thorough, "valgrind") => 2 * EXH8_TOTAL + 113_632,
            // + exhaustive 16-bit one-bound space, + 2*10^8 sampled selectors
            (Tier::Thorough, _) => 2 * (EXH8_TOTAL + EXH16_TOTAL) + 200_000_000,
        }
    }

    fn gen(rng: &mut Rng, tier: Tier, index: u64) -> Case {
        if index % 2 == 0 {
            let k = index / 2;
            if k < EXH8_TOTAL {
                return exh8_case(k);
            }
            if !tier.quick() && k - EXH8_TOTAL < EXH16_TOTAL {
                return exh16_case(k - EXH8_TOTAL);
            }
        }
        gen_random(rng)
    }

    fn check(case: &Case, ctx: &mut Ctx) -> Result<(), Fail> {
        let (form, a, b) = (case.form, case.a, case.b);
        let a = if form.uses_a() { a } else { 0 };
        let b = if form.uses_b() { b } else { 0 };
        if usize::try_from(case.n).is_err() {
            ctx.nondeciding = true;
            return Ok(());
        }
        let n = case.n as usize;
        let expect = ref_resolve(form, a, b, case.n);

        let mut results: Vec<(&'static str, Option<(u64, u64)>)> = Vec::with_capacity(10);
        for ty in TYPES {
            if case.ty != "*" && case.ty != ty {
                continue;
            }
            let Some(got) = eval_named(ty, form, a, b, n) else {
                continue;
            };
            results.push((ty, got.map(|(s, e)| (s as u64, e as u64))));
            if form == Form::Full {
                // `..` is not written in any integer type
                break;
            }
        }
        if results.is_empty() {
            // bounds not representable in the requested type(s)
            ctx.nondeciding = true;
            ctx.feat("nondeciding.not-representable");
            return Ok(());
        }

        let describe = |results: &[(&'static str, Option<(u64, u64)>)]| -> String {
            results
                .iter()
                .map(|(t, r)| format!("{t}:{}", fmt_res(*r)))
                .collect::<Vec<_>>()
                .join(" ")
        };
        for (ty, got) in results.iter() {
            let ty = if form == Form::Full { "-" } else { ty };
            if let Some((s, e)) = got {
                ensure!(
                    s < e && *e <= case.n,
                    format!("view-bounds:{ty}:{form:?}:invariant"),
                    "({}).view_bounds({}) as {ty} = {} violates 0 <= start < end <= n (reference {}); all types: {}",
                    form.render(a, b),
                    case.n,
                    fmt_res(*got),
                    fmt_res(expect),
                    describe(&results)
                );
            }
            ensure!(
                *got == expect,
                format!("view-bounds:{ty}:{form:?}:wrong"),
                "({}).view_bounds({}) as {ty} = {}, Python/NumPy semantics give {}; all types: {}",
                form.render(a, b),
                case.n,
                fmt_res(*got),
                fmt_res(expect),
                describe(&results)
            );
        }
        // every result equals the reference, hence all types agree with each other

        // ---- coverage ----
        ctx.feat(match form {
            Form::Index => "form.index",
            Form::Range => "form.range",
            Form::From => "form.from",
            Form::To => "form.to",
            Form::Incl => "form.incl",
            Form::ToIncl => "form.to-incl",
            Form::Full => "form.full",
        });
        if case.ty == "*" && case.sub > 0 {
            // per flavour, so that "the whole enumeration ran" can be required of each build
            let name = if case.sub == 1 { "exh8" } else { "exh16" };
            ctx.feat(&format!("{name}.selectors.{}", ctx.flavour));
        }
        ctx.feat_n("types-compared", results.len() as u64);
        ctx.feat_if(results.len() > 1, "cross-type.selectors");
        ctx.feat(if expect.is_some() {
            "result.some"
        } else {
            "result.none"
        });
        let n128 = case.n as i128;
        let used = [(form.uses_a(), a), (form.uses_b(), b)];
        let mut negative = false;
        let mut outside = false;
        let mut far = false;
        let mut wide = false;
        for (is_used, v) in used {
            if !is_used {
                continue;
            }
            negative |= v < 0 && v >= -n128;
            outside |= v < -n128 || v >= n128;
            far |= v < -n128 - 3 || v > n128 + 3;
            wide |= v < i32::MIN as i128 || v > i32::MAX as i128;
        }
        ctx.feat_if(negative, "bound.from-the-end");
        ctx.feat_if(outside, "bound.outside[-n,n)");
        ctx.feat_if(far, "bound.far-outside");
        ctx.feat_if(wide, "bound.beyond-32-bit");
        ctx.feat_if(case.n == 0, "n.zero");
        ctx.feat_if(case.n > 127, "n.gt-i8-max");
        ctx.feat_if(case.n > 32767, "n.gt-i16-max");
        ctx.feat_if(case.n > i32::MAX as u64, "n.gt-i32-max");
        ctx.feat_if(case.n > i64::MAX as u64, "n.gt-i64-max");
        Ok(())
    }

    fn nontrivial(case: &Case) -> bool {
        case.n > 0 && case.form != Form::Full
    }

    fn case_hash(case: &Case) -> u64 {
        let mut h = mix(case.form as u64 ^ 0xc08);
        h = mix(h ^ case.a as u64);
        h = mix(h ^ (case.a >> 64) as u64);
        h = mix(h ^ case.b as u64);
        h = mix(h ^ (case.b >> 64) as u64);
        h = mix(h ^ case.n);
        for byte in case.ty.bytes() {
            h = mix(h ^ byte as u64);
        }
        h
    }

    fn shrink(case: &Case) -> Vec<Case> {
        let mut out = Vec::new();
        if case.ty == "*" {
            for ty in TYPES {
                out.push(Case {
                    ty: ty.to_string(),
                    ..case.clone()
                });
            }
            return out;
        }
        let smaller = |v: i128| -> Vec<i128> {
            let mut c = vec![0, v / 2];
            if v > 0 {
                c.push(v - 1);
            } else if v < 0 {
                c.push(v + 1);
            }
            c.retain(|x| *x != v);
            c
        };
        for n in [0, 1, 2, 10, case.n / 2, case.n.saturating_sub(1)] {
            if n < case.n {
                out.push(Case { n, ..case.clone() });
            }
        }
        if case.form.uses_a() {
            for a in smaller(case.a) {
                out.push(Case { a, ..case.clone() });
            }
        }
        if case.form.uses_b() {
            for b in smaller(case.b) {
                out.push(Case { b, ..case.clone() });
            }
        }
        out
    }

    fn finish(ctx: &mut Ctx) -> Option<String> {
        ctx.extra.insert(
            "exhaustive_8bit_space".into(),
            serde_json::json!({
                "selectors": EXH8_TOTAL,
                "axis_lengths": EXH8_NS,
                "bounds": "all of i8 ∪ u8 = [-128, 255]; all values for i, a.., ..b, ..=b and all pairs for a..b, a..=b",
                "covered_when": "the shards' even case indices together reach 2*selectors (default case counts do)",
            }),
        );
        None
    }

    fn rule() -> &'static str {
        "case = (selector form, bounds as mathematical integers, axis length n), resolved through every integer type that can represent the bounds; even case indices enumerate the 8-bit space exhaustively (all of [-128,255], all pairs, 16 axis lengths; thorough: + all 16-bit one-bound selectors), odd indices sample bounds in [-n-3,n+3] ∪ type extremes with n up to 2^40 (rarely up to 2^64-1); non-trivial = n > 0 and not `..`; distinct = hash of (form, a, b, n, type)"
    }

    fn sample(case: &Case) -> serde_json::Value {
        serde_json::json!({
            "selector": case.form.render(case.a, case.b),
            "n": case.n,
            "ty": case.ty,
            "reference": fmt_res(ref_resolve(case.form, case.a, case.b, case.n)),
        })
    }
}

#[cfg(test)]
mod tests {
    use super::*;

    /// the literal expectations of the repository's own `test_view_bounds`, and Python spot checks
    #[test]
    fn reference_matches_pinned_examples() {
        use Form::*;
        assert_eq!(ref_resolve(Full, 0, 0, 10), Some((0, 10)));
        assert_eq!(ref_resolve(To, 0, -1, 10), Some((0, 9)));
        assert_eq!(ref_resolve(ToIncl, 0, -1, 10), Some((0, 10)));
        assert_eq!(ref_resolve(Range, -5, 8, 10), Some((5, 8)));
        assert_eq!(ref_resolve(From, -10, 0, 10), Some((0, 10)));
        assert_eq!(ref_resolve(To, 0, 20, 10), Some((0, 10)));
        assert_eq!(ref_resolve(Range, 10, 20, 10), None);
        assert_eq!(ref_resolve(Range, 9, 20, 10), Some((9, 10)));
        assert_eq!(ref_resolve(From, 10, 0, 10), None);
        assert_eq!(ref_resolve(Index, 1, 0, 10), Some((1, 2)));
        assert_eq!(ref_resolve(Index, -1, 0, 10), Some((9, 10)));
        assert_eq!(ref_resolve(Index, -10, 0, 10), Some((0, 1)));
        assert_eq!(ref_resolve(Index, -11, 0, 10), None);
        assert_eq!(ref_resolve(Index, 10, 0, 10), None);
        assert_eq!(ref_resolve(Index, 10, 0, 0), None);
        // list(range(10))[-12:3] == [0,1,2]; [3:-12] == []; [-3:] == [7,8,9]
        assert_eq!(ref_resolve(Range, -12, 3, 10), Some((0, 3)));
        assert_eq!(ref_resolve(Range, 3, -12, 10), None);
        assert_eq!(ref_resolve(From, -3, 0, 10), Some((7, 10)));
        // a..=b is a..b+1 except that b = -1 reaches the end
        assert_eq!(ref_resolve(Incl, 2, 4, 10), Some((2, 5)));
        assert_eq!(ref_resolve(ToIncl, 0, -11, 10), None);
        assert_eq!(ref_resolve(ToIncl, 0, -10, 10), Some((0, 1)));
        assert_eq!(ref_resolve(ToIncl, 0, 99, 10), Some((0, 10)));
    }

    #[test]
    fn exhaustive_enumeration_is_a_bijection_on_a_block() {
        use std::collections::HashSet;
        let mut seen = HashSet::new();
        for k in 0..EXH8_TOTAL {
            let c = exh8_case(k);
            assert!(seen.insert((c.form, c.a, c.b, c.n)));
        }
        assert_eq!(seen.len() as u64, EXH8_TOTAL);
    }
}
