//! C04 — every well-formed terminal report or key sequence decodes to what it encodes
//!
//! An independent protocol printer (abstract event -> bytes, written from the xterm ctlseqs /
//! fixterms / kitty documents and the library's documented naming table) produces the input;
//! the decoder must return exactly the abstract events, also for concatenations.
use super::dec_common::*;
use crate::core::{shrink_vec, Ctx, Fail, Prop, Tier};
use crate::models::palette::xterm256;
use crate::rng::Rng;
use crate::fail;
use serde::{Deserialize, Serialize};
use std::collections::{BTreeMap, BTreeSet};
use surf_n_term::{
    terminal::Mouse, DecMode, DecModeStatus, Face, FaceAttrs, FaceModify, Key, KeyMod, KeyName, Position, Size,
    TerminalColor, TerminalCommand, TerminalEvent, TerminalSize, UnderlineStyle, RGBA,
};

pub struct C04;

#[derive(Clone, Debug, PartialEq, Eq, Hash, Serialize, Deserialize)]
pub enum KName {
    Char(u32),
    Named(String),
    F(usize),
}

/// What a face-modification record says, in harness terms
#[derive(Clone, Debug, Default, PartialEq, Eq, Hash, Serialize, Deserialize)]
pub struct FmSpec {
    pub reset: bool,
    pub fg: Option<[u8; 3]>,
    pub bg: Option<[u8; 3]>,
    /// 0 none, 1 straight, 2 double, 3 curly, 4 dotted, 5 dashed
    pub underline: Option<u8>,
    pub ucolor: Option<[u8; 3]>,
    pub bold: Option<bool>,
    pub italic: Option<bool>,
    pub blink: Option<bool>,
    pub strike: Option<bool>,
}

#[derive(Clone, Debug, PartialEq, Eq, Hash, Serialize, Deserialize)]
pub enum Ev {
    Key { name: KName, mods: u32 },
    Mouse { name: String, mods: u32, row: usize, col: usize },
    Cpr { row: usize, col: usize },
    Size { ch: usize, cw: usize, ph: usize, pw: usize },
    DecMode { mode: usize, status: usize },
    Da1(Vec<usize>),
    /// kind: 0 foreground, 1 background, 2 palette(idx)
    Color { kind: u8, idx: usize, rgb: [u8; 3] },
    Termcap(Vec<(String, Option<String>)>),
    FaceGet(FmSpec),
    Kitty { id: u64, placement: Option<u64>, error: Option<String> },
    Paste(String),
    KbdLevel(usize),
    Sgr(FmSpec),
}

#[derive(Clone, Debug, PartialEq, Eq, Hash, Serialize, Deserialize)]
pub struct Item {
    pub enc: Vec<u8>,
    pub ev: Ev,
}

#[derive(Clone, Debug, Hash, Serialize, Deserialize)]
pub struct Case {
    pub items: Vec<Item>,
    pub cuts: Vec<usize>,
}

// ---------------------------------------------------------------------------
// abstract -> library types (trivial mapping)

fn key_name(name: &KName) -> Option<KeyName> {
    Some(match name {
        KName::Char(c) => KeyName::Char(char::from_u32(*c)?),
        KName::F(n) => KeyName::F(*n),
        KName::Named(n) => match n.as_str() {
            "up" => KeyName::Up,
            "down" => KeyName::Down,
            "right" => KeyName::Right,
            "left" => KeyName::Left,
            "end" => KeyName::End,
            "home" => KeyName::Home,
            "insert" => KeyName::Insert,
            "delete" => KeyName::Delete,
            "pageup" => KeyName::PageUp,
            "pagedown" => KeyName::PageDown,
            "esc" => KeyName::Esc,
            "enter" => KeyName::Enter,
            "tab" => KeyName::Tab,
            "backspace" => KeyName::Backspace,
            "mouseleft" => KeyName::MouseLeft,
            "mousemiddle" => KeyName::MouseMiddle,
            "mouseright" => KeyName::MouseRight,
            "mousemove" => KeyName::MouseMove,
            "mousewheelup" => KeyName::MouseWheelUp,
            "mousewheeldown" => KeyName::MouseWheelDown,
            _ => return None,
        },
    })
}

fn rgb(c: [u8; 3]) -> RGBA {
    RGBA::new(c[0], c[1], c[2], 255)
}

pub fn face_modify(s: &FmSpec) -> FaceModify {
    FaceModify {
        reset: s.reset,
        fg: s.fg.map(rgb),
        bg: s.bg.map(rgb),
        underline: s.underline.map(underline_style),
        underline_color: s.ucolor.map(rgb),
        bold: s.bold,
        italic: s.italic,
        blink: s.blink,
        strike: s.strike,
    }
}

pub fn fm_spec(m: &FaceModify) -> FmSpec {
    use surf_n_term::Color;
    let c = |c: Option<RGBA>| {
        c.map(|c| {
            let [r, g, b, _] = c.to_rgba();
            [r, g, b]
        })
    };
    FmSpec {
        reset: m.reset,
        fg: c(m.fg),
        bg: c(m.bg),
        underline: m.underline.map(|u| match u {
            UnderlineStyle::None => 0,
            UnderlineStyle::Straight => 1,
            UnderlineStyle::Double => 2,
            UnderlineStyle::Curly => 3,
            UnderlineStyle::Dotted => 4,
            UnderlineStyle::Dashed => 5,
        }),
        ucolor: c(m.underline_color),
        bold: m.bold,
        italic: m.italic,
        blink: m.blink,
        strike: m.strike,
    }
}

pub fn underline_style(n: u8) -> UnderlineStyle {
    match n {
        1 => UnderlineStyle::Straight,
        2 => UnderlineStyle::Double,
        3 => UnderlineStyle::Curly,
        4 => UnderlineStyle::Dotted,
        5 => UnderlineStyle::Dashed,
        _ => UnderlineStyle::None,
    }
}

/// Reference face state (harness rule for applying a modification record)
#[derive(Clone, Debug, Default, PartialEq, Eq, Hash, Serialize, Deserialize)]
pub struct FaceSpec {
    pub fg: Option<[u8; 3]>,
    pub bg: Option<[u8; 3]>,
    pub underline: u8,
    pub bold: bool,
    pub italic: bool,
    pub blink: bool,
    pub reverse: bool,
    pub strike: bool,
}

impl FaceSpec {
    pub fn apply(&self, m: &FmSpec) -> FaceSpec {
        let mut f = if m.reset { FaceSpec::default() } else { self.clone() };
        if let Some(c) = m.fg {
            f.fg = Some(c);
        }
        if let Some(c) = m.bg {
            f.bg = Some(c);
        }
        if let Some(u) = m.underline {
            f.underline = u;
        }
        if let Some(b) = m.bold {
            f.bold = b;
        }
        if let Some(b) = m.italic {
            f.italic = b;
        }
        if let Some(b) = m.blink {
            f.blink = b;
        }
        if let Some(b) = m.strike {
            f.strike = b;
        }
        f
    }

    pub fn to_face(&self) -> Face {
        let mut attrs = match self.underline {
            1 => FaceAttrs::UNDERLINE,
            2 => FaceAttrs::UNDERLINE_DOUBLE,
            3 => FaceAttrs::UNDERLINE_CURLY,
            4 => FaceAttrs::UNDERLINE_DOTTED,
            5 => FaceAttrs::UNDERLINE_DASHED,
            _ => FaceAttrs::EMPTY,
        };
        for (on, flag) in [
            (self.bold, FaceAttrs::BOLD),
            (self.italic, FaceAttrs::ITALIC),
            (self.blink, FaceAttrs::BLINK),
            (self.reverse, FaceAttrs::REVERSE),
            (self.strike, FaceAttrs::STRIKE),
        ] {
            if on {
                attrs = attrs | flag;
            }
        }
        Face::new(self.fg.map(rgb), self.bg.map(rgb), attrs)
    }

    pub fn from_face(face: &Face) -> FaceSpec {
        use surf_n_term::Color;
        let c = |c: Option<RGBA>| {
            c.map(|c| {
                let [r, g, b, _] = c.to_rgba();
                [r, g, b]
            })
        };
        FaceSpec {
            fg: c(face.fg),
            bg: c(face.bg),
            underline: match face.attrs.underline() {
                UnderlineStyle::None => 0,
                UnderlineStyle::Straight => 1,
                UnderlineStyle::Double => 2,
                UnderlineStyle::Curly => 3,
                UnderlineStyle::Dotted => 4,
                UnderlineStyle::Dashed => 5,
            },
            bold: face.attrs.contains(FaceAttrs::BOLD),
            italic: face.attrs.contains(FaceAttrs::ITALIC),
            blink: face.attrs.contains(FaceAttrs::BLINK),
            reverse: face.attrs.contains(FaceAttrs::REVERSE),
            strike: face.attrs.contains(FaceAttrs::STRIKE),
        }
    }
}

fn dec_mode(code: usize) -> Option<DecMode> {
    Some(match code {
        25 => DecMode::VisibleCursor,
        7 => DecMode::AutoWrap,
        80 => DecMode::SixelScrolling,
        1000 => DecMode::MouseReport,
        1003 => DecMode::MouseMotions,
        1006 => DecMode::MouseSGR,
        1049 => DecMode::AltScreen,
        2026 => DecMode::SynchronizedOutput,
        2004 => DecMode::BracketedPaste,
        _ => return None,
    })
}

fn dec_status(code: usize) -> Option<DecModeStatus> {
    Some(match code {
        0 => DecModeStatus::NotRecognized,
        1 => DecModeStatus::Enabled,
        2 => DecModeStatus::Disabled,
        3 => DecModeStatus::PermanentlyEnabled,
        4 => DecModeStatus::PermanentlyDisabled,
        _ => return None,
    })
}

/// modifier set from its bits, put together from the named constants (not through
/// `KeyMod::from_bits`, whose mask is part of what is being checked)
fn key_mods(bits: u32) -> KeyMod {
    let named = [
        (1, KeyMod::SHIFT),
        (2, KeyMod::ALT),
        (4, KeyMod::CTRL),
        (8, KeyMod::SUPER),
        (16, KeyMod::HYPER),
        (32, KeyMod::META),
        (64, KeyMod::CAPSLOCK),
        (128, KeyMod::NUMLOCK),
        (256, KeyMod::PRESS),
    ];
    let mut mods = KeyMod::EMPTY;
    for (bit, flag) in named {
        if bits & bit != 0 {
            mods = mods | flag;
        }
    }
    mods
}

pub fn to_event(ev: &Ev) -> Option<TerminalEvent> {
    Some(match ev {
        Ev::Key { name, mods } => TerminalEvent::Key(Key::new(key_name(name)?, key_mods(*mods))),
        Ev::Mouse { name, mods, row, col } => TerminalEvent::Mouse(Mouse {
            name: key_name(&KName::Named(name.clone()))?,
            mode: key_mods(*mods),
            pos: Position::new(*row, *col),
        }),
        Ev::Cpr { row, col } => TerminalEvent::CursorPosition(Position::new(*row, *col)),
        Ev::Size { ch, cw, ph, pw } => TerminalEvent::Size(TerminalSize {
            cells: Size::new(*ch, *cw),
            pixels: Size::new(*ph, *pw),
        }),
        Ev::DecMode { mode, status } => TerminalEvent::DecMode {
            mode: dec_mode(*mode)?,
            status: dec_status(*status)?,
        },
        Ev::Da1(attrs) => TerminalEvent::DeviceAttrs(attrs.iter().copied().collect::<BTreeSet<_>>()),
        Ev::Color { kind, idx, rgb: c } => TerminalEvent::Color {
            name: match kind {
                0 => TerminalColor::Foreground,
                1 => TerminalColor::Background,
                _ => TerminalColor::Palette(*idx),
            },
            color: rgb(*c),
        },
        Ev::Termcap(items) => {
            TerminalEvent::Termcap(items.iter().cloned().collect::<BTreeMap<String, Option<String>>>())
        }
        Ev::FaceGet(m) => TerminalEvent::FaceGet(FaceSpec::default().apply(m).to_face()),
        Ev::Kitty { id, placement, error } => TerminalEvent::KittyImage {
            id: *id,
            placement: *placement,
            error: error.clone(),
        },
        Ev::Paste(text) => TerminalEvent::Paste(text.clone()),
        Ev::KbdLevel(n) => TerminalEvent::KeyboardLevel(*n),
        Ev::Sgr(m) => TerminalEvent::Command(TerminalCommand::FaceModify(face_modify(m))),
    })
}

// ---------------------------------------------------------------------------
// the protocol printer

/// modifier parameter of xterm/fixterms/kitty: 1 + bit mask (shift 1, alt 2, ctrl 4, super 8, hyper 16,
/// meta 32, caps lock 64, num lock 128)
fn mod_param(mask: u32) -> u32 {
    1 + mask
}

/// `CSI n ~` keys (fixterms / rxvt / xterm function key table)
const TILDE_KEYS: &[(&str, usize, u32)] = &[
    ("home", 0, 1),
    ("insert", 0, 2),
    ("delete", 0, 3),
    ("end", 0, 4),
    ("pageup", 0, 5),
    ("pagedown", 0, 6),
    ("home", 0, 7),
    ("end", 0, 8),
    ("", 1, 11),
    ("", 2, 12),
    ("", 3, 13),
    ("", 4, 14),
    ("", 5, 15),
    ("", 6, 17),
    ("", 7, 18),
    ("", 8, 19),
    ("", 9, 20),
    ("", 10, 21),
    ("", 11, 23),
    ("", 12, 24),
];

/// `CSI <final>` / `SS3 <final>` keys
const LETTER_KEYS: &[(&str, usize, u8)] = &[
    ("up", 0, b'A'),
    ("down", 0, b'B'),
    ("right", 0, b'C'),
    ("left", 0, b'D'),
    ("end", 0, b'F'),
    ("home", 0, b'H'),
    ("", 1, b'P'),
    ("", 2, b'Q'),
    ("", 3, b'R'),
    ("", 4, b'S'),
];

fn named(name: &str, f: usize) -> KName {
    if name.is_empty() {
        KName::F(f)
    } else {
        KName::Named(name.to_string())
    }
}

/// SGR mouse button naming (library table; xterm button codes)
fn mouse_name(b: u32) -> &'static str {
    let button = b & 3;
    if b & 64 != 0 {
        match button {
            0 => "mousewheeldown",
            1 => "mousewheelup",
            _ => "mousemove",
        }
    } else {
        match button {
            0 => "mouseleft",
            1 => "mousemiddle",
            2 => "mouseright",
            _ => "mousemove",
        }
    }
}

fn coord(rng: &mut Rng) -> usize {
    match rng.below(6) {
        0 => 1,
        1 => 2,
        2 => 65535,
        3 => rng.range(1, 300),
        4 => rng.range(255, 257),
        _ => rng.range(1, 65535),
    }
}

fn any_scalar(rng: &mut Rng) -> u32 {
    loop {
        let v = match rng.below(8) {
            0 => rng.range(0x20, 0x7e),
            1 => rng.range(0x80, 0x7ff),
            2 => rng.range(0x800, 0xffff),
            3 => rng.range(0x10000, 0x10ffff),
            4 => *rng.pick(&[0x7f_usize, 0x80, 0x7ff, 0x800, 0xd7ff, 0xe000, 0xfffd, 0xffff, 0x10000, 0x10ffff]),
            _ => rng.range(0xa0, 0x2fff),
        } as u32;
        if char::from_u32(v).is_some() {
            return v;
        }
    }
}

fn hex_name(s: &str, rng: &mut Rng) -> String {
    let upper = rng.bool();
    s.bytes()
        .map(|b| if upper { format!("{b:02X}") } else { format!("{b:02x}") })
        .collect()
}

fn color8(rng: &mut Rng) -> u8 {
    if rng.bool() {
        *rng.pick(&[0u8, 1, 2, 127, 128, 254, 255, 17, 0x5f, 0xaf])
    } else {
        rng.next_u8()
    }
}

/// X11 `rgb:` component with `digits` hex digits that scales to the 8-bit value `v` and back
fn xcomponent(v8: u8, digits: usize, rng: &mut Rng) -> (String, u8) {
    match digits {
        1 => {
            let d = (v8 >> 4) as u32;
            (format!("{d:x}"), (d * 17) as u8)
        }
        2 => (format!("{v8:02x}"), v8),
        3 => {
            let v = ((v8 as u32) << 4) | rng.below(16) as u32;
            // XParseColor scales an n-digit value to 16 bits; the 8-bit colour is its high byte
            let scaled = v * 65535 / 4095;
            (format!("{v:03x}"), (scaled >> 8) as u8)
        }
        _ => {
            let v = ((v8 as u32) << 8) | rng.below(256) as u32;
            (format!("{v:04x}"), (v >> 8) as u8)
        }
    }
}

/// Random SGR parameter list and the face modification it denotes (library record semantics:
/// later parameters override earlier ones, 0 clears what the same sequence set before)
pub fn gen_sgr(rng: &mut Rng, max_params: usize) -> (String, FmSpec) {
    let mut m = FmSpec::default();
    let mut parts: Vec<String> = Vec::new();
    let n = rng.range(1, max_params.max(1));
    for _ in 0..n {
        match rng.below(20) {
            0 => {
                m = FmSpec { reset: true, ..FmSpec::default() };
                parts.push(rng.pick_str(&["0", "", "00"]).to_string());
            }
            1 => {
                m.bold = Some(true);
                parts.push("1".into())
            }
            2 => {
                m.bold = Some(false);
                parts.push("22".into())
            }
            3 => {
                m.italic = Some(true);
                parts.push("3".into())
            }
            4 => {
                m.italic = Some(false);
                parts.push("23".into())
            }
            5 => {
                m.underline = Some(1);
                parts.push("4".into())
            }
            6 => {
                let s = rng.range(0, 5) as u8;
                m.underline = Some(s);
                parts.push(format!("4:{s}"))
            }
            7 => {
                m.underline = Some(0);
                parts.push("24".into())
            }
            8 => {
                m.blink = Some(true);
                parts.push("5".into())
            }
            9 => {
                m.blink = Some(false);
                parts.push("25".into())
            }
            10 => {
                m.strike = Some(true);
                parts.push("9".into())
            }
            11 => {
                m.strike = Some(false);
                parts.push("29".into())
            }
            12 => {
                let i = rng.below(8);
                m.fg = Some(xterm256(i));
                parts.push(format!("{}", 30 + i))
            }
            13 => {
                let i = rng.below(8);
                m.fg = Some(xterm256(8 + i));
                parts.push(format!("{}", 90 + i))
            }
            14 => {
                let i = rng.below(8);
                m.bg = Some(xterm256(i));
                parts.push(format!("{}", 40 + i))
            }
            15 => {
                let i = rng.below(8);
                m.bg = Some(xterm256(8 + i));
                parts.push(format!("{}", 100 + i))
            }
            16 | 17 => {
                // indexed colour
                let role = *rng.pick(&[38u32, 48, 58]);
                let i = match rng.below(4) {
                    0 => rng.below(16),
                    1 => *rng.pick(&[16usize, 231, 232, 255]),
                    _ => rng.below(256),
                };
                let c = xterm256(i);
                match role {
                    38 => m.fg = Some(c),
                    48 => m.bg = Some(c),
                    _ => m.ucolor = Some(c),
                }
                if rng.bool() {
                    parts.push(format!("{role};5;{i}"))
                } else {
                    parts.push(format!("{role}:5:{i}"))
                }
            }
            _ => {
                let role = *rng.pick(&[38u32, 48, 58]);
                let c = [color8(rng), color8(rng), color8(rng)];
                match role {
                    38 => m.fg = Some(c),
                    48 => m.bg = Some(c),
                    _ => m.ucolor = Some(c),
                }
                match rng.below(4) {
                    0 | 1 => parts.push(format!("{role};2;{};{};{}", c[0], c[1], c[2])),
                    2 => parts.push(format!("{role}:2:{}:{}:{}", c[0], c[1], c[2])),
                    _ => parts.push(format!("{role}:2::{}:{}:{}", c[0], c[1], c[2])),
                }
            }
        }
    }
    (parts.join(";"), m)
}

fn gen_text(rng: &mut Rng, max: usize) -> String {
    let n = rng.range(0, max);
    (0..n)
        .map(|_| loop {
            let c = char::from_u32(any_scalar(rng)).unwrap();
            if c != '\x1b' {
                return c;
            }
        })
        .collect()
}

/// One self-delimiting encoding together with the event it denotes
pub fn gen_item(rng: &mut Rng, index: u64) -> Item {
    let family = if index % 3 == 0 { (index / 3 % 20) as usize } else { rng.below(20) };
    let (enc, ev): (String, Ev) = match family {
        // ---- literal keys
        0 => {
            let (name, f, code) = TILDE_KEYS[rng.below(TILDE_KEYS.len())];
            let mask = if rng.bool() { 0 } else { rng.range(1, 7) as u32 };
            let enc = if mask == 0 {
                format!("\x1b[{code}~")
            } else {
                format!("\x1b[{code};{}~", mod_param(mask))
            };
            (enc, Ev::Key { name: named(name, f), mods: mask })
        }
        1 => {
            let (name, f, fin) = LETTER_KEYS[rng.below(LETTER_KEYS.len())];
            let mask = if rng.bool() { 0 } else { rng.range(1, 7) as u32 };
            let fin = fin as char;
            let enc = if mask != 0 {
                format!("\x1b[1;{}{fin}", mod_param(mask))
            } else if f > 0 {
                // F1..F4: SS3 form, or CSI form
                if rng.bool() {
                    format!("\x1bO{fin}")
                } else {
                    format!("\x1b[{fin}")
                }
            } else {
                format!("\x1b[{fin}")
            };
            (enc, Ev::Key { name: named(name, f), mods: mask })
        }
        2 => {
            // ESC-prefixed alt keys (never alt+[ O ] P _ which introduce sequences)
            loop {
                let b = rng.range(0x21, 0x7e) as u8;
                if matches!(b, b'[' | b'O' | b']' | b'P' | b'_') {
                    continue;
                }
                let c = b as char;
                let ev = if c.is_ascii_uppercase() {
                    Ev::Key { name: KName::Char(c.to_ascii_lowercase() as u32), mods: 2 | 1 }
                } else {
                    Ev::Key { name: KName::Char(c as u32), mods: 2 }
                };
                break (format!("\x1b{c}"), ev);
            }
        }
        3 => {
            // C0 control keys
            match rng.below(8) {
                0 => ("\x7f".to_string(), Ev::Key { name: KName::Named("backspace".into()), mods: 0 }),
                1 => ("\x00".to_string(), Ev::Key { name: KName::Char(' ' as u32), mods: 4 }),
                _ => {
                    let letter = rng.range(b'a' as usize, b'z' as usize) as u8;
                    (
                        ((letter & 0x1f) as char).to_string(),
                        Ev::Key { name: KName::Char(letter as u32), mods: 4 },
                    )
                }
            }
        }
        // ---- kitty keyboard protocol
        4 | 5 => {
            let mask = match rng.below(4) {
                0 => 0,
                1 => rng.below(8) as u32,
                _ => rng.below(256) as u32,
            };
            let (code, name) = match rng.below(8) {
                0 => (27, KName::Named("esc".into())),
                1 => (13, KName::Named("enter".into())),
                2 => (9, KName::Named("tab".into())),
                3 => (127, KName::Named("backspace".into())),
                4 => {
                    let f = rng.range(13, 35);
                    ((57376 + f - 13) as u32, KName::F(f))
                }
                _ => loop {
                    let c = any_scalar(rng);
                    if !(57344..=63743).contains(&c) && !matches!(c, 27 | 13 | 9 | 127) {
                        break (c, KName::Char(c));
                    }
                },
            };
            // alternate key codes (shifted / base layout) may follow the key code
            let alt = match rng.below(5) {
                0 => format!(":{}", rng.range(65, 90)),
                1 => format!(":{}:{}", rng.range(65, 90), rng.range(97, 122)),
                2 => format!("::{}", rng.range(97, 122)),
                _ => String::new(),
            };
            let enc = if mask == 0 && alt.is_empty() && rng.bool() {
                format!("\x1b[{code}u")
            } else {
                format!("\x1b[{code}{alt};{}u", mod_param(mask))
            };
            (enc, Ev::Key { name, mods: mask })
        }
        6 => {
            let n = match rng.below(3) {
                0 => rng.below(32),
                1 => 0,
                _ => rng.below(100000),
            };
            (format!("\x1b[?{n}u"), Ev::KbdLevel(n))
        }
        // ---- SGR mouse
        7 | 8 => {
            let b = if index % 2 == 0 { (index / 2 % 128) as u32 } else { rng.below(128) as u32 };
            let (x, y) = (coord(rng), coord(rng));
            let press = rng.bool();
            let mods = ((b >> 2) & 7) | if press { 256 } else { 0 };
            (
                format!("\x1b[<{b};{x};{y}{}", if press { 'M' } else { 'm' }),
                Ev::Mouse { name: mouse_name(b).to_string(), mods, row: y - 1, col: x - 1 },
            )
        }
        // ---- reports
        9 => loop {
            let (r, c) = (coord(rng), coord(rng));
            // CSI 1;nR with n in 2..=8 is modified F3 (resolved in favour of the key)
            if r == 1 && (2..=8).contains(&c) {
                continue;
            }
            break (format!("\x1b[{r};{c}R"), Ev::Cpr { row: r - 1, col: c - 1 });
        },
        10 => {
            let (ch, cw, ph, pw) = (coord(rng), coord(rng), rng.below(70000), rng.below(70000));
            (
                format!("\x1b[8;{ch};{cw}t\x1b[4;{ph};{pw}t"),
                Ev::Size { ch, cw, ph, pw },
            )
        }
        11 => {
            let mode = *rng.pick(&[25usize, 7, 80, 1000, 1003, 1006, 1049, 2026, 2004]);
            let status = rng.below(5);
            (format!("\x1b[?{mode};{status}$y"), Ev::DecMode { mode, status })
        }
        12 => {
            let attrs: Vec<usize> = (0..rng.range(1, 8))
                .map(|_| match rng.below(3) {
                    0 => *rng.pick(&[1usize, 4, 6, 22, 62, 63, 64, 65]),
                    _ => rng.range(1, 9999),
                })
                .collect();
            let body: Vec<String> = attrs.iter().map(|a| a.to_string()).collect();
            let trailing = if rng.chance(1, 4) { ";" } else { "" };
            (format!("\x1b[?{}{trailing}c", body.join(";")), Ev::Da1(attrs))
        }
        13 => {
            let c8 = [color8(rng), color8(rng), color8(rng)];
            let (spec, got) = if rng.chance(1, 3) {
                (format!("#{:02x}{:02x}{:02x}", c8[0], c8[1], c8[2]), c8)
            } else {
                let digits = rng.range(1, 4);
                let (r, rv) = xcomponent(c8[0], digits, rng);
                let (g, gv) = xcomponent(c8[1], digits, rng);
                let (b, bv) = xcomponent(c8[2], digits, rng);
                (format!("rgb:{r}/{g}/{b}"), [rv, gv, bv])
            };
            let st = if rng.bool() { "\x1b\\" } else { "\x07" };
            match rng.below(3) {
                0 => (format!("\x1b]10;{spec}{st}"), Ev::Color { kind: 0, idx: 0, rgb: got }),
                1 => (format!("\x1b]11;{spec}{st}"), Ev::Color { kind: 1, idx: 0, rgb: got }),
                _ => {
                    let idx = rng.below(256);
                    (format!("\x1b]4;{idx};{spec}{st}"), Ev::Color { kind: 2, idx, rgb: got })
                }
            }
        }
        14 => {
            let caps = ["bel", "bold", "smcup", "Tc", "colors", "RGB", "kf12", "u7"];
            let n = rng.range(1, 3);
            let mut names: Vec<&str> = Vec::new();
            while names.len() < n {
                let c = *rng.pick(&caps);
                if !names.contains(&c) {
                    names.push(c);
                }
            }
            if rng.bool() {
                let items: Vec<(String, Option<String>)> = names
                    .iter()
                    .map(|n| {
                        let value: String = (0..rng.range(1, 6))
                            .map(|_| rng.range(0x20, 0x7e) as u8 as char)
                            .collect();
                        (n.to_string(), Some(value))
                    })
                    .collect();
                let body: Vec<String> = items
                    .iter()
                    .map(|(k, v)| format!("{}={}", hex_name(k, rng), hex_name(v.as_ref().unwrap(), rng)))
                    .collect();
                (format!("\x1bP1+r{}\x1b\\", body.join(";")), Ev::Termcap(items))
            } else {
                let items: Vec<(String, Option<String>)> = names.iter().map(|n| (n.to_string(), None)).collect();
                let body: Vec<String> = names.iter().map(|k| hex_name(k, rng)).collect();
                (format!("\x1bP0+r{}\x1b\\", body.join(";")), Ev::Termcap(items))
            }
        }
        15 => {
            let (params, m) = gen_sgr(rng, 4);
            (format!("\x1bP1$r{params}m\x1b\\"), Ev::FaceGet(m))
        }
        16 => {
            let id = match rng.below(3) {
                0 => rng.range(1, 100) as u64,
                1 => 4294967295,
                _ => rng.next_u32() as u64,
            };
            let placement = if rng.bool() { Some(rng.next_u32() as u64) } else { None };
            let error = if rng.bool() {
                None
            } else {
                Some(loop {
                    let t = if rng.chance(1, 40) {
                        format!("E{}", "long error text ".repeat(rng.range(250, 600)))
                    } else {
                        format!("E{}", gen_text(rng, 12))
                    };
                    if t != "OK" {
                        break t;
                    }
                })
            };
            let mut keys = format!("i={id}");
            if let Some(p) = placement {
                keys.push_str(&format!(",p={p}"));
            }
            if rng.chance(1, 4) {
                keys.push_str(",I=7");
            }
            (
                format!("\x1b_G{keys};{}\x1b\\", error.clone().unwrap_or_else(|| "OK".into())),
                Ev::Kitty { id, placement, error },
            )
        }
        17 => {
            // one paste in sixty is long: reports have no length limit (4 KiB, 64 KiB boundaries)
            let text = if rng.chance(1, 60) {
                let n = *rng.pick(&[4000usize, 4089, 4090, 4096, 4097, 8192, 20_000, 65_536, 70_000]);
                let unit = gen_text(rng, 12) + "x";
                unit.chars().cycle().take(n).collect()
            } else {
                gen_text(rng, 24)
            };
            (format!("\x1b[200~{text}\x1b[201~"), Ev::Paste(text))
        }
        18 => {
            let (params, m) = gen_sgr(rng, 5);
            (format!("\x1b[{params}m"), Ev::Sgr(m))
        }
        // ---- plain UTF-8 text
        _ => loop {
            let c = any_scalar(rng);
            if c < 0x20 || c == 0x7f {
                continue;
            }
            break (char::from_u32(c).unwrap().to_string(), Ev::Key { name: KName::Char(c), mods: 0 });
        },
    };
    Item { enc: enc.into_bytes(), ev }
}

fn family_of(ev: &Ev) -> &'static str {
    match ev {
        Ev::Key { name: KName::Char(_), mods: 0 } => "key.char",
        Ev::Key { .. } => "key",
        Ev::Mouse { .. } => "mouse",
        Ev::Cpr { .. } => "cpr",
        Ev::Size { .. } => "size",
        Ev::DecMode { .. } => "decrpm",
        Ev::Da1(_) => "da1",
        Ev::Color { .. } => "osc-color",
        Ev::Termcap(_) => "termcap",
        Ev::FaceGet(_) => "decrpss",
        Ev::Kitty { .. } => "kitty-image",
        Ev::Paste(_) => "paste",
        Ev::KbdLevel(_) => "kbdlevel",
        Ev::Sgr(_) => "sgr",
    }
}

impl Prop for C04 {
    type Case = Case;
    const ID: &'static str = "C04";

    fn default_cases(tier: Tier, flavour: &str) -> u64 {
        match (tier, flavour) {
            (Tier::Quick, _) => 400_000,
            (Tier::Thorough, "asan") => 2_000_000,
            (Tier::Thorough, _) => 30_000_000,
        }
    }

    fn gen(rng: &mut Rng, _tier: Tier, index: u64) -> Case {
        let n = if index % 2 == 0 { 1 } else { rng.range(2, 12) };
        let mut items: Vec<Item> = (0..n).map(|i| gen_item(rng, index / 2 + i as u64)).collect();
        // keys that are also the introducer of a longer sequence (alt+[ = CSI, alt+shift+o = SS3):
        // unambiguous when a C0 control key follows, which can continue neither
        if rng.chance(1, 5) {
            let at = rng.range(0, items.len());
            let (enc, name, mods) = if rng.bool() {
                (b"\x1b[".to_vec(), KName::Char('[' as u32), 2)
            } else {
                (b"\x1bO".to_vec(), KName::Char('o' as u32), 2 | 1)
            };
            let letter = *rng.pick(b"abcdefghklnopqrstuvwxyz");
            items.insert(
                at,
                Item { enc: vec![letter & 0x1f], ev: Ev::Key { name: KName::Char(letter as u32), mods: 4 } },
            );
            items.insert(at, Item { enc, ev: Ev::Key { name, mods } });
        }
        // a bare ESC key is only unambiguous as the very last thing received
        if rng.chance(1, 16) {
            items.push(Item {
                enc: vec![0x1b],
                ev: Ev::Key { name: KName::Named("esc".into()), mods: 0 },
            });
        }
        let len: usize = items.iter().map(|i| i.enc.len()).sum();
        let cuts = match rng.below(3) {
            0 => vec![],
            1 => vec![1; len],
            _ => rng.partition(len),
        };
        Case { items, cuts }
    }

    fn check(case: &Case, ctx: &mut Ctx) -> Result<(), Fail> {
        let mut input = Vec::new();
        let mut expected = Vec::new();
        for item in &case.items {
            input.extend_from_slice(&item.enc);
            match to_event(&item.ev) {
                Some(ev) => expected.push(ev),
                None => fail!("harness:bad-item", "item {:?} has no event", item.ev),
            }
            ctx.feat(family_of(&item.ev));
        }
        ctx.feat_if(case.items.len() > 1, "concatenated");
        let mut got = run_event(&input, &case.cuts)?;
        // a trailing bare ESC is only emitted once more input (or nothing) follows: flush it
        // the way a terminal loop would see it, by comparing what is decided so far
        let pending_esc = case.items.last().map(|i| i.enc == [0x1b]).unwrap_or(false);
        if pending_esc && got.len() + 1 == expected.len() {
            expected.pop();
            ctx.feat("trailing-esc-pending");
        }
        if got != expected {
            let at = got
                .iter()
                .zip(expected.iter())
                .position(|(a, b)| a != b)
                .unwrap_or(got.len().min(expected.len()));
            let fam = case.items.get(at).map(|i| family_of(&i.ev)).unwrap_or("count");
            let item = case.items.get(at);
            got.truncate(at + 2);
            fail!(
                format!("decode-mismatch:{fam}"),
                "item #{at} {:?} printed as {} decoded to {:?}, expected {:?} (stream of {} items, cuts {:?})",
                item.map(|i| &i.ev),
                item.map(|i| esc(&i.enc)).unwrap_or_default(),
                got.get(at),
                expected.get(at),
                case.items.len(),
                &case.cuts[..case.cuts.len().min(8)]
            );
        }
        Ok(())
    }

    fn nontrivial(case: &Case) -> bool {
        !case.items.is_empty()
    }

    fn case_hash(case: &Case) -> u64 {
        use std::hash::{Hash, Hasher};
        let mut h = std::collections::hash_map::DefaultHasher::new();
        case.items.hash(&mut h);
        h.finish()
    }

    fn shrink(case: &Case) -> Vec<Case> {
        let mut out = Vec::new();
        if !case.cuts.is_empty() {
            out.push(Case { items: case.items.clone(), cuts: vec![] });
        }
        for items in shrink_vec(&case.items) {
            if !items.is_empty() {
                out.push(Case { items, cuts: vec![] });
            }
        }
        out
    }

    fn rule() -> &'static str {
        "case = concatenation of 1..12 printed encodings (20 families visited round-robin, all 128 SGR-mouse button codes in turn) + read partition; non-trivial = at least one item; distinct = hash of the item list"
    }

    fn sample(case: &Case) -> serde_json::Value {
        serde_json::json!({
            "items": case.items.iter().take(4).map(|i| serde_json::json!({"bytes": esc(&i.enc), "event": format!("{:?}", i.ev)})).collect::<Vec<_>>(),
            "n_items": case.items.len(),
            "cuts": &case.cuts[..case.cuts.len().min(10)],
        })
    }
}
