//! Seeded PRNG (splitmix64) — every random choice of every workload comes from here.

#[derive(Clone, Debug)]
pub struct Rng {
    state: u64,
}

pub fn mix(mut z: u64) -> u64 {
    z = z.wrapping_add(0x9e37_79b9_7f4a_7c15);
    z = (z ^ (z >> 30)).wrapping_mul(0xbf58_476d_1ce4_e5b9);
    z = (z ^ (z >> 27)).wrapping_mul(0x94d0_49bb_1331_11eb);
    z ^ (z >> 31)
}

impl Rng {
    pub fn new(seed: u64) -> Self {
        Self { state: mix(seed) }
    }

    /// Independent stream for (seed, property, shard, case index)
    pub fn for_case(seed: u64, prop: &str, shard: u64, index: u64) -> Self {
        let mut h = mix(seed);
        for b in prop.bytes() {
            h = mix(h ^ b as u64);
        }
        h = mix(h ^ shard.wrapping_mul(0x1000_0000_01b3));
        h = mix(h ^ index);
        Self { state: h }
    }

    pub fn next_u64(&mut self) -> u64 {
        self.state = self.state.wrapping_add(0x9e37_79b9_7f4a_7c15);
        let mut z = self.state;
        z = (z ^ (z >> 30)).wrapping_mul(0xbf58_476d_1ce4_e5b9);
        z = (z ^ (z >> 27)).wrapping_mul(0x94d0_49bb_1331_11eb);
        z ^ (z >> 31)
    }

    pub fn next_u32(&mut self) -> u32 {
        (self.next_u64() >> 32) as u32
    }

    pub fn next_u8(&mut self) -> u8 {
        (self.next_u64() >> 56) as u8
    }

    /// Uniform in [0, n), n > 0
    pub fn below(&mut self, n: usize) -> usize {
        debug_assert!(n > 0);
        ((self.next_u64() >> 11) % (n as u64)) as usize
    }

    pub fn below_u64(&mut self, n: u64) -> u64 {
        (self.next_u64() >> 1) % n
    }

    /// Uniform in [lo, hi] inclusive
    pub fn range(&mut self, lo: usize, hi: usize) -> usize {
        lo + self.below(hi - lo + 1)
    }

    pub fn range_i64(&mut self, lo: i64, hi: i64) -> i64 {
        let span = (hi as i128 - lo as i128 + 1) as u128;
        let v = (self.next_u64() as u128) % span;
        (lo as i128 + v as i128) as i64
    }

    /// true with probability num/den
    pub fn chance(&mut self, num: usize, den: usize) -> bool {
        self.below(den) < num
    }

    pub fn bool(&mut self) -> bool {
        self.next_u64() & (1 << 40) != 0
    }

    pub fn pick<'a, T>(&mut self, items: &'a [T]) -> &'a T {
        &items[self.below(items.len())]
    }

    pub fn pick_str<'a>(&mut self, items: &[&'a str]) -> &'a str {
        items[self.below(items.len())]
    }

    pub fn f64(&mut self) -> f64 {
        (self.next_u64() >> 11) as f64 / (1u64 << 53) as f64
    }

    pub fn bytes(&mut self, len: usize) -> Vec<u8> {
        (0..len).map(|_| self.next_u8()).collect()
    }

    /// Random partition of `len` into consecutive chunk sizes (may contain zeros)
    pub fn partition(&mut self, len: usize) -> Vec<usize> {
        let mut out = Vec::new();
        let mut left = len;
        let style = self.below(4);
        while left > 0 {
            let n = match style {
                0 => 1,
                1 => self.range(0, 3),
                2 => self.range(0, left.min(9)),
                _ => self.range(0, left),
            };
            let n = n.min(left);
            out.push(n);
            left -= n;
        }
        if self.chance(1, 4) {
            out.push(0);
        }
        out
    }

    pub fn shuffle<T>(&mut self, items: &mut [T]) {
        for i in (1..items.len()).rev() {
            let j = self.below(i + 1);
            items.swap(i, j);
        }
    }
}
