//! snt_verif — runtime monitors for surf-n-term properties C01..C20
//!
//!   snt_verif run <ID> --tier quick|thorough --flavour F --seed N --shard I --nshards N
//!                      --outdir D [--cases N] [--start-index K] [--max-secs S] [--journal P]
//!   snt_verif replay <ID> <case.json> [--tier T] [--flavour F]
//!   snt_verif describe <ID> --seed N --shard I --nshards N --index K --tier T
pub mod core;
pub mod models;
pub mod props;
pub mod rng;

use crate::core::{Prop, RunArgs, Tier};
use std::collections::HashMap;

fn parse_flags(args: &[String]) -> (Vec<String>, HashMap<String, String>) {
    let mut pos = Vec::new();
    let mut flags = HashMap::new();
    let mut i = 0;
    while i < args.len() {
        if let Some(name) = args[i].strip_prefix("--") {
            let value = args.get(i + 1).cloned().unwrap_or_default();
            flags.insert(name.to_string(), value);
            i += 2;
        } else {
            pos.push(args[i].clone());
            i += 1;
        }
    }
    (pos, flags)
}

fn tier_of(flags: &HashMap<String, String>) -> Tier {
    match flags.get("tier").map(|s| s.as_str()) {
        Some("thorough") => Tier::Thorough,
        _ => Tier::Quick,
    }
}

fn num<T: std::str::FromStr>(flags: &HashMap<String, String>, name: &str, default: T) -> T {
    flags
        .get(name)
        .and_then(|v| v.parse().ok())
        .unwrap_or(default)
}

fn dispatch<P: Prop>(cmd: &str, pos: &[String], flags: &HashMap<String, String>) -> i32 {
    let tier = tier_of(flags);
    let flavour = flags
        .get("flavour")
        .cloned()
        .unwrap_or_else(|| "chk".to_string());
    match cmd {
        "run" => {
            let outdir = flags.get("outdir").cloned().unwrap_or_else(|| ".".into());
            let args = RunArgs {
                tier,
                flavour: flavour.clone(),
                seed: num(flags, "seed", 1u64),
                shard: num(flags, "shard", 0u64),
                nshards: num(flags, "nshards", 1u64),
                cases: flags.get("cases").and_then(|v| v.parse().ok()),
                start_index: num(flags, "start-index", 0u64),
                max_secs: num(flags, "max-secs", 1e9f64),
                outdir: outdir.clone(),
                journal: flags.get("journal").cloned(),
                case_timeout: num(flags, "case-timeout", 30f64),
            };
            let report = core::run::<P>(&args);
            let path = format!(
                "{}/{}.{}.{}.report.json",
                outdir,
                P::ID,
                flavour,
                args.shard
            );
            let text = serde_json::to_string(&report).expect("report");
            if flags.contains_key("stdout-report") || cfg!(miri) {
                println!("REPORT-JSON {}", text);
            }
            if !cfg!(miri) {
                std::fs::write(&path, text).expect("write report");
            }
            0
        }
        "replay" => {
            let path = &pos[2];
            let text = std::fs::read_to_string(path).expect("read replay file");
            let value: serde_json::Value = serde_json::from_str(&text).expect("parse replay file");
            let case = value.get("case").cloned().unwrap_or(value);
            match core::replay::<P>(case, tier, &flavour) {
                Ok(()) => {
                    println!("REPLAY-OK property={}", P::ID);
                    0
                }
                Err(fail) => {
                    println!("REPLAY-FAIL property={} sig={} what={}", P::ID, fail.sig, fail.what);
                    1
                }
            }
        }
        "describe" => {
            let value = core::describe::<P>(
                num(flags, "seed", 1u64),
                num(flags, "shard", 0u64),
                num(flags, "nshards", 1u64),
                num(flags, "index", 0u64),
                tier,
            );
            println!("{}", serde_json::to_string(&value).unwrap());
            0
        }
        _ => {
            eprintln!("unknown command {cmd}");
            64
        }
    }
}

fn main() {
    let args: Vec<String> = std::env::args().skip(1).collect();
    let (pos, flags) = parse_flags(&args);
    if pos.len() < 2 {
        eprintln!("usage: snt_verif run|replay|describe <ID> ...");
        std::process::exit(64);
    }
    let cmd = pos[0].as_str();
    if cmd == "count-distinct" {
        // union of the u64 hash files written by workers
        let mut all: Vec<u64> = Vec::new();
        for path in &pos[1..] {
            if let Ok(bytes) = std::fs::read(path) {
                all.extend(bytes.chunks_exact(8).map(|c| u64::from_le_bytes(c.try_into().unwrap())));
            }
        }
        all.sort_unstable();
        all.dedup();
        println!("{}", all.len());
        return;
    }
    let code = props::dispatch(cmd, pos[1].as_str(), &pos, &flags);
    std::process::exit(code);
}

pub(crate) fn run_prop<P: Prop>(
    cmd: &str,
    pos: &[String],
    flags: &HashMap<String, String>,
) -> i32 {
    dispatch::<P>(cmd, pos, flags)
}
